"""Shared driver for the properties decided over the differ model
(C01, C03, C04, C05, C07, C13, C17)."""
import json
import random
from copy import deepcopy
from lxml import etree
from harness import lib, gen, differ_corr, oracles

F_SETS = [{'F': 0.1}, {'F': 0.5}, {'F': 0.6, 'fast_match': True, 'best_match': True}, {'F': 0.71, 'fast_match': True}, {'F': 0.9, 'fast_match': True}, {'F': 1.0},
          {'F': 1.0, 'best_match': True}, {'F': 0.3, 'ratio_mode': 'accurate', 'fast_match': True}]
UNIQ_SETS = [{'uniqueattrs': ['i', 'j']}, {'uniqueattrs': ['i', ('a', 'j'), 'k'], 'best_match': True},
             {'uniqueattrs': [], 'fast_match': True}, {'uniqueattrs': [('b', 'i')]},
             # several (tag, attr) pairs for ONE tag, pairs for several tags, list-form pairs
             {'uniqueattrs': [('a', 'i'), ('a', 'j')]}, {'uniqueattrs': [('a', 'j'), ('a', 'i'), ('b', 'i')], 'fast_match': True},
             {'uniqueattrs': [['a', 'i'], ['a', 'k'], 'j'], 'best_match': True},
             {'uniqueattrs': ['i', ('b', 'j')], 'best_match': True, 'fast_match': True}]
XMLID = '{http://www.w3.org/XML/1998/namespace}id'
IGN_SETS = [{'ignored_attrs': ['i'], 'uniqueattrs': [('a', 'i'), ('b', 'i'), 'j']}, {'ignored_attrs': ['i']}, {'ignored_attrs': ['i', 'j'], 'fast_match': True},
            {'ignored_attrs': ['i'], 'uniqueattrs': ['i', 'j']}, {'ignored_attrs': ['k', '{urn:p}i'], 'best_match': True}]


def xml(e):
    return etree.tostring(e).decode()


def ns_variant(rng, root):
    """Re-declare the root with a different set of prefix declarations (never the
    default namespace, never a prefix bound to two URIs)."""
    want = {k: v for k, v in gen.NS.items() if rng.random() < .6}
    used = set()
    for e in root.iter():
        if isinstance(e.tag, str):
            for name in [e.tag] + list(e.attrib):
                if name.startswith('{'):
                    used.add(name[1:].split('}')[0])
    for k, v in gen.NS.items():
        if v in used:
            want[k] = v
    new = etree.Element(root.tag, nsmap=want)
    new.text = root.text
    for k, v in root.attrib.items():
        new.set(k, v)
    for c in root:
        new.append(deepcopy(c))
    return new


def default_inputs(run, rng, focus):
    quick = run.tier == "quick"
    n = 350 if quick else 4000
    inputs = []
    sets = list(gen.OPTION_SETS)
    if focus in ("C07",):
        sets += UNIQ_SETS * 2 + F_SETS
    elif focus in ("C13",):
        sets = IGN_SETS * 3 + gen.OPTION_SETS[:3]
    elif focus in ("C03",):
        sets += F_SETS * 2 + UNIQ_SETS
    else:
        sets += F_SETS + UNIQ_SETS + IGN_SETS[:2]
    if focus == "C07":
        n = 2 * n
    for i in range(n):
        ns = rng.random() < .35
        kw = {}
        if focus == "C07" and rng.random() < .6:
            # attribute-heavy documents over few values: unique-attribute rules bite
            kw = dict(attr_counts=(1, 2, 2, 3), values=('1', '2') if rng.random() < .6 else ('1', '', ''), tags=['a', 'b'])
            ns = False
        if not kw and rng.random() < .25:
            # attribute values that differ only in inner white space, and the same local attribute
            # name with and without a namespace (what node_text collapses / strips)
            if rng.random() < .5:
                kw = dict(attr_counts=(1, 2, 2), values=('Hello  World', 'Hello World', ' x', 'x', '1'),
                          attrs=['i', '{urn:p}i', 'j', 'k'])
            else:
                kw = dict(attr_counts=(1, 1, 2), values=('n1', 'n2'),
                          attrs=['id', '{http://www.w3.org/XML/1998/namespace}id', 'i', '{urn:p}i'], tags=['a', 'b'])
            ns = True
        L, R = gen.gen_pair(rng, 8, ns=ns, words=gen.WORDS[:8] if rng.random() < .5 else None, **kw)
        if kw and 'attrs' in kw and rng.random() < .7:
            # targeted: the right document differs in what node_text cannot see -- inner white space of an
            # attribute value, or the namespace of an attribute with the same local name and value
            R = deepcopy(L) if rng.random() < .5 else R
            for e in R.iter():
                if not isinstance(e.tag, str):
                    continue
                for k, v in list(e.attrib.items()):
                    r_ = rng.random()
                    if '  ' in v and r_ < .6:
                        e.set(k, v.replace('  ', ' '))
                    elif v.startswith(' ') and r_ < .6:
                        e.set(k, v.strip())
                    elif k == 'i' and '{urn:p}i' not in e.attrib and r_ < .4:
                        del e.attrib[k]; e.set('{urn:p}i', v)
                    elif k == '{urn:p}i' and 'i' not in e.attrib and r_ < .4:
                        del e.attrib[k]; e.set('i', v)
        XID = '{http://www.w3.org/XML/1998/namespace}id'
        for doc in (L, R):      # xml:id values must be unique within a document to be parseable
            seen = set()
            for e in doc.iter():
                if isinstance(e.tag, str) and XID in e.attrib:
                    v = e.get(XID)
                    while v in seen:
                        v = v + 'x'
                    seen.add(v)
                    e.set(XID, v)
        if ns and rng.random() < .5:
            L, R = ns_variant(rng, L), ns_variant(rng, R)
        opts = rng.choice(sets)
        if kw and 'attrs' in kw:
            opts = rng.choice([{}, {'uniqueattrs': ['i']}, {'uniqueattrs': ['id'], 'fast_match': True}, {'best_match': True},
                               {'uniqueattrs': [('a', '{urn:p}i')]}, {'ignored_attrs': ['j']}, {'ignored_attrs': ['i']}, {'ignored_attrs': ['id'], 'fast_match': True}])
        elif kw:
            opts = rng.choice(UNIQ_SETS[:2] + UNIQ_SETS[4:] + [{'uniqueattrs': ['j', 'i'], 'fast_match': True}, {'uniqueattrs': [('a', 'i'), 'k']}])
        if rng.random() < .08:
            opts = dict(opts, _embed=True)     # the trees are handed over as sub-elements of larger documents
        elif rng.random() < .06:
            opts = dict(opts, _blank=True)     # trees built in code: "" where a parser leaves None
        if focus == "C03" and rng.random() < .6:
            R = deepcopy(L)
        if focus == "C13" and rng.random() < .6:
            # differ only in ignored attributes
            R = deepcopy(L)
            for e in R.iter():
                if isinstance(e.tag, str) and rng.random() < .5:
                    for a in opts.get('ignored_attrs', []):
                        r = rng.random()
                        if r < .4:
                            e.set(a, rng.choice('123'))
                        elif r < .6 and a in e.attrib:
                            del e.attrib[a]
        rx = xml(R)
        if ns and rng.random() < .3:
            # the right document spells the prefix of urn:p differently (same URI, other prefix)
            rx = rx.replace('xmlns:p=', 'xmlns:pp=').replace('<p:', '<pp:').replace('</p:', '</pp:').replace(' p:', ' pp:')
        inputs.append((xml(L), rx, opts))
    # duplicate content: identical leaves / subtrees in several places, wrappers dropped / unwrapped / moved / copied
    for i in range(120 if quick else 1500):
        L, R = gen.gen_dup_pair(rng)
        inputs.append((xml(L), xml(R), rng.choice([{}, {}, {'fast_match': True}, {'best_match': True}, {'F': 0.9}])))
    # forced matchings (xml:id everywhere), the right document a rearrangement within and across parents
    for i in range(80 if quick else 1200):
        L, R = gen.gen_idperm_pair(rng)
        inputs.append((xml(L), xml(R), rng.choice([{}, {}, {'fast_match': True}, {'best_match': True}])))
    # near-duplicate paragraphs next to exact counterparts, nodes without any candidate between them
    for i in range(60 if quick else 900):
        L, R = gen.gen_neardup_pair(rng)
        inputs.append((xml(L), xml(R), rng.choice([{'best_match': True}, {'best_match': True}, {}, {'fast_match': True}, {'F': 0.9, 'best_match': True}])))
    # documents that differ ONLY in where a comment stands among its sibling elements (or in a comment's text / tail)
    if focus in ("C03", "C01", "C05", "C17"):
        for a, b in COMMENT_SHIFT:
            inputs.append((a, b, {}))
            inputs.append((b, a, {'fast_match': True}))
        for _ in range(40 if quick else 400):
            L = gen.gen_tree(rng, rng.randint(4, 8), ns=False, comments=True)
            R = deepcopy(L)
            cs_ = [c for c in R.iter() if c.tag is etree.Comment and len(c.getparent()) > 1]
            if not cs_:
                continue
            c = rng.choice(cs_)
            par = c.getparent()
            i = par.index(c)
            j = rng.choice([k for k in range(len(par)) if k != i])
            tail = c.tail
            c.tail = None
            par.remove(c)       # (lxml drops the tail with the node: re-attach it so that only the position changes)
            par.insert(j, c)
            c.tail = tail
            inputs.append((xml(L), xml(R), rng.choice([{}, {'fast_match': True}, {'best_match': True}])))
    # wide documents: one parent with many children, reversed / shuffled / rotated (long alignments)
    if focus in ("C01", "C04", "C05", "C17"):
        # small permutations of same-tag siblings with children of their own (paths through shifting indices)
        for perm in ([2, 1, 0], [1, 2, 0], [2, 0, 1], [3, 2, 1, 0], [1, 0, 3, 2], [3, 0, 2, 1]):
            kids = ['<c k="%d">%s</c>' % (i, "<d/>" * (i + 1)) for i in range(len(perm))]
            inputs.append(("<r>" + "".join(kids) + "</r>",
                           "<r>" + "".join(kids[i].replace("<d/>", "<d/><e/>", 1) for i in perm) + "</r>", {'uniqueattrs': ['k']}))
        for n in ([45] if quick else [45, 80]):
            for kind in ("reversed", "shuffled"):
                ks = list(range(n))
                ks2 = list(reversed(ks)) if kind == "reversed" else rng.sample(ks, n)
                mk = lambda order: "<r>" + "".join('<c k="%d">t%d</c>' % (i, i) for i in order) + "</r>"
                inputs.append((mk(ks), mk(ks2), {'uniqueattrs': ['k']}))
    # attribute renames / moves of values on matched nodes under a non-empty ignore list (with and without the ignored
    # attribute occurring in the documents)
    for a, b in ATTR_RENAME_STREAM:
        for o in ({'ignored_attrs': ['i']}, {'ignored_attrs': ['zz']}, {'ignored_attrs': ['i', '{urn:p}i'], 'fast_match': True}, {}):
            inputs.append((a, b, o))
    # one prefix standing for different URIs in different document pairs, with the very same path strings (anything that
    # remembers a resolved / compiled path across calls shows here)
    if focus in ("C01", "C04", "C05"):
        for a, b in NS_SEQUENCE:
            inputs.append((a, b, {}))
    # empty attribute values (renames / moves of the value ""), and trees BUILT IN CODE whose text / tail is the empty
    # string rather than None on both sides
    for a, b in EMPTY_VALUE_STREAM:
        for o in ({}, {'fast_match': True}):
            inputs.append((a, b, o))
    # the two roots bind ONE prefix to DIFFERENT URIs (Differ.diff refuses: RuntimeError, tolerated as documented);
    # if a script is handed out all the same it must be a correct one
    if focus in ("C01", "C04", "C05"):
        for a, b in REBOUND_STREAM:
            inputs.append((a, b, {}))
    # default uniqueattrs (xml:id) AFTER Differs that were configured to ignore xml:id / with other unique attributes:
    # options of one Differ must not leak into the defaults of the next
    if focus in ("C07", "C13", "C03"):
        inputs.append(('<r><a xml:id="n1">t</a></r>', '<r><a xml:id="n2">t</a></r>', {'ignored_attrs': [XMLID]}))
        inputs.append(('<r><a xml:id="n1">t</a></r>', '<r><a xml:id="n2">t</a></r>', {'ignored_attrs': [XMLID], 'uniqueattrs': [XMLID, 'i']}))
        for a, b in XMLID_STREAM:
            for o in ({}, {'fast_match': True}, {'best_match': True}):
                inputs.append((a, b, o))
    # xml:space="preserve": white space between elements is content there (lxml's remove_blank_text keeps it, and so
    # must whatever the text-level entry points use to drop ignorable white space)
    if focus in ("C03", "C01", "C14"):
        for a, b in XMLSPACE_STREAM:
            inputs.append((a, b, {}))
    # unique attribute values that differ only in padding / inner white space / NBSP / case: different values
    if focus == "C07":
        for a, b in (('<r><p id="a1">Jane Doe text</p><k/></r>', '<r><p id="a1 ">Jane Doe text</p><k/></r>'),
                     ('<r><p id="Jane Doe">same</p></r>', '<r><q/><p id="Jane  Doe">same</p></r>'),
                     ('<r><p id="x\u00a0y">same</p><p id="x y">same</p></r>', '<r><p id="x y">same</p><p id="x\u00a0y">same</p></r>'),
                     ('<r><item name="A">t</item><item name="a">t</item></r>', '<r><item name="a">t</item><item name="A">t</item></r>')):
            for o in ({'uniqueattrs': ['id', 'name']}, {'uniqueattrs': [('p', 'id'), ('item', 'name')], 'fast_match': True},
                      {'uniqueattrs': ['id', 'name'], 'best_match': True}):
                inputs.append((a, b, o))
    # a unique attribute that is present with the EMPTY value on one side and absent (or non-empty) on the other
    if focus == "C07":
        for a, b in (('<r><a i="">same text</a><k/></r>', '<r><a>same text</a><k/></r>'),
                     ('<r><a>same text</a></r>', '<r><b/><a i="">same text</a></r>'),
                     ('<r><a i="" j="1">t</a><a i="x" j="1">t</a></r>', '<r><a i="x" j="1">t</a><a j="1">t</a></r>')):
            for o in ({'uniqueattrs': ['i']}, {'uniqueattrs': ['i'], 'fast_match': True}, {'uniqueattrs': [('a', 'i')], 'best_match': True}, {}):
                inputs.append((a, b, o))
    # equal documents whose attributes are WRITTEN in another order, next to twins in the original order; elements with
    # 6..15 children under the highest thresholds (a child ratio summed up in floating point is not exactly 1.0)
    if focus in ("C03", "C01", "C07"):
        for a, b in ATTR_ORDER_STREAM:
            for o in ({'ratio_mode': 'accurate'}, {'ratio_mode': 'accurate', 'fast_match': True}, {'ratio_mode': 'fast', 'best_match': True}, {}):
                inputs.append((a, b, o))
        for n in (6, 7, 10, 13, 15):
            doc = "<r><k/><box>%s</box><box2>%s</box2></r>" % ("".join("<c%d>t%d</c%d>" % (i, i, i) for i in range(n)), "<z/>" * n)
            for o in ({'F': 1.0}, {'F': 1.0, 'fast_match': True}, {'F': 1.0, 'best_match': True}, {'F': 1.0, 'ratio_mode': 'accurate'}):
                inputs.append((doc, doc, o))
    # ignored / unique attribute names in namespaces whose URI itself contains "xml:" or looks like a prefix form
    if focus in ("C13", "C07"):
        for a, b in XMLURI_STREAM:
            inputs.append((a, b, {'ignored_attrs': ['{urn:ietf:params:xml:ns:inv}rev', 'stamp']}))
            inputs.append((a, b, {'ignored_attrs': ['stamp', '{urn:ietf:params:xml:ns:inv}rev'], 'fast_match': True}))
            inputs.append((a, b, {'uniqueattrs': ['{urn:ietf:params:xml:ns:inv}name']}))
    # labelled stream of inputs that fall under recorded (open) known findings
    if focus in ("C01", "C04", "C05"):
        for a, b in KNOWN_STREAM:
            inputs.append((a, b, {}))
    # exhaustive small scope
    trees = gen.all_trees(3 if quick else 4)
    exh = 0
    if focus in ("C01", "C04", "C05", "C17"):
        for a in trees:
            for b in trees:
                inputs.append((a, b, {}))
                exh += 1
        if not quick:
            for a in gen.all_trees(3):
                for b in gen.all_trees(3):
                    for o in ({'fast_match': True}, {'best_match': True}):
                        inputs.append((a, b, o)); exh += 1
    if focus in ("C01", "C04", "C05", "C17"):
        # single-tag trees up to 5 nodes: many moves into / below same-tag siblings (sibling indices shift)
        st = gen.all_trees(5, tags=('s',))
        for a in st:
            for b in st:
                inputs.append((a, b, {})); exh += 1
    if focus == "C03":
        for a in gen.all_trees(4 if quick else 5):
            for o in gen.OPTION_SETS[:3] + F_SETS:
                inputs.append((a, a, o)); exh += 1
        # the converse on an exhaustive scope: every pair of DIFFERENT small documents gets a non-empty script
        sm = gen.all_trees(3 if quick else 4)
        for a in sm:
            for b in sm:
                if a != b:
                    inputs.append((a, b, {})); exh += 1
    elif focus == "C07":
        for a in gen.all_trees(3):
            for b in gen.all_trees(3):
                for o in ({}, {'fast_match': True}, {'best_match': True}):
                    inputs.append((a, b, o)); exh += 1
    return inputs, exh


def nonroot_ns(root):
    """a namespace URI in scope somewhere that the root does not declare"""
    top = set(root.nsmap.values())
    return any(set(e.nsmap.values()) - top for e in root.iter() if isinstance(e.tag, str))


def two_prefixes_one_uri(root):
    """the root element binds two prefixes (the default namespace counts) to the same namespace URI"""
    vals = list(root.nsmap.values())
    return len(vals) != len(set(vals))


def finding_key(desc, prop, msg):
    """Machine-checkable classification of the failing INPUT, used to match known findings."""
    try:
        L, R = etree.fromstring(desc["left"]), etree.fromstring(desc["right"])
        if L.nsmap.get(None) != R.nsmap.get(None):
            return "default-namespace-differs"
        if nonroot_ns(L) or nonroot_ns(R):
            return "non-root-namespace-declaration"
        import re
        if any(k is not None and re.match(r"ns\d+", k, flags=re.ASCII) for k in list(L.nsmap) + list(R.nsmap)):
            return "reserved-ns-prefix-on-root"
        if two_prefixes_one_uri(L):
            return "two-prefixes-one-uri-on-left-root"
    except Exception:  # noqa
        pass
    return None


XMLSPACE_STREAM = [
    ('<r><pre xml:space="preserve"><b>x</b> <i>y</i></pre></r>', '<r><pre xml:space="preserve"><b>x</b><i>y</i></pre></r>'),
    ('<r xml:space="preserve"><a/>\n<a/></r>', '<r xml:space="preserve"><a/><a/></r>'),
    ('<r><p xml:space="preserve"> <b/> </p><q> <b/> </q></r>', '<r><p xml:space="preserve"> <b/> </p><q><b/></q></r>'),
    ('<r><p xml:space="preserve"><b/>  <b/></p></r>', '<r><p xml:space="preserve"><b/> <b/></p></r>'),
    ('<r><p xml:space="preserve"><b/> <c xml:space="default"> <d/> </c></p></r>', '<r><p xml:space="preserve"><b/><c xml:space="default"><d/></c></p></r>'),
]
EMPTY_VALUE_STREAM = [
    ('<r><input disabled="">t</input></r>', '<r><input readonly="">t</input></r>'),
    ('<r><a i="" j="">t</a><b k=""/></r>', '<r><a m="" j="">t</a><b n="" k="1"/></r>'),
    ('<r><a x="">t</a></r>', '<r><a x="1">t</a></r>'),
    ('<r><a x="1">t</a></r>', '<r><a x="">t</a></r>'),
    ('<r><a x="" y="2">t</a><b/></r>', '<r><b/><a y="" z="">t</a></r>'),
]
ATTR_RENAME_STREAM = [
    ('<r><a i="1" j="5" x="9">t</a></r>', '<r><a i="2" k="5" x="9">t</a></r>'),
    ('<r><a j="5" x="9">t</a><b i="3" j="7"/></r>', '<r><a k="5" x="8">t</a><b i="4" k="7" j="1"/></r>'),
    ('<r><a i="1" j="5" k="5">t</a></r>', '<r><a i="1" m="5" n="5">t</a></r>'),
    ('<r xmlns:p="urn:p"><a p:i="1" j="5">t</a></r>', '<r xmlns:p="urn:p"><a p:i="2" p:k="5" i="5">t</a></r>'),
]
NS_SEQUENCE = [
    ('<r><k/></r>', '<r xmlns:p="urn:u1"><k/><p:n a="1"><p:m>t</p:m></p:n></r>'),
    ('<r><k/></r>', '<r xmlns:p="urn:u2"><k/><p:n b="2"><p:m>u</p:m></p:n></r>'),
    ('<r><k/></r>', '<r xmlns:p="urn:u1"><k/><p:n a="1"><p:m>t</p:m></p:n></r>'),
    ('<r xmlns:p="urn:u1"><p:k>x</p:k></r>', '<r xmlns:p="urn:u1"><p:k>y</p:k><p:k2 c="3"/></r>'),
    ('<r xmlns:p="urn:u2"><p:k>x</p:k></r>', '<r xmlns:p="urn:u2"><p:k>y</p:k><p:k2 c="3"/></r>'),
    ('<r xmlns:p="urn:u1"><p:k>x</p:k></r>', '<r xmlns:p="urn:u1"><p:k>y</p:k><p:k2 c="3"/></r>'),
]
ATTR_ORDER_STREAM = [
    ('<r><a x="1" y="2">t</a><a y="2" x="1">t</a></r>', '<r><a y="2" x="1">t</a><a x="1" y="2">t</a></r>'),
    ('<r><a x="1" y="2" z="3">t</a><b/></r>', '<r><a z="3" y="2" x="1">t</a><b/></r>'),
    ('<r><s><a p="q" x="1" y="2">t</a><a y="2" x="1" p="q">t</a></s><a x="1" y="2" p="q">t</a></r>',
     '<r><s><a y="2" p="q" x="1">t</a><a x="1" p="q" y="2">t</a></s><a p="q" y="2" x="1">t</a></r>'),
]
XMLURI_STREAM = [
    ('<inv xmlns:i="urn:ietf:params:xml:ns:inv"><item i:name="a" i:rev="1" stamp="x">t</item><item i:name="b" i:rev="1">u</item></inv>',
     '<inv xmlns:i="urn:ietf:params:xml:ns:inv"><item i:name="b" i:rev="2">u</item><item i:name="a" i:rev="3" stamp="y">t</item></inv>'),
    ('<inv xmlns:i="urn:ietf:params:xml:ns:inv"><item i:rev="1">t</item></inv>',
     '<inv xmlns:i="urn:ietf:params:xml:ns:inv"><item i:rev="2" stamp="z">t</item></inv>'),
]
COMMENT_SHIFT = [
    ('<doc><!--c--><a/><b/></doc>', '<doc><a/><!--c--><b/></doc>'),
    ('<doc><a/><b/><!--c--></doc>', '<doc><!--c--><a/><b/></doc>'),
    ('<doc><s><a>x</a><!--note--><b>y</b><c/></s></doc>', '<doc><s><a>x</a><b>y</b><c/><!--note--></s></doc>'),
    ('<doc><!--one--><a/><!--two--></doc>', '<doc><!--two--><a/><!--one--></doc>'),
]
REBOUND_STREAM = [
    ('<r xmlns:a="urn:1"><a:x>t</a:x><k/></r>', '<r xmlns:a="urn:2"><a:x>t</a:x><k/><a:y/></r>'),
    ('<r xmlns:a="urn:1"><a:x>t</a:x><k/></r>', '<r xmlns:a="urn:2"><k/><a:y>u</a:y></r>'),
    ('<r xmlns:a="urn:1"><a:x i="1"><a:z/></a:x></r>', '<r xmlns:a="urn:2"><a:x i="2"><a:z>t</a:z></a:x></r>'),
    ('<r xmlns:a="urn:1" xmlns:b="urn:2"><a:x>t</a:x><b:y/></r>', '<r xmlns:a="urn:2" xmlns:b="urn:1"><b:x>t2</b:x><a:y k="1"/></r>'),
    # the RIGHT root introduces two prefixes for one URI that the left root does not bind; created nodes are addressed later
    ('<r><k/></r>', '<r xmlns:p="u" xmlns:q="u"><k/><q:n a="1"><q:m>t</q:m></q:n></r>'),
    ('<r><k/></r>', '<r xmlns:q="u" xmlns:p="u"><k/><p:n a="1"><p:m>t</p:m></p:n><q:z>w</q:z></r>'),
    ('<r xmlns:o="urn:o"><o:k/></r>', '<r xmlns:o="urn:o" xmlns:a="u" xmlns:b="u"><o:k/><b:n><a:m>t</a:m></b:n></r>'),
    # namespaces lxml itself knows a default prefix for (XHTML html:, XML Schema xs:, ...) under ANOTHER prefix, on the right
    # root only; a new namespace used by the document element alone (its tag / an attribute of it)
    ('<doc><sec><k/></sec></doc>', '<doc xmlns:h="http://www.w3.org/1999/xhtml"><sec><k/><h:p>text<h:b>x</h:b></h:p></sec></doc>'),
    ('<doc><k/></doc>', '<doc xmlns:xsd="http://www.w3.org/2001/XMLSchema"><k/><xsd:element name="a"><xsd:annotation/></xsd:element></doc>'),
    ('<report><item>one</item></report>', '<r:report xmlns:r="urn:example:report"><item>one</item><item>two</item></r:report>'),
    ('<report><item>one</item></report>', '<report xmlns:m="urn:example:meta" m:rev="2"><item>one</item><item>two</item></report>'),
    # unusual but legal prefixes on the right root only (xml..., ns, n0, with dots / dashes / underscores)
    ('<doc><k/></doc>', '<doc xmlns:xmldsig="urn:sig"><k/><xmldsig:Signature i="1"><xmldsig:v>t</xmldsig:v></xmldsig:Signature></doc>'),
    ('<doc><k/></doc>', '<doc xmlns:XMLx="urn:x" xmlns:ns="urn:n"><k/><XMLx:e><ns:f>t</ns:f></XMLx:e></doc>'),
    ('<doc><k/></doc>', '<doc xmlns:a.b="urn:ab" xmlns:_p="urn:p" xmlns:x-y="urn:xy"><k/><a.b:e i="1"><_p:f>t</_p:f><x-y:g/></a.b:e></doc>'),
    ('<doc xmlns:n0="urn:n"><n0:k/></doc>', '<doc xmlns:n0="urn:n"><n0:k>t</n0:k><n0:m><n0:z/></n0:m></doc>'),
]
XMLID_STREAM = [
    ('<r><s xml:id="s1"><t>One</t><p>alpha</p></s><s xml:id="s2"><t>Two</t><p>beta</p></s></r>',
     '<r><s xml:id="s2"><t>Two</t><p>beta!</p></s><s xml:id="s1"><t>One</t><p>alpha!</p></s></r>'),
    ('<r><a xml:id="n1">same text</a><a xml:id="n2">same text</a></r>', '<r><a xml:id="n2">same text</a><a xml:id="n1">same text</a></r>'),
    ('<r><a xml:id="n1">t</a></r>', '<r><a xml:id="n2">t</a></r>'),
    ('<r><b><a xml:id="n1" i="1">t</a></b><a xml:id="n3">t</a></r>', '<r><b><a xml:id="n3" i="1">t</a></b><a xml:id="n1">t</a></r>'),
]


KNOWN_STREAM = [
    ('<a><b/></a>', '<a xmlns="urn:x"><b/></a>'),
    ('<a xmlns="urn:x"><b/></a>', '<a><b/></a>'),
    ('<a xmlns="urn:x"><b/></a>', '<a xmlns="urn:y"><b/><c/></a>'),
    ('<a><b/></a>', '<a><b/><p:c xmlns:p="urn:x"><p:d/></p:c></a>'),
    ('<a><c/></a>', '<a><c><z:k xmlns:z="urn:z"/><z:k xmlns:z="urn:z"><z:m xmlns:z="urn:z"/></z:k></c></a>'),
    ('<root><a/></root>', '<root xmlns:ns1="urn:x"><a/><ns1:b><ns1:c/></ns1:b></root>'),
    # the left root binds two prefixes to one URI: libxml2's getpath names and counts siblings by prefix, XPath by URI
    ('<r xmlns:p="u" xmlns:q="u"><q:x/></r>', '<r xmlns:p="u" xmlns:q="u"><q:x a="1"><q:y/></q:x></r>'),
    ('<r xmlns:p="u" xmlns:q="u"><p:x/><q:x/></r>', '<r xmlns:p="u" xmlns:q="u"><p:x/><q:x a="1"/></r>'),
    ('<r xmlns="u" xmlns:q="u"><x/><q:x/></r>', '<r xmlns="u" xmlns:q="u"><x/><q:x a="1"/></r>'),
    ('<r xmlns:p="u" xmlns:q="u"><p:x/><q:x>t</q:x></r>', '<r xmlns:p="u"><p:x/><p:x>t2</p:x></r>'),
    # only the RIGHT root does: must work
    ('<r xmlns:p="u"><p:x/></r>', '<r xmlns:p="u" xmlns:q="u"><p:x a="1"/><q:x><q:z/></q:x></r>'),
]


PI_STREAM = [
    # processing instructions below the root: Differ.node_text joins node.tag (a function for a PI) with strings
    ('<doc><p>a<?pi x?>b</p></doc>', '<doc><p>a<?pi x?>c</p></doc>'),
    ('<doc><?page break?><a/></doc>', '<doc><?page break?><a/></doc>'),
    ('<doc><a/></doc>', '<doc><a/><?php echo 1; ?></doc>'),
]


def pi_stream(focus):
    """Documents with a processing instruction below the root are outside the differ model (treeenc.supported); the open
    finding processing-instruction-below-root is exhibited here on every run, oracle only."""
    from xmldiff import main
    out = []
    for a, b in PI_STREAM:
        if focus == "C03" and a != b:
            continue
        try:
            s_ = main.diff_trees(etree.fromstring(a), etree.fromstring(b))
            if focus == "C03" and s_:
                out.append({"what": "non-empty script for equal documents: %r" % (s_,), "replay": {"left": a, "right": b, "opts": {}, "finding_key": None}})
        except Exception as ex:  # noqa
            what = ("diffing a document against an equal document raised %r instead of returning the empty script" if focus == "C03"
                    else "diff raised %r") % ex
            out.append({"what": what, "replay": {"left": a, "right": b, "opts": {}, "finding_key": "processing-instruction-below-root"}})
    return out


ENTITY_DOCS = [
    ('<!DOCTYPE r [<!ENTITY e "x">]><r><a>1 &e; 2</a>&e;<b/></r>', '<!DOCTYPE r [<!ENTITY e "x">]><r><a>1 &e; 3</a>&e;<c/><b k="&e;"/></r>'),
    ('<!DOCTYPE doc [<!ENTITY co "ACME"><!ENTITY yr "2026">]><doc><p>&co; &yr;</p><q/></doc>',
     '<!DOCTYPE doc [<!ENTITY co "ACME"><!ENTITY yr "2026">]><doc><q/><p>&co; and &co; &yr;</p></doc>'),
]


def entity_stream(focus):
    """documents with an internal DTD subset through the TEXT entry points (oracle only): diff_texts completes, the
    script applied to the left document gives the right one, and it is the script diff_trees gives for the parsed trees"""
    from xmldiff import main
    out = []
    for a, b in ENTITY_DOCS:
        rp = {"left": a, "right": b, "opts": {}, "entities": True, "finding_key": None}
        try:
            acts = main.diff_texts(a, b)
            ref = main.diff_trees(etree.fromstring(a), etree.fromstring(b))
        except Exception as ex:  # noqa
            out.append({"what": "main.diff_texts raised %r on documents with an internal DTD subset" % ex, "replay": rp})
            continue
        L, R = etree.fromstring(a), etree.fromstring(b)
        found = oracles.check_script(L, R, acts, ()) + oracles.check_patch(L, R, acts, ())
        if acts != ref:
            found.append(("C01", "main.diff_texts and main.diff_trees give different scripts: %r vs %r" % (acts, ref)))
        for p_, m in found:
            if p_ == focus:
                out.append({"what": "[documents with general entities] " + m, "replay": rp})
    return out


def deep_pairs():
    """documents nested a few hundred levels deep (beyond libxml2's default parser limit of 256: whatever serialises and
    re-parses on the way fails; whatever recurses per level in Python comes near the recursion limit)"""
    out = []
    for depth in (260, 420):
        l = "<a>" * depth + "<b>x</b><k/>" + "</a>" * depth
        r = "<a>" * depth + "<k/><b>y</b><c i='1'/>" + "</a>" * depth
        out.append((l, r))
    return out


def parse_deep(x):
    return etree.fromstring(x, etree.XMLParser(huge_tree=True))


def deep_stream(focus):
    """oracle only (the scripts are judged by the strict interpreter and by patching; the model is not run on them)"""
    from xmldiff import main
    out = []
    for a, b in deep_pairs():
        try:
            acts = main.diff_trees(parse_deep(a), parse_deep(b))
        except Exception as ex:  # noqa
            out.append({"what": "diff raised %r on documents nested %d levels deep" % (ex, a.count("<a>")),
                        "replay": {"left": a, "right": b, "opts": {}, "deep": True, "finding_key": None}})
            continue
        L, R = parse_deep(a), parse_deep(b)
        for p_, m in oracles.check_script(L, R, acts, ()) + oracles.check_patch(L, R, acts, ()):
            if p_ == focus:
                out.append({"what": "[documents nested %d levels deep] %s" % (a.count("<a>"), m),
                            "replay": {"left": a, "right": b, "opts": {}, "deep": True, "finding_key": None}})
    return out


def evaluate(built, focus):
    """Run the property oracles on the implementation's outputs."""
    viols = []
    stats = {"scripts": 0, "actions": 0, "exceptions": 0, "nonempty": 0}
    hist = {}
    for c in built:
        desc, raw, drun = c["desc"], c["raw"], c["run"]
        L, R = etree.fromstring(desc["left"]), etree.fromstring(desc["right"])
        if desc["opts"].get("_embed"):
            differ_corr.embed_pair(L, R, desc["left"])      # judged on what the differ was given
        if desc["opts"].get("_blank"):
            differ_corr.blank_pair(L, R)
        opts = drun.opts
        ign = tuple(opts.get("ignored_attrs", []))
        found = []
        if isinstance(raw, str):
            stats["exceptions"] += 1
            if L.nsmap.get(None) != R.nsmap.get(None) or not _ns_consistent(L, R):
                if raw != "exc:RuntimeError":
                    found.append(("C01", "diff raised " + raw))
            else:
                found.append(("C01", "diff raised " + raw))
            # the actions the differ handed out BEFORE it raised were emitted all the same (Differ.diff is a generator and
            # the documented way to consume it): they are judged, in order, on the clauses that speak of single actions
            pre = emitted_prefix(desc, opts)
            if pre:
                stats["prefix_scripts"] = stats.get("prefix_scripts", 0) + 1
                for p_, m in oracles.check_script(L, R, pre, ign):
                    if p_ in ("C04", "C05", "C13") :
                        found.append((p_, "[actions emitted before diff raised %s] %s" % (raw, m)))
        else:
            stats["scripts"] += 1
            stats["actions"] += len(raw)
            stats["nonempty"] += bool(raw)
            for a in raw:
                hist[type(a).__name__] = hist.get(type(a).__name__, 0) + 1
            found += oracles.check_script(L, R, raw, ign)
            found += oracles.check_patch(L, R, raw, ign)
            same = oracles.canon(oracles.from_lxml(L)) == oracles.canon(oracles.from_lxml(R))
            same_ign = oracles.canon(oracles.from_lxml(L), ignored=ign) == oracles.canon(oracles.from_lxml(R), ignored=ign)
            nsact = [a for a in raw if type(a).__name__ in ("InsertNamespace", "DeleteNamespace")]
            if same and len(raw) > len(nsact):
                found.append(("C03", "non-empty script for equal documents: %r" % (raw,)))
            if not same_ign and not raw:
                found.append(("C03", "empty script for different documents"))
            if ign and same_ign and len(raw) > len(nsact):
                found.append(("C13", "documents differ only in ignored attributes but the script is %r" % (raw,)))
            # the public entry point (main.diff_trees: one diff() call, no separate match()) must hand out the same
            # script as the stepped Differ the correspondence observes; if it does not, the property is judged on it too
            if not desc["opts"].get("_embed") and not desc["opts"].get("_blank"):
                stats["api_calls"] = stats.get("api_calls", 0) + 1
                rawt = [tuple([type(a).__name__] + list(a)) for a in raw]
                api = api_script(desc, opts)
                if api != rawt:
                    stats["api_differs"] = stats.get("api_differs", 0) + 1
                    found += judge_other("main.diff_trees", desc["left"], desc["right"], api, ign)
                # ONE Differ per option set serves the whole run: (a) these documents, freshly parsed; (b) the left document
                # of an earlier case against THIS right tree object once more (several revisions against one reference)
                okey = json.dumps(desc["opts"], sort_keys=True, default=list)
                sh = _SHARED.get(okey)
                if sh is None:
                    from xmldiff import diff as xd
                    o_ = {k: v for k, v in opts.items() if not k.startswith("_")}
                    sh = _SHARED[okey] = {"differ": xd.Differ(**o_), "opts": o_, "prev": None}
                Ro = etree.fromstring(desc["right"])
                got = tuples_of(lambda: sh["differ"].diff(etree.fromstring(desc["left"]), Ro))
                stats["reused_differ_calls"] = stats.get("reused_differ_calls", 0) + 1
                if got != rawt:
                    found += judge_other("a Differ used for earlier documents", desc["left"], desc["right"], got, ign)
                found += reused_matches(sh["differ"], Ro)
                if sh["prev"] is not None and stats["reused_differ_calls"] % 2 == 0:
                    got2 = tuples_of(lambda: sh["differ"].diff(etree.fromstring(sh["prev"]), Ro))
                    from xmldiff import diff as xd
                    want2 = tuples_of(lambda: xd.Differ(**sh["opts"]).diff(etree.fromstring(sh["prev"]), etree.fromstring(desc["right"])))
                    stats["reused_differ_calls"] += 1
                    if got2 != want2 and not isinstance(want2, str):
                        found += [(p_, m + " [left=%s]" % sh["prev"]) for p_, m in
                                  judge_other("a Differ fed the same right tree object again", sh["prev"], desc["right"], got2, ign)]
                sh["prev"] = desc["left"]
        # C07 on the matching (evaluated before the script was generated)
        found += c["c07"]
        # a similarity-oracle law that the theorems assume fails on a value CPython produced
        for msg in c.get("laws", []):
            found.append((focus, "premise of the theorems (similarity-oracle law) fails: " + msg))
        if focus == "C03" and not isinstance(raw, str) and not desc["opts"].get("_embed") and not desc["opts"].get("_blank"):
            found += text_level_c03(desc, opts, stats)
        if focus == "C17":
            # an action that cannot be applied as documented does not "change the document when applied" either
            found += [("C17", "not applicable, hence without effect: " + m) for p_, m in found if p_ == "C05"]
        if focus == "C13" and ign:
            # third clause of C13: applying the script yields the right document up to the ignored attributes
            found += [("C13", "with ignored_attrs=%r: %s" % (list(ign), m)) for p_, m in found if p_ in ("C01", "C05")]
            found += shared_options_oracle(desc, L, R, opts, ign)
        for prop, msg in found:
            if prop == focus:
                viols.append({"what": msg, "replay": {"left": desc["left"], "right": desc["right"], "opts": desc["opts"],
                                                      "finding_key": finding_key(desc, prop, msg)}})
    stats["action_histogram"] = hist
    viols.sort(key=lambda v: len(v["replay"]["left"]) + len(v["replay"]["right"]))
    return viols, stats


_SHARED = {}


def tuples_of(gen):
    try:
        return [tuple([type(a).__name__] + list(a)) for a in gen()]
    except Exception as ex:  # noqa
        return "exc:" + type(ex).__name__


def reused_matches(d, Ro):
    """C07, identity clauses, on the matching a REUSED Differ exposes after diff(l, r): nodes of these two documents
    only, roots paired, one-to-one (attribute clauses are judged before the script generation, on the stepped Differ)."""
    out = []
    ms = list(d._matches or [])
    lall, rall = {id(e) for e in d.left.iter()}, {id(e) for e in Ro.iter()}
    if any(id(a) not in lall or id(b) not in rall for a, b, _ in ms):
        out.append(("C07", "[a Differ used for earlier documents] after diff(l, r) the matching pairs nodes that belong to other documents"))
    if not any(a is d.left and b is Ro for a, b, _ in ms):
        out.append(("C07", "[a Differ used for earlier documents] after diff(l, r) the two roots are not paired"))
    if len({id(a) for a, _, _ in ms}) != len(ms) or len({id(b) for _, b, _ in ms}) != len(ms):
        out.append(("C07", "[a Differ used for earlier documents] after diff(l, r) a node is matched twice"))
    return out


def judge_other(how, lx, rx, script, ign):
    """The differ properties judged on a script obtained another way than the stepped fresh Differ."""
    if isinstance(script, str):
        return [("C01", "%s: raised %s where a new Differ returns a script" % (how, script))]
    from xmldiff import actions as A
    acts = [getattr(A, a[0])(*a[1:]) for a in script]
    nsa = [a for a in acts if type(a).__name__ in ("InsertNamespace", "DeleteNamespace")]
    L2, R2 = etree.fromstring(lx), etree.fromstring(rx)
    out = [(p_, "[%s] %s" % (how, m)) for p_, m in oracles.check_script(L2, R2, acts, ign) + oracles.check_patch(L2, R2, acts, ign)]
    same = oracles.canon(oracles.from_lxml(L2)) == oracles.canon(oracles.from_lxml(R2))
    same_ign = oracles.canon(oracles.from_lxml(L2), ignored=ign) == oracles.canon(oracles.from_lxml(R2), ignored=ign)
    if same and len(acts) > len(nsa):
        out.append(("C03", "[%s] non-empty script for equal documents: %r" % (how, acts)))
    if not same_ign and not acts:
        out.append(("C03", "[%s] empty script for different documents" % how))
    if ign and same_ign and len(acts) > len(nsa):
        out.append(("C13", "[%s] documents differ only in ignored attributes but the script is %r" % (how, acts)))
    return out


def text_level_c03(desc, opts, stats):
    """C03 at the text-level entry point, on the same strings before and after the xml formatter has been used on them
    (its prepare() rewrites the trees it is given): empty script iff the documents, parsed as diff_texts parses them,
    are equal; the right document also in another spelling (<a /> for <a/>)."""
    from xmldiff import main, formatting
    o = {k: v for k, v in opts.items() if not k.startswith("_")}
    ign = tuple(o.get("ignored_attrs", []))
    out = []
    try:
        P = etree.XMLParser(remove_blank_text=True)
        A, B = etree.fromstring(desc["left"], P), etree.fromstring(desc["right"], P)
        same = oracles.canon(oracles.from_lxml(A), ignored=ign) == oracles.canon(oracles.from_lxml(B), ignored=ign)
        spelled = desc["right"].replace("/>", " />")
        stats["text_level_c03"] = stats.get("text_level_c03", 0) + 1
        for step in ("first", "after-xml"):
            for rx in (desc["right"], spelled):
                s_ = main.diff_texts(desc["left"], rx, diff_options=dict(o))
                nsa = [a for a in s_ if type(a).__name__ in ("InsertNamespace", "DeleteNamespace")]
                if same and len(s_) > len(nsa):
                    out.append(("C03", "main.diff_texts (%s) returns a non-empty script for equal documents: %r" % (step, s_)))
                if not same and not s_:
                    out.append(("C03", "main.diff_texts (%s) returns the empty script for different documents" % step))
            if step == "first":
                try:
                    main.diff_texts(desc["left"], desc["right"], diff_options=dict(o), formatter=formatting.XMLFormatter())
                    main.diff_texts(desc["left"], spelled, diff_options=dict(o), formatter=formatting.XMLFormatter(normalize=formatting.WS_BOTH))
                except Exception:  # noqa  (the xml formatter's own failures are C08's business)
                    pass
    except Exception as ex:  # noqa
        out.append(("C01", "main.diff_texts raised %r" % ex))
    return out


def emitted_prefix(desc, opts):
    """The actions Differ.diff() yields before it raises (empty when it does not raise or yields nothing)."""
    from xmldiff import diff as xd
    o = {k: v for k, v in opts.items() if not k.startswith("_")}
    out = []
    try:
        Lx, Rx = etree.fromstring(desc["left"]), etree.fromstring(desc["right"])
        if desc["opts"].get("_embed"):
            differ_corr.embed_pair(Lx, Rx, desc["left"])
        if desc["opts"].get("_blank"):
            differ_corr.blank_pair(Lx, Rx)
        for a in xd.Differ(**o).diff(Lx, Rx):
            out.append(a)
    except Exception:  # noqa
        return out
    return []


def api_script(desc, opts):
    from xmldiff import main
    o = {k: v for k, v in opts.items() if not k.startswith("_")}
    try:
        return [tuple([type(a).__name__] + list(a)) for a in
                main.diff_trees(etree.fromstring(desc["left"]), etree.fromstring(desc["right"]), diff_options=o)]
    except Exception as ex:  # noqa
        return "exc:" + type(ex).__name__


def shared_options_oracle(desc, L, R, opts, ign):
    """main.diff_trees called twice with ONE options dict (as an API user comparing several documents does): the dict
    is not changed and the second script still ignores the ignored attributes."""
    from xmldiff import main
    out = []
    shared = {k: v for k, v in opts.items() if not k.startswith("_")}
    before = json.dumps(shared, sort_keys=True, default=list)
    try:
        main.diff_trees(etree.fromstring(desc["left"]), etree.fromstring(desc["right"]), diff_options=shared)
        s2 = main.diff_trees(etree.fromstring(desc["left"]), etree.fromstring(desc["right"]), diff_options=shared)
    except Exception:  # noqa   (failures of a single call are reported by the other oracles)
        return out
    if json.dumps(shared, sort_keys=True, default=list) != before:
        out.append(("C13", "main.diff_trees changed the caller's diff_options dict: %s -> %r" % (before, shared)))
    for a in s2:
        for f in ("name", "oldname", "newname"):
            if getattr(a, f, None) in ign:
                out.append(("C13", "second diff_trees call with the same diff_options dict: action %r names an ignored attribute" % (a,)))
    return out


def _ns_consistent(L, R):
    for k, v in R.nsmap.items():
        if k in L.nsmap and L.nsmap[k] != v:
            return False
    return True


def main(run, focus, extra_corr=None):
    rng = random.Random(run.seed)
    ok, pinfo = lib.proof_stage(run, focus)
    run.log("proof stage:", "ok" if ok else "BROKEN %s" % pinfo.get("failed"))
    inputs, exh = default_inputs(run, rng, focus)
    corr = {"name": "differ", "cases": 0, "bad": [], "log": "", "describe": lambda i: {}, "built": []}
    if pinfo.get("build_ok"):
        corr = differ_corr.run_corr(focus, inputs, check="check_rcase")
        built = corr["built"]
    else:
        built = [c for c in (differ_corr.build_case(*i) for i in inputs) if c]
    viols, stats = evaluate(built, focus)
    if focus in ("C01", "C03"):
        viols += pi_stream(focus)
    if focus in ("C01", "C04", "C05", "C17"):
        viols += deep_stream(focus)
    if focus in ("C01", "C04", "C05"):
        viols += entity_stream(focus)
    run.log("correspondence: %d cases, %d disagreements; oracle: %d scripts / %d actions, %d violations of %s" %
            (corr["cases"], len(corr["bad"]), stats["scripts"], stats["actions"], len(viols), focus))
    corrs = [corr] + (extra_corr(run, rng, pinfo) if extra_corr else [])

    def near_disagreements():
        """The inputs on which model and code disagree are where the code has changed behaviour: their neighbourhood
        (the same pair under every option set, small edits of either document, the pair reversed, a sibling doubled)
        is searched first for an input on which the property fails."""
        r3 = random.Random(run.seed + 5)
        seeds = [corr["describe"](i) for i in corr["bad"][:10]]
        inp = []
        for d in seeds:
            lx, rx, o0 = d["left"], d["right"], {k: v for k, v in d["opts"].items() if not k.startswith("_")}
            for o in [o0] + gen.OPTION_SETS + F_SETS + UNIQ_SETS[:3] + (IGN_SETS[:2] if focus in ("C13", "C03") else []):
                inp.append((lx, rx, o))
            inp.append((rx, lx, o0))
            try:
                L, R = etree.fromstring(lx), etree.fromstring(rx)
            except Exception:  # noqa
                continue
            for _ in range(30):
                L2 = gen.mutate_tree(r3, L, nops=r3.randint(1, 2)) if r3.random() < .5 else L
                R2 = gen.mutate_tree(r3, R, nops=r3.randint(1, 2)) if (L2 is L or r3.random() < .5) else R
                if r3.random() < .3:
                    kids = [e for e in R2.iter() if isinstance(e.tag, str) and e.getparent() is not None]
                    if kids:
                        e = r3.choice(kids)
                        e.addnext(deepcopy(e))
                inp.append((xml(L2), xml(R2), r3.choice([o0, o0, {}, {'fast_match': True}, {'best_match': True}])))
        b = [c for c in (differ_corr.build_case(*i) for i in inp) if c]
        return evaluate(b, focus)[0]

    def deeper():
        if corr["bad"]:
            try:
                near = [v for v in near_disagreements() if not v["replay"].get("finding_key")]
            except Exception as ex:  # noqa
                run.notes.append("search near the disagreeing inputs failed: %r" % ex)
                near = []
            if near:
                return near
        r2 = random.Random(run.seed + 11)
        class T: tier = "thorough"
        t = T(); t.tier = "thorough"
        inp, _ = default_inputs(t, r2, focus)
        b = [c for c in (differ_corr.build_case(*i) for i in inp[:6000]) if c]
        return evaluate(b, focus)[0]

    run.coverage.update({
        "evaluations": len(inputs),
        "distinct_nontrivial": len({json.dumps(c["desc"], sort_keys=True) for c in built if not isinstance(c["raw"], str) and c["raw"]}),
        "rule": "seeded document pairs (<= 8 nodes; tags, attributes, text, tails, comments, namespaces, prefix-declaration variants) under %s option sets, "
                "plus an exhaustive small scope of %d cases (all trees up to %d nodes over 2 tags); non-trivial = distinct case with a non-empty script"
                % (focus, exh, 3 if run.tier == "quick" else 4),
        "exhaustive_small_scope": exh,
        "input_distribution": stats,
        "samples": [c["desc"] for c in built[:3]],
    })
    run.assumptions = ["similarity oracle: CPython difflib ratios enter the model as a table computed by the implementation on this run",
                       "lxml tree/xpath/getpath semantics as modelled in Forest.v / Path.v"]
    lib.conclude(run, ok, pinfo, corrs, viols, deeper)


def replay(run, path, focus):
    d = json.load(open(path))
    if "left" not in d:
        print("replay names a broken tie, not an input:", d.get("broken")); return 1
    opts = {k: (v if k != "uniqueattrs" else [tuple(x) if isinstance(x, list) else x for x in v]) for k, v in d["opts"].items()}
    if d.get("entities"):
        v = [x for x in entity_stream(focus) if x["replay"]["left"] == d["left"]]
        for x in v:
            print("violation:", x["what"])
        if not v:
            print("property holds on this input")
        return 1 if v else 0
    if d.get("deep"):
        v = [x for x in deep_stream(focus) if x["replay"]["left"] == d["left"]]
        for x in v:
            print("violation:", x["what"])
        if not v:
            print("property holds on this input")
        return 1 if v else 0
    c = differ_corr.build_case(d["left"], d["right"], opts)
    if c is None:        # outside the differ model (processing instructions): the public entry point only
        from xmldiff import main
        try:
            print("script:", main.diff_trees(etree.fromstring(d["left"]), etree.fromstring(d["right"]), diff_options=opts))
            print("property holds on this input (as far as the entry point shows)")
            return 0
        except Exception as ex:  # noqa
            print("violation: diff raised %r" % ex)
            return 1
    v, _ = evaluate([c], focus)
    for x in v:
        print("violation:", x["what"])
    if not v:
        print("property holds on this input")
    return 1 if v else 0
