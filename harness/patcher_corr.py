"""Correspondence between patch.Patcher and XV.PatcherDSL over Gen.PatcherProg."""
import random
from copy import deepcopy
from lxml import etree
from harness import lib, gen, treeenc
from harness.lib import coq_str, coq_ostr, coq_list
from harness.treeenc import Enc, coq_forest, coq_nsmap, coq_label

PRE = """From Coq Require Import List NArith ZArith Bool. Import ListNotations.
Require Import XV.Str XV.Json XV.TextFormat XV.Forest XV.Path XV.PatcherDSL XV.Gen.TextTables XV.Gen.PatcherProg XV.DifferExec XV.Spec.
Inductive expect := EOk (t : tree) | EErr (e : perr).
Definition case := (forest * list (option str * str) * list gaction * expect)%type.
Fixpoint tree_eqb (a b : tree) : bool :=
  match a, b with Node la ka, Node lb kb => label_eqb la lb &&
    (fix go (x y : list tree) := match x, y with [], [] => true | t :: x', u :: y' => tree_eqb t u && go x' y' | _, _ => false end) ka kb end.
Definition perr_eqb (a b : perr) := match a, b with PIndexError, PIndexError | PXPathEvalError, PXPathEvalError
 | PAssertionError, PAssertionError | PKeyError, PKeyError | PAttributeError, PAttributeError | PTypeError, PTypeError
 | PValueError, PValueError => true | _, _ => false end.
Definition strip_root_tail (t : tree) := match t with Node l k => Node (Lab (ltag l) (lattrs l) (ltext l) None) k end.
Definition check (c : case) : bool :=
  let '(f, nsm, acts, e) := c in
  match patch actions_sig true 0 patcher_progs f nsm acts, e with
  | POk g, EOk t => tree_eqb (strip_root_tail (tree_of g 0)) (strip_root_tail t)
  | PErr x, EErr y => perr_eqb x y
  | _, _ => false
  end.
"""

ERRS = {"IndexError": "PIndexError", "XPathEvalError": "PXPathEvalError", "AssertionError": "PAssertionError",
        "KeyError": "PKeyError", "AttributeError": "PAttributeError", "TypeError": "PTypeError", "ValueError": "PValueError"}


def coq_tree(e):
    return "(Node %s %s)" % (coq_label(e), coq_list([coq_tree(c) for c in e]))


def coq_pyval(v):
    if v is None:
        return "PNone"
    if isinstance(v, int):
        return "(PInt (%d)%%Z)" % v
    return "(PStr %s)" % coq_str(v)


def coq_gaction(a):
    return "(GA %s %s)" % (coq_str(type(a).__name__), coq_list([coq_pyval(v) for v in a]))


def impl_patch(L, script):
    from xmldiff import main
    try:
        return "ok", main.patch_tree(script, L)
    except Exception as ex:  # noqa
        for cls in type(ex).__mro__:
            if cls.__name__ in ERRS:
                return "err", ERRS[cls.__name__]
        return "err", None


def mutate_script(rng, script):
    from xmldiff import actions as A
    s = list(script)
    if not s:
        return [A.DeleteNode("/nosuch[1]")]
    i = rng.randrange(len(s))
    a = s[i]
    k = rng.randrange(7)
    f = a._fields
    if k == 0 and "node" in f:
        s[i] = a._replace(node=a.node + "/zz[1]")
    elif k == 1 and "target" in f:
        s[i] = a._replace(target="/q:nope[1]" if rng.random() < .5 else "/zz:nope[1]")
    elif k == 2 and "position" in f:
        s[i] = a._replace(position=a.position + rng.choice([1, 5, 50]))
    elif k == 3 and "name" in f:
        s[i] = a._replace(name=a.name + "x")
    elif k == 4:
        del s[i]
    elif k == 5:
        s.insert(i, a)
    else:
        s = s[:i] + s[i + 1:] + [a]
    return s


def build_cases(rng, n):
    from xmldiff import main
    cases, descr = [], []
    stats = {"ok": 0, "err": 0}
    for _ in range(n):
        ns = rng.random() < .4
        L, R = gen.gen_pair(rng, 7, ns=ns, words=gen.WORDS[:8])
        try:
            script = main.diff_trees(L, R, diff_options=rng.choice(gen.OPTION_SETS[:5]))
        except Exception:  # noqa
            continue
        variants = [script]
        for _ in range(2):
            variants.append(mutate_script(rng, script))
        for sc in variants:
            if any(type(a).__name__ == "InsertNamespace" and a.prefix is None for a in sc):
                continue
            if any(getattr(a, "position", 0) < 0 for a in sc):
                continue
            kind, res = impl_patch(L, sc)
            if kind == "err" and res is None:
                continue
            enc = Enc(L)
            e = "(EOk %s)" % coq_tree(res) if kind == "ok" else "(EErr %s)" % res
            cases.append("(%s, %s, %s, %s)" % (coq_forest(enc), coq_nsmap(L.nsmap), coq_list([coq_gaction(a) for a in sc]), e))
            descr.append({"left": etree.tostring(L).decode(), "script": [repr(a) for a in sc], "impl": kind if kind == "ok" else res})
            stats[kind] += 1
    return cases, descr, stats


def run_corr(name, rng, n):
    cases, descr, stats = build_cases(rng, n)
    bad, log = lib.run_cases(name, PRE, cases, chunk=120)
    return {"name": "patch.Patcher vs XV.PatcherDSL over Gen.PatcherProg", "cases": len(cases), "bad": bad, "log": log,
            "describe": lambda i: descr[i], "stats": stats}
