"""Independent Python evaluators of the properties themselves, run on the
IMPLEMENTATION's outputs.  Used to find and replay failing inputs; never
presented as evidence of a for-all claim."""
import re
from lxml import etree


class N:
    __slots__ = ('tag', 'attrs', 'text', 'tail', 'kids', 'parent', 'created')

    def __init__(s, tag, attrs=None, text=None, tail=None):
        s.tag = tag; s.attrs = dict(attrs or {}); s.text = text; s.tail = tail
        s.kids = []; s.parent = None; s.created = False


def from_lxml(e):
    if e.tag is etree.Comment:
        n = N('#comment', {}, e.text, e.tail)
    else:
        n = N(e.tag, e.attrib, e.text, e.tail)
    for c in e:
        k = from_lxml(c); k.parent = n; n.kids.append(k)
    return n


def canon(n, top=True, ignored=()):
    return (n.tag, tuple(sorted((k, v) for k, v in n.attrs.items() if k not in ignored)), n.text or '',
            '' if top else (n.tail or ''), tuple(canon(k, False, ignored) for k in n.kids))


def ident(n):
    """structure with identities, for effectiveness (C17)"""
    return (id(n), n.tag, tuple(sorted(n.attrs.items())), n.text, n.tail, tuple(ident(k) for k in n.kids))


def size(n):
    return 1 + sum(size(k) for k in n.kids)


def nattrs(n):
    return len(n.attrs) + sum(nattrs(k) for k in n.kids)


STEP = re.compile(r'^(?:(?P<pfx>[^:\[\]/*()]+):)?(?P<name>[^:\[\]/()*]+|\*|comment\(\))(?:\[(?P<idx>\d+)\])?$')


class Viol(Exception):
    def __init__(self, prop, msg):
        Exception.__init__(self, prop, msg)
        self.prop, self.msg = prop, msg


def step_matches(n, pfx, name, ns):
    if name == 'comment()':
        return n.tag == '#comment'
    if n.tag == '#comment':
        return False
    if name == '*':
        return True
    if pfx is not None:
        if pfx not in ns:
            raise Viol('C04', 'prefix %r of a path is not bound on the left root nor by an earlier InsertNamespace' % pfx)
        return n.tag == '{%s}%s' % (ns[pfx], name)
    return n.tag == name


def evalpath(root, path, ns):
    """XPath semantics on the subset getpath emits; returns ALL matches."""
    if not path.startswith('/'):
        raise Viol('C04', 'relative path %r' % path)
    steps = path[1:].split('/')
    cands = None
    last_idx = False
    for i, s in enumerate(steps):
        m = STEP.match(s)
        if not m:
            raise Viol('C04', 'unparsable step %r in %r' % (s, path))
        groups = [[root]] if i == 0 else [c.kids for c in cands]
        hits = []
        for g in groups:
            h = [k for k in g if step_matches(k, m['pfx'], m['name'], ns)]
            if m['idx']:
                h = h[int(m['idx']) - 1:int(m['idx'])]
            hits += h
        cands = hits
        last_idx = bool(m['idx'])
    return cands, last_idx


def subtree(n):
    yield n
    for k in n.kids:
        yield from subtree(k)


def apply_script(root, acts, lns):
    """Strict interpreter of the documented action semantics.  Raises Viol(prop, msg)."""
    ns = dict((k, v) for k, v in lns.items() if k is not None)

    def one(path):
        hits, idx = evalpath(root, path, ns)
        if len(hits) != 1:
            raise Viol('C04', 'path %s selects %d nodes' % (path, len(hits)))
        if not idx:
            raise Viol('C04', 'last step of %s carries no positional index' % path)
        return hits[0]
    for i, a in enumerate(acts):
        t = type(a).__name__
        before = ident(root)
        if t == 'InsertNamespace':
            if a.prefix is not None:
                ns[a.prefix] = a.uri
            continue
        if t == 'DeleteNamespace':
            continue
        if t in ('InsertNode', 'InsertComment'):
            tg = one(a.target)
            if tg.tag == '#comment':
                raise Viol('C05', 'insert into a comment')
            if not (0 <= a.position <= len(tg.kids)):
                raise Viol('C05', 'action %d: insert position %d outside 0..%d' % (i, a.position, len(tg.kids)))
            n = N(a.tag) if t == 'InsertNode' else N('#comment', text=a.text)
            n.created = True; n.parent = tg; tg.kids.insert(a.position, n)
        elif t == 'MoveNode':
            n = one(a.node); tg = one(a.target)
            if n is root:
                raise Viol('C05', 'move of the root')
            if tg in list(subtree(n)):
                raise Viol('C05', 'action %d: node moved into itself or its own subtree' % i)
            cnt = len([k for k in tg.kids if k is not n])
            if not (0 <= a.position <= cnt):
                raise Viol('C05', 'action %d: move position %d outside 0..%d' % (i, a.position, cnt))
            n.parent.kids.remove(n); tg.kids.insert(a.position, n); n.parent = tg
        elif t == 'DeleteNode':
            n = one(a.node)
            if n.kids:
                raise Viol('C05', 'action %d: DeleteNode of a node that still has children' % i)
            if n.created:
                raise Viol('C17', 'action %d: node created by the script is deleted by it' % i)
            if n.parent is None:
                raise Viol('C05', 'delete of the root')
            n.parent.kids.remove(n)
        elif t == 'RenameNode':
            one(a.node).tag = a.tag
        elif t == 'UpdateTextIn':
            one(a.node).text = a.text
        elif t == 'UpdateTextAfter':
            one(a.node).tail = a.text
        elif t == 'UpdateAttrib':
            n = one(a.node)
            if a.name not in n.attrs:
                raise Viol('C05', 'action %d: UpdateAttrib of a missing attribute' % i)
            n.attrs[a.name] = a.value
        elif t == 'InsertAttrib':
            n = one(a.node)
            if a.name in n.attrs:
                raise Viol('C05', 'action %d: InsertAttrib of an existing attribute' % i)
            n.attrs[a.name] = a.value
        elif t == 'DeleteAttrib':
            n = one(a.node)
            if a.name not in n.attrs:
                raise Viol('C05', 'action %d: DeleteAttrib of a missing attribute' % i)
            del n.attrs[a.name]
        elif t == 'RenameAttrib':
            n = one(a.node)
            if a.oldname not in n.attrs or a.newname in n.attrs:
                raise Viol('C05', 'action %d: RenameAttrib old missing or new present' % i)
            n.attrs[a.newname] = n.attrs.pop(a.oldname)
        else:
            raise Viol('C05', 'unknown action ' + t)
        if ident(root) == before:
            raise Viol('C17', 'action %d (%s) does not change the document' % (i, t))
    return root


def check_script(L, R, script, ignored=()):
    """All of C01 (via the strict interpreter), C04, C05, C17 for one script.
    Returns list of (prop, message)."""
    out = []
    T = from_lxml(L)
    RT = from_lxml(R)
    try:
        apply_script(T, script, L.nsmap)
        if canon(T, ignored=ignored) != canon(RT, ignored=ignored):
            out.append(('C01', 'the script, applied as documented, does not produce the right document'))
    except Viol as v:
        out.append((v.prop, v.msg))
    import collections
    cnt = collections.Counter(type(a).__name__ for a in script)
    nl, nr = size(from_lxml(L)), size(RT)
    na = nattrs(from_lxml(L)) + nattrs(RT)
    bounds = [(cnt['InsertNode'] + cnt['InsertComment'], nr, 'inserts'), (cnt['DeleteNode'], nl, 'deletes'),
              (cnt['MoveNode'], 2 * nr, 'moves'), (cnt['RenameNode'], nr, 'renames'), (cnt['UpdateTextIn'], nr, 'text updates'),
              (cnt['UpdateTextAfter'], nr, 'tail updates'),
              (cnt['UpdateAttrib'] + cnt['InsertAttrib'] + cnt['DeleteAttrib'] + cnt['RenameAttrib'], na, 'attribute actions')]
    for have, lim, what in bounds:
        if have > lim:
            out.append(('C17', '%d %s exceed the bound %d' % (have, what, lim)))
    for a in script:
        for f in ('name', 'oldname', 'newname'):
            if type(a).__name__.endswith('Attrib') and getattr(a, f, None) in ignored:
                out.append(('C13', 'action %r names an ignored attribute' % (a,)))
    return out


def check_patch(L, R, script, ignored=()):
    """C01 through the shipped patcher."""
    from xmldiff import main
    from harness import gen
    try:
        P = main.patch_tree(script, L)
    except Exception as ex:  # noqa
        return [('C01', 'patch_tree raised %r' % (ex,))]
    if canon(from_lxml(P), ignored=ignored) != canon(from_lxml(R), ignored=ignored):
        return [('C01', 'patch_tree(diff_trees(L, R), L) differs from R')]
    return []


def check_matches(L, R, d, matches, opts):
    """C07 on Differ.match() output (triples of lxml elements)."""
    out = []
    ls = [id(a) for a, b, c in matches]
    rs = [id(b) for a, b, c in matches]
    if len(set(ls)) != len(ls):
        out.append(('C07', 'a left node is matched twice'))
    if len(set(rs)) != len(rs):
        out.append(('C07', 'a right node is matched twice'))
    lall = {id(e) for e in d.left.iter()}
    rall = {id(e) for e in R.iter()}
    if not any(a is d.left and b is R for a, b, c in matches):
        out.append(('C07', 'the roots are not paired'))
    uniq = opts.get('uniqueattrs')
    if uniq is None:
        uniq = ['{http://www.w3.org/XML/1998/namespace}id']
    ign = opts.get('ignored_attrs', [])
    for a, b, c in matches:
        if id(a) not in lall or id(b) not in rall:
            out.append(('C07', 'a matched node does not belong to the documents'))
        if (a.tag is etree.Comment) != (b.tag is etree.Comment):
            out.append(('C07', 'a comment is matched with an element'))
        if a is d.left:
            continue
        if a.tag is etree.Comment or b.tag is etree.Comment:
            continue
        for u in uniq:
            if isinstance(u, str):
                attr = u
            else:
                if u[0] != a.tag or u[0] != b.tag:
                    continue
                attr = u[1]
            if attr in ign:
                continue
            if attr in a.attrib or attr in b.attrib:
                if a.attrib.get(attr) != b.attrib.get(attr):
                    out.append(('C07', 'nodes with different values of unique attribute %s are matched' % attr))
    return out
