"""Input generators.  Every random choice comes from the `rng` passed in."""
from copy import deepcopy
from lxml import etree

# characters that matter to the text format / JSON / csv / splitlines / strip
CRIT = ['a', 'b', ',', '"', '\\', '[', ']', ' ', '\n', '\r', '\t', '\x0b', '\x0c', '\x1c', '\x1f', '\x7f',
        '\x85', '\xa0', ' ', ' ', '€', '\U0001F600', '{', '}', ':', '/', "'", 'u', 'n', '0', '-', '_', '\x08']
# what an XML 1.0 document can contain
XMLCRIT = [c for c in CRIT if c in '\n\r\t' or (ord(c) >= 0x20 and c not in '\x7f\x85')] + ['\x7f', '\x85']


def rand_str(rng, alphabet=CRIT, maxlen=8):
    n = rng.choice([0, 1, 1, 2, 3, 4, maxlen])
    return ''.join(rng.choice(alphabet) for _ in range(n))


PATHS = ['/a[1]', '/a/b[2]', '/p:a/p:b[1]', '/*/*[3]', '/a/comment()[1]', '/a/b/c[10]', 'node', '/a[1]/b[1]',
         '/doc/para[@id="intro, part 1"]', '/a/b[@k="x,y"][2]']     # hand-written paths: a quoted literal with a comma
NAMES = ['a', 'b', 'k', '{urn:p}a', '{http://x.y/z}name', 'xml:id', 'p:q', 'tag', 'name-1', 'é',
         'null', 'true', 'false', 'NaN', 'Infinity', 'e1', 'x0', '_1', 'insert', 'delete',   # names that LOOK like JSON / numbers / keywords
         # namespace names with commas (every name of the tag: scheme), quotes and blanks inside the braces of a Clark name
         '{tag:example.org,2005:x}item', '{tag:a,b,c}k', '{urn:"quoted", odd}b', '{u, v}w']


def rand_action(rng, wf=True):
    from xmldiff import actions as A
    def path(): return rng.choice(PATHS)
    def name(): return rng.choice(NAMES)
    def val(): return rng.choice([None, '', 'x']) if rng.random() < .3 else rand_str(rng, XMLCRIT if wf else CRIT)
    def pos(): return rng.choice([0, 1, 2, 7, 10, 123, 99999999999999999999])
    k = rng.randrange(13)
    acts = [
        lambda: A.DeleteNode(path()), lambda: A.InsertNode(path(), name(), pos()),
        lambda: A.RenameNode(path(), name()), lambda: A.MoveNode(path(), path(), pos()),
        lambda: A.UpdateTextIn(path(), val()), lambda: A.UpdateTextAfter(path(), val()),
        lambda: A.UpdateAttrib(path(), name(), val()), lambda: A.DeleteAttrib(path(), name()),
        lambda: A.InsertAttrib(path(), name(), val()), lambda: A.RenameAttrib(path(), name(), name()),
        lambda: A.InsertComment(path(), pos(), val()), lambda: A.InsertNamespace(rng.choice(['p', 'q', 'ns1']), rng.choice(['urn:p', 'http://x.y/z', 'tag:example.org,2005:x', 'urn:a,,b', 'urn:a,', ',', 'u,v,w,x'])),
        lambda: A.DeleteNamespace(rng.choice(['p', 'q'])),
    ]
    a = acts[k]()
    if not wf and rng.random() < .5:
        # ill-typed / odd field: None or int where a str is expected, str where an int is, raw field with separators
        i = rng.randrange(len(a))
        bad = rng.choice([None, 5, -3, 'x,y', ' lead', 'trail ', 'q"uote', 'a]', '', 'line\nbreak', '7'])
        a = a._replace(**{a._fields[i]: bad})
    return a


# ---------------------------------------------------------------------------
# documents

NS = {'p': 'urn:p', 'q': 'urn:q'}
WORDS = ['', 'x', 'y', 'x y', 'hello world', 'z', 'a,b', ' ', 'q"r', 'é€', 'line\nbreak', '\U0001F600']


def gen_tree(rng, n, ns=True, comments=True, texts=True, tags=None, attrs=None, words=None, attr_counts=(0, 0, 1, 2), values=('1', '2', '3')):
    tags = list(tags or ['a', 'b', 'c']) + (['{urn:p}a', '{urn:q}b'] if ns else [])
    attrs = attrs or (['i', 'j', 'k', '{urn:p}i'] if ns else ['i', 'j', 'k'])
    words = words or WORDS[:6]

    def mk(parent):
        if comments and parent is not None and rng.random() < 0.15:
            e = etree.Comment(rng.choice(['c1', 'c2', '']))
            parent.append(e)
        else:
            t = rng.choice(tags)
            if parent is None:
                e = etree.Element(t, nsmap=NS if ns else None)
            else:
                e = etree.SubElement(parent, t)
            for k in rng.sample(attrs, min(len(attrs), rng.choice(attr_counts))):
                e.set(k, rng.choice(values))
            if texts and rng.random() < 0.4:
                e.text = rng.choice(words) or None
        if texts and parent is not None and rng.random() < 0.3:
            e.tail = rng.choice(words) or None
        return e

    root = mk(None)
    nodes = [root]
    for _ in range(n - 1):
        p = rng.choice([x for x in nodes if x.tag is not etree.Comment])
        nodes.append(mk(p))
    return root


def mutate_tree(rng, root, nops=None, tags=('a', 'b', 'c'), attrs=('i', 'j', 'k'), values=('1', '2')):
    r = deepcopy(root)
    for _ in range(nops or rng.randint(1, 4)):
        nodes = list(r.iter())
        n = rng.choice(nodes)
        op = rng.randint(0, 8)
        elems = [x for x in nodes if x.tag is not etree.Comment]
        if op == 0 and n is not r:
            n.getparent().remove(n)
        elif op == 1 and n.tag is not etree.Comment:
            n.insert(rng.randint(0, len(n)), etree.Element(rng.choice(tags)))
        elif op == 2 and n is not r:
            tgt = rng.choice(elems)
            if tgt is not n and tgt not in list(n.iter()):
                n.getparent().remove(n)
                tgt.insert(rng.randint(0, len(tgt)), n)
        elif op == 3:
            n.text = rng.choice(['q', 'x y z', None])
        elif op == 4 and n.tag is not etree.Comment:
            n.set(rng.choice(attrs), rng.choice(values))
        elif op == 5 and n.tag is not etree.Comment and n.tag in tags:
            n.tag = rng.choice(tags)
        elif op == 6 and n is not r:
            n.tail = rng.choice(['t', None])
        elif op == 8 and n.tag is not etree.Comment and n.tag in tags:
            # rename AND change an attribute of the same node (its path changes between the two actions)
            n.tag = rng.choice([t for t in tags if t != n.tag])
            n.set(rng.choice(attrs), rng.choice(values))
        elif op == 7 and n.tag is not etree.Comment and len(n.attrib):
            k = rng.choice(sorted(n.attrib))
            if rng.random() < .5:
                del n.attrib[k]
            else:  # rename: same value under a new name
                v = n.attrib.pop(k)
                n.set(rng.choice([a for a in attrs if a != k]), v)
    return r


def gen_pair(rng, maxn=8, **kw):
    L = gen_tree(rng, rng.randint(1, maxn), **kw)
    if rng.random() < 0.6:
        R = mutate_tree(rng, L, attrs=tuple(kw['attrs']) if kw.get('attrs') else ('i', 'j', 'k'), values=tuple(kw.get('values') or ('1', '2')))
    else:
        R = gen_tree(rng, rng.randint(1, maxn), **kw)
    return L, R


XMLID_ = '{http://www.w3.org/XML/1998/namespace}id'


def gen_idperm_pair(rng):
    """Every element carries xml:id, so the matching is forced; the right document is a REARRANGEMENT: children
    shuffled inside their parents and some moved to another parent (in front of, between or behind its children).
    Exercises find_pos / align_children where in-order siblings, matched-but-not-yet-moved siblings and foreign
    children mix."""
    L = etree.Element('r')
    n = 0
    for pi in range(rng.randint(2, 3)):
        par = etree.SubElement(L, rng.choice(['l', 'q']))
        par.set(XMLID_, 'p%d' % pi)
        for _ in range(rng.choice([1, 2, 3, 4, 5, 5, 6, 7])):      # five and more: a child can keep its index while the others permute across it
            c = etree.SubElement(par, rng.choice(['c', 'x', 's']))
            c.set(XMLID_, 'n%d' % n)
            n += 1
    R = deepcopy(L)
    pars = list(R)
    for par in pars:
        kids = list(par)
        if len(kids) > 1 and rng.random() < .7:
            rng.shuffle(kids)
            for k in kids:
                par.remove(k)
            for k in kids:
                par.append(k)
    for _ in range(rng.randint(0, 2)):
        src = rng.choice(pars)
        if len(src):
            k = rng.choice(list(src))
            dst = rng.choice(pars)
            src.remove(k)
            dst.insert(rng.randint(0, len(dst)), k)
    if rng.random() < .3:
        etree.SubElement(rng.choice(pars), 'u').text = 'new'
    return L, R


def gen_neardup_pair(rng):
    """Paragraphs with NEAR-duplicates: the right document holds, next to the exact counterpart of a left paragraph, a
    slightly edited copy placed before or after it; comments and elements with an xml:id unknown to the other side
    stand between them (nodes without any candidate)."""
    texts = ['Alpha beta gamma delta', 'One two three', 'Four five', 'Unrelated words here']
    L = etree.Element('doc')
    for j in range(rng.randint(2, 4)):
        k = rng.random()
        if k < .55:
            etree.SubElement(L, 'p').text = rng.choice(texts)
        elif k < .75:
            L.append(etree.Comment(rng.choice(['remark', 'c'])))
        else:
            e = etree.SubElement(L, 'p')
            e.set(XMLID_, 'k%d' % j)
            e.text = rng.choice(texts)
    etree.SubElement(L, 'x').text = 'tail'
    R = deepcopy(L)
    ps = [e for e in R if e.tag == 'p']
    for _ in range(rng.randint(1, 2)):
        if not ps:
            break
        e = rng.choice(ps)
        d = deepcopy(e)
        d.attrib.pop(XMLID_, None)
        d.text = (d.text or '') + rng.choice(['!', '?', ' x'])
        (e.addprevious if rng.random() < .6 else e.addnext)(d)
    for c in [e for e in R if e.tag is etree.Comment]:
        if rng.random() < .6:
            R.remove(c)
    for e in [e for e in R if isinstance(e.tag, str) and XMLID_ in e.attrib]:
        if rng.random() < .4:
            del e.attrib[XMLID_]
    return L, R


def gen_dup_pair(rng):
    """Documents full of DUPLICATE content (identical leaves / subtrees in several places), the right one derived by
    dropping or unwrapping wrappers, moving or copying subtrees: matching is by similarity, so equal content is matched
    cross-wise and identical-looking subtrees are not necessarily partners."""
    leaves = [('item', 'Alpha'), ('item', 'Beta'), ('note', 'Alpha'), ('item', None)]
    wrappers = ['sec', 'draft', 'box']

    def leaf():
        t, x = rng.choice(leaves[:rng.choice((2, 3, 4))])
        e = etree.Element(t)
        e.text = x
        return e

    def sub(depth):
        e = etree.Element(rng.choice(wrappers))
        for _ in range(rng.randint(1, 3)):
            e.append(sub(depth - 1) if depth > 0 and rng.random() < .3 else leaf())
        return e
    L = etree.Element('doc')
    for _ in range(rng.randint(2, 4)):
        L.append(sub(1) if rng.random() < .75 else leaf())
    R = deepcopy(L)
    for _ in range(rng.randint(1, 3)):
        ws = [e for e in R.iter() if e is not R and len(e)]
        if not ws:
            break
        w = rng.choice(ws)
        op = rng.random()
        par = w.getparent()
        if op < .35:                     # drop the wrapper with its content
            par.remove(w)
        elif op < .6:                    # unwrap: the children take the wrapper's place
            i = par.index(w)
            for k, c in enumerate(list(w)):
                par.insert(i + k, c)
            par.remove(w)
        elif op < .8:                    # move the wrapper to the end / front of another parent
            tg = rng.choice([e for e in R.iter() if e.tag in wrappers + ['doc'] and e is not w and e not in list(w.iter())] or [R])
            par.remove(w)
            tg.insert(rng.choice((0, len(tg))), w)
        else:                            # duplicate it
            par.insert(par.index(w), deepcopy(w))
    if rng.random() < .5:
        L, R = R, L
    return L, R


def all_shapes(n):
    """All ordered rooted tree shapes with n nodes, as nested tuples."""
    if n == 1:
        return [()]
    out = []
    # forests with n-1 nodes

    def forests(k):
        if k == 0:
            return [()]
        res = []
        for first in range(1, k + 1):
            for t in all_shapes(first):
                for rest in forests(k - first):
                    res.append((t,) + rest)
        return res
    return forests(n - 1)


def all_trees(maxn, tags=('a', 'b')):
    """All element trees with <= maxn nodes over the given tags (as XML strings)."""
    import itertools
    out = []
    for n in range(1, maxn + 1):
        for sh in all_shapes(n):
            for lab in itertools.product(tags, repeat=n):
                it = iter(lab)

                def build(s):
                    e = etree.Element(next(it))
                    for c in s:
                        e.append(build(c))
                    return e
                out.append(etree.tostring(build(sh)).decode())
    return out


def canon(e, top=True):
    """Canonical form of an lxml tree: Clark names, sorted attributes, None == ''."""
    if e.tag is etree.Comment:
        return ('#comment', (), e.text or '', '' if top else (e.tail or ''), ())
    return (e.tag, tuple(sorted(e.attrib.items())), e.text or '', '' if top else (e.tail or ''),
            tuple(canon(c, False) for c in e))


OPTION_SETS = [
    {}, {'fast_match': True}, {'best_match': True}, {'F': 0.9}, {'F': 0.1, 'fast_match': True},
    {'ratio_mode': 'accurate'}, {'ratio_mode': 'faster', 'best_match': True},
    {'uniqueattrs': ['i']}, {'uniqueattrs': [('a', 'i')], 'fast_match': True},
    # both strategies requested through the API (the command line keeps them exclusive): fast_match takes precedence
    {'fast_match': True, 'best_match': True},
]
