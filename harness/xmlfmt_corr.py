"""Shared machinery of C08 / C09 / C10: xmldiff.formatting.XMLFormatter vs XV.XmlFmt.

* run_impl: runs main.diff_trees' pipeline step by step (prepare -> Differ.diff -> format) on the
  implementation under a deterministic DMP clock and records the prepared trees, the script, the
  output TREE (handed over by a render() override) or the exception class.
* coq_case / PRE: the same inputs for the Gallina model; compared exactly (attribute order as stored,
  None vs '' text), prepared trees included.
* oracle_C08 / oracle_C09 / oracle_C10: the properties themselves, evaluated in Python on what the
  implementation returned (independent of the model; used to find and replay failing inputs).
"""
import itertools, json, os, random, re
from copy import deepcopy
from lxml import etree
from harness import lib, gen
from harness.lib import coq_str, coq_ostr, coq_list
from harness.patcher_corr import coq_tree, coq_gaction, mutate_script
from harness.treeenc import coq_nsmap, supported
from harness.props import C11 as PH

DIFF_NS = "http://namespaces.shoobx.com/diff"
D = "{%s}" % DIFF_NS
PUA_LO, PUA_HI = 0xE000, 0xF8FF
WS_NONE, WS_TAGS, WS_TEXT, WS_BOTH = 0, 1, 2, 3

ERRS = {"ValueError": "FValueError", "IndexError": "FIndexError", "AssertionError": "FAssertionError",
        "KeyError": "FKeyError", "AttributeError": "FAttributeError", "XPathEvalError": "FXPathEvalError",
        "TypeError": "FTypeError", "UnboundLocalError": "FUnboundLocalError", "RecursionError": "FFuel"}


# ----------------------------------------------------------------------------
# the implementation under a deterministic clock

class Clock:
    """Stands in for the `time` module inside xmldiff.diff_match_patch.
    late=False: constant time (no deadline is ever passed); late=True: every reading is 10 s after
    the previous one (the deadline, first reading + 1 s, is passed at every test)."""

    def __init__(self, late):
        self.late, self.t = late, 0.0

    def time(self):
        if self.late:
            self.t += 10.0
        return self.t


def make_formatter(cfg):
    from xmldiff import formatting as F

    class Capturing(F.XMLFormatter):
        def render(self, result):
            self.captured = result
            return F.XMLFormatter.render(self, result)
    fm = Capturing(normalize=cfg["normalize"], pretty_print=False, text_tags=tuple(cfg["tt"]),
                   formatting_tags=tuple(cfg["fmt"]), use_replace=cfg["replace"])
    if cfg.get("ctr"):
        # a maker that has handed out many placeholders already (a formatter in long use / a very large document): the
        # next ones lie at the end of, and beyond, the private-use area U+E000..U+F8FF
        fm.placeholderer.placeholder = cfg["ctr"]
    return fm


def xcanon(e):
    """exact form of an element tree: [tag, [[k, v]...] as stored, text|None, tail or '', [kids]]"""
    if not isinstance(e.tag, str):      # a comment / PI in the formatter's result (never on the unchanged tree): a node of its own
        return ["#comment" if e.tag is etree.Comment else "#pi", [], e.text, e.tail or "", []]
    return [e.tag, [[k, v] for k, v in e.attrib.items()], e.text, e.tail or "", [xcanon(c) for c in e]]


def excname(ex):
    for cls in type(ex).__mro__:
        if cls.__name__ in ERRS:
            return cls.__name__
    return "other:" + type(ex).__name__


def parse(s, cfg):
    parser = etree.XMLParser(remove_blank_text=bool(cfg["normalize"] & WS_TAGS))
    return etree.fromstring(s, parser)


XMLID = "{http://www.w3.org/XML/1998/namespace}id"


def dup_xmlid(t):
    """in the output tree an element carrying xml:id is kept as diff:delete (itself or an ancestor is marked diff:delete: a
    deleted node, or the original of a move) while the same id value is on another element of the result"""
    if t is None:
        return False
    root = t.getroot() if hasattr(t, "getroot") else t
    ids = {}
    for e in root.iter():
        if isinstance(e.tag, str) and XMLID in e.attrib:
            dead = any((D + "delete") in a.attrib for a in [e] + list(e.iterancestors()))
            ids.setdefault(e.get(XMLID), []).append(dead)
    return any(len(v) > 1 and any(v) for v in ids.values())


def diffns_in_input(c):
    """some element or attribute of the INPUT documents is in the diff namespace"""
    for s in (c["left"], c["right"]):
        try:
            for e in etree.fromstring(s).iter():
                if isinstance(e.tag, str) and (e.tag.startswith(D) or any(k.startswith(D) for k in e.attrib)):
                    return True
        except Exception:  # noqa
            pass
    return False


def run_impl(c):
    """c: dict(left, right, cfg, opts, late, [mutate seed]).  Fills in what the implementation did."""
    import xmldiff.diff_match_patch as M
    import time as _time
    from xmldiff import diff as xd
    cfg = c["cfg"]
    L, R = parse(c["left"], cfg), parse(c["right"], cfg)
    c["supported"] = supported(L) and supported(R)
    if not c["supported"]:
        return c
    c["rawL"], c["rawR"] = coq_tree(L), coq_tree(R)
    c["rootns"] = dict(L.nsmap)
    fm = make_formatter(cfg)
    M.time = Clock(c.get("late", False))
    try:
        fm.prepare(L, R)
        c["prepL"], c["prepR"] = xcanon(L), xcanon(R)
        try:
            opts = dict(c["opts"])
            if "uniqueattrs" in opts:
                opts["uniqueattrs"] = [tuple(u) if isinstance(u, list) else u for u in opts["uniqueattrs"]]
            script = list(xd.Differ(**opts).diff(L, R))
        except Exception as ex:  # noqa  (the differ's business: C01/C06)
            c["differ_exc"] = type(ex).__name__
            return c
        if c.get("mutate") is not None:
            script = mutate_script(random.Random(c["mutate"]), script)
        c["script"] = script
        try:
            out = fm.format(script, L)
            c["out_str"] = out
            c["ph_left"] = sorted(ch for ch in fm.placeholderer.placeholder2tag if ch in out)
            c["out"] = xcanon(fm.captured)
            c["dup_xmlid"] = dup_xmlid(fm.captured)
        except Exception as ex:  # noqa
            c["exc"] = excname(ex)
            c["exc_msg"] = str(ex)[:200]
    finally:
        M.time = _time
    return c


# ----------------------------------------------------------------------------
# reference documents: comments removed, their tails kept

def strip_comments_keep(e, keep=True):
    """plain-data copy [tag, attrs(dict), text, tail, kids] of e without comments; keep=True: the text after a
    comment joins what precedes it (the mathematically correct removal); keep=False: it is lost (what
    XMLFormatter.prepare does)"""
    text = e.text or ""
    kids = []
    for ch in e:
        if ch.tag is etree.Comment:
            if not keep:
                continue
            if kids:
                kids[-1][3] += ch.tail or ""
            else:
                text += ch.tail or ""
        else:
            k = strip_comments_keep(ch, keep)
            k[3] = ch.tail or ""
            kids.append(k)
    return [e.tag, dict(e.attrib), text, "", kids]


def has_comment_tail(*docs):
    for s in docs:
        for n in etree.fromstring(s).iter():
            if n.tag is etree.Comment and n.getparent() is not None and n.tail:
                return True
    return False


# ----------------------------------------------------------------------------
# the projections (written from the property text)

WRAPPERS = {D + "insert", D + "delete", D + "replace"}
WILD = "\x00any"


def clark_split(s, sep):
    """split 'name<sep>rest' where name may be a Clark name containing the separator inside {}"""
    if s.startswith("{"):
        j = s.index("}")
        k = s.index(sep, j)
    else:
        k = s.index(sep)
    return s[:k], s[k + 1:]


def names_list(s):
    out, cur, depth = [], "", 0
    for ch in s:
        if ch == "{":
            depth += 1
        elif ch == "}":
            depth -= 1
        if ch == ";" and depth == 0:
            out.append(cur); cur = ""
        else:
            cur += ch
    out.append(cur)
    return out


def real_attrs(e, mode):
    """attributes of an output element after accepting / rejecting the attribute annotations"""
    a = {k: v for k, v in e.attrib.items() if not k.startswith(D)}
    if D + "replace" in e.attrib or D + "replace-formatting" in e.attrib:
        a.pop("old-text", None)
    if mode == "accept":
        return a
    # reject: undo in reverse order of the differ (update, rename, insert, delete)
    if D + "delete-attr" in e.attrib:
        for k in names_list(e.attrib[D + "delete-attr"]):
            a[k] = WILD
    if D + "add-attr" in e.attrib:
        for k in names_list(e.attrib[D + "add-attr"]):
            a.pop(k, None)
    if D + "rename-attr" in e.attrib:
        for item in reversed(names_list(e.attrib[D + "rename-attr"])):
            old, new = clark_split(item, ":")
            if new in a:
                a[old] = a.pop(new)
    if D + "update-attr" in e.attrib:
        for item in reversed(upd_items(e.attrib[D + "update-attr"], a)):
            k, v = item
            a[k] = v
    return a


def upd_items(s, attrs):
    """'name:old;name2:old2' -- values may contain ';' and ':'; split at ';' only where a known
    attribute name follows"""
    items, cur = [], None
    for part in names_list(s):
        try:
            k, v = clark_split(part, ":")
        except ValueError:
            k = None
        if k is not None and k in attrs:
            cur = [k, v]
            items.append(cur)
        elif cur is not None:
            cur[1] += ";" + part
    return items


def dropped(e, mode):
    return (D + "delete" in e.attrib) if mode == "accept" else (D + "insert" in e.attrib)


def wrapper_items(w, mode, cfg):
    """what a diff:insert / diff:delete / diff:replace wrapper contributes"""
    kind = w.tag[len(D):]
    if kind == "replace":
        return stream(w, mode, cfg, True) if mode == "accept" else list(w.attrib.get("old-text", ""))
    keep = (kind == "insert") == (mode == "accept")
    return stream(w, mode, cfg, True) if keep else []


def stream(e, mode, cfg, alone):
    """The content of e after accepting / rejecting the marks, as a list of characters and ('el', child)
    entries for the elements that stay.  alone=False: an element that goes takes the text region after it
    along (its tail and the diff: wrappers up to the next element) -- structural DeleteNode/MoveNode/InsertNode
    semantics; alone=True: e's content on the side the dropped elements come from was a flattened text run,
    in which an element is a character of the run and the text after it is not part of it."""
    items, dropping = list(e.text or ""), False
    unwrap = D + ("delete" if mode == "accept" else "insert") + "-formatting"
    for ch in e:
        if ch.tag in WRAPPERS:
            if not dropping:
                items += wrapper_items(ch, mode, cfg) + list(ch.tail or "")
            continue
        if dropped(ch, mode):
            dropping = not alone
            if alone:
                items += list(ch.tail or "")
            continue
        dropping = False
        if unwrap in ch.attrib:
            items += stream(ch, mode, cfg, True)
        elif mode == "reject" and (D + "replace" in ch.attrib or D + "replace-formatting" in ch.attrib):
            items += list(ch.attrib.get("old-text", ""))
        else:
            items.append(("el", ch))
        items += list(ch.tail or "")
    return items


def flatten(items, mode, cfg):
    out = []
    for it in items:
        if isinstance(it, str):
            out.append(it)
        elif it[1].tag in cfg["fmt"]:
            out += flatten(stream(it[1], mode, cfg, True), mode, cfg)
        else:
            out.append(("atom", project(it[1], mode, cfg)))
    return out


def norm_items(items):
    """cleanup_whitespace + strip on a flat item list (atoms are non-space characters)"""
    out, ws = [], False
    for it in items:
        if isinstance(it, str) and it.isspace():
            if not ws:
                out.append(" ")
            ws = True
        else:
            out.append(it); ws = False
    while out and out[0] == " ":
        out.pop(0)
    while out and out[-1] == " ":
        out.pop()
    return out


def pack(items):
    out = []
    for it in items:
        if isinstance(it, str) and out and isinstance(out[-1], str):
            out[-1] += it
        else:
            out.append(it)
    return tuple(out)


def ntext(s, cfg):
    if cfg["normalize"] & WS_TEXT:
        return re.sub(r"\s+", " ", s).strip()
    return s


def project(e, mode, cfg):
    """normal form of the accepted / rejected output below e:
       (tag, sorted attrs, ('flat', items)) for a text tag, (tag, attrs, ('kids', text, ((kid, tail)...))) otherwise.
    The side an element's dropped children come from is the LEFT document for accept (old tag) and the RIGHT
    document for reject (new tag)."""
    new_tag = e.tag
    old_tag = e.attrib.get(D + "rename", e.tag)
    tag, source = (new_tag, old_tag) if mode == "accept" else (old_tag, new_tag)
    attrs = tuple(sorted(real_attrs(e, mode).items()))
    items = stream(e, mode, cfg, source in cfg["tt"])
    if tag in cfg["tt"]:
        items = flatten(items, mode, cfg)
        if cfg["normalize"] & WS_TEXT:
            items = norm_items(items)
        return (tag, attrs, ("flat", pack(items)))
    text, kids = "", []
    for it in items:
        if isinstance(it, str):
            if kids:
                kids[-1][1] += it
            else:
                text += it
        else:
            kids.append([project(it[1], mode, cfg), ""])
    return (tag, attrs, ("kids", ntext(text, cfg), tuple((k, ntext(t, cfg)) for k, t in kids)))


def project_ref(t, cfg):
    """the same normal form for a reference document (plain data, no diff markup)"""
    tag, attrs, text, _, kids = t
    a = tuple(sorted(attrs.items()))
    if tag in cfg["tt"]:
        items = ref_flat(t, cfg)
        if cfg["normalize"] & WS_TEXT:
            items = norm_items(items)
        return (tag, a, ("flat", pack(items)))
    return (tag, a, ("kids", ntext(text, cfg), tuple((project_ref(k, cfg), ntext(k[3], cfg)) for k in kids)))


def ref_flat(t, cfg):
    items = list(t[2])
    for k in t[4]:
        if k[0] in cfg["fmt"]:
            items += ref_flat(k, cfg)
        else:
            items.append(("atom", project_ref(k, cfg)))
        items += list(k[3])
    return items


def nf_eq(a, b):
    """equality of normal forms; the value WILD (a deleted attribute restored by reject) matches anything"""
    if isinstance(a, tuple) and isinstance(b, tuple):
        if len(a) == 3 and len(b) == 3 and isinstance(a[1], tuple) and isinstance(b[1], tuple) and isinstance(a[0], str) \
                and isinstance(a[2], tuple) and a[2] and a[2][0] in ("flat", "kids"):
            if a[0] != b[0] or len(a[1]) != len(b[1]):
                return False
            for (k1, v1), (k2, v2) in zip(a[1], b[1]):
                if k1 != k2 or (v1 != v2 and WILD not in (v1, v2)):
                    return False
            return nf_eq(a[2], b[2])
        return len(a) == len(b) and all(nf_eq(x, y) for x, y in zip(a, b))
    return a == b


# ----------------------------------------------------------------------------
# oracles

DOCUMENTED_ELEMS = {"insert", "delete", "replace", "rename"}
DOCUMENTED_ATTRS = {"insert", "delete", "replace", "rename", "add-attr", "delete-attr", "rename-attr", "update-attr",
                    "insert-formatting", "delete-formatting", "replace-formatting"}


def pua(s):
    return any(PUA_LO <= ord(ch) <= PUA_HI for ch in (s or ""))


RESERVED_PREFIX = re.compile(r"ns\d+$")


def reserved_prefix(c):
    """some root binds a prefix of the form ns<k> (lxml generates such prefixes itself)"""
    for s in (c["left"], c["right"]):
        try:
            if any(k is not None and RESERVED_PREFIX.match(k) for k in etree.fromstring(s).nsmap):
                return True
        except Exception:  # noqa
            pass
    return False


def two_prefixes(c):
    """the left root binds two prefixes (or the default namespace and a prefix) to one URI"""
    try:
        vals = list(etree.fromstring(c["left"]).nsmap.values())
        return len(vals) != len(set(vals))
    except Exception:  # noqa
        return False


def repeated_formatting(c):
    """text_tags and formatting_tags are non-empty and some formatting element, by its serialisation (the key of its
    placeholder: etree.tounicode without the tail), occurs more than once across the text-tag content of the two
    documents taken together"""
    tt, fmt = c["cfg"]["tt"], c["cfg"]["fmt"]
    if not tt or not fmt:
        return False
    seen = set()
    for s in (c["left"], c["right"]):
        try:
            root = etree.fromstring(s)
        except Exception:  # noqa
            return False
        done, tree = set(), root.getroottree()
        for e in root.iter():
            if not isinstance(e.tag, str) or e.tag not in tt:
                continue
            for f in e.iterdescendants():
                if isinstance(f.tag, str) and f.tag in fmt and tree.getpath(f) not in done:
                    done.add(tree.getpath(f))
                    g = deepcopy(f)
                    g.tail = None
                    k = etree.tounicode(g)
                    if k in seen:
                        return True
                    seen.add(k)
    return False


def own_diff_prefix_attr(c):
    """the documents bind the prefix `diff` to a namespace of their own and USE it (an element or an attribute in that
    namespace)"""
    for s in (c["left"], c["right"]):
        try:
            root = etree.fromstring(s)
        except Exception:  # noqa
            continue
        u = root.nsmap.get("diff")
        if u and u != D[1:-1] and any(e.tag.startswith("{%s}" % u) or any(k.startswith("{%s}" % u) for k in e.attrib)
                                      for e in root.iter() if isinstance(e.tag, str)):
            return True
    return False


def own_ns_diff_vocab(c):
    """the OUTPUT carries the formatter's vocabulary (insert, delete, rename, ...-attr) as names of the DOCUMENT's own
    `diff` namespace although the input documents have no such names: the formatter's marks were printed with the
    prefix diff where the document's binding of it is in force"""
    try:
        out = etree.fromstring(c["out_str"])
        roots = [etree.fromstring(c["left"]), etree.fromstring(c["right"])]
    except Exception:  # noqa
        return False
    u = next((r.nsmap.get("diff") for r in roots if r.nsmap.get("diff") and r.nsmap.get("diff") != D[1:-1]), None)
    if not u:
        return False
    vocab = {"{%s}%s" % (u, n) for n in DOCUMENTED_ATTRS | DOCUMENTED_ELEMS}
    def names(t):
        return {e.tag for e in t.iter() if isinstance(e.tag, str)} | {k for e in t.iter() if isinstance(e.tag, str) for k in e.attrib}
    have = set().union(*[names(r) for r in roots])
    return bool((names(out) & vocab) - have)


def own_diff_prefix_msg(msg):
    """the failures of that class: a name of the document's namespace read back in the formatter's (printed with the
    shadowed prefix), or a path step diff:name that _xpath resolves against the formatter's binding of `diff`"""
    return bool(msg) and (msg.startswith("undocumented diff attribute") or msg.startswith("undocumented diff element")
                          or ("ValueError" in msg and "xpath diff:" in msg))


def key_C08(c, msg=""):
    if diffns_in_input(c):
        return "diff-namespace-in-input"
    if own_diff_prefix_msg(msg) and own_diff_prefix_attr(c):
        return "own-diff-prefix-attribute-on-created-node"
    if "does not parse as XML" in msg and "already defined" in msg and c.get("dup_xmlid"):
        return "duplicate-xml-id-in-output"
    if reserved_prefix(c):
        return "reserved-ns-prefix-on-root"
    if c.get("kind") == "pi" and pi_visible(c):
        return "processing-instruction-below-root"
    if two_prefixes(c):
        return "two-prefixes-one-uri-on-left-root"
    if c["cfg"]["replace"] and c["cfg"]["tt"]:
        return "use_replace-with-text_tags"
    if c.get("exc") in ("AssertionError", "IndexError") and repeated_formatting(c):
        return "identical-formatting-elements-cross"
    return None


def oracle_C08_msg(c):
    if "exc" in c:
        return "format() raised %s (%s)" % (c["exc"], c.get("exc_msg", ""))
    try:
        t = etree.fromstring(c["out_str"])
    except Exception as ex:  # noqa
        return "the output does not parse as XML: %s" % ex
    if c.get("ph_left") and not any(ch in c["left"] + c["right"] for ch in c["ph_left"]):
        return "characters the formatter substituted for tags are left in the output: %s" % ", ".join("U+%04X" % ord(ch) for ch in c["ph_left"])
    for e in t.iter():
        if not isinstance(e.tag, str):
            continue
        if pua(e.tag) or pua(e.text) or pua(e.tail):
            return "private-use character left in the text of <%s>" % e.tag
        for k, v in e.attrib.items():
            if pua(k) or pua(v):
                return "private-use character left in attribute %s of <%s>" % (k, e.tag)
            if k.startswith(D) and k[len(D):] not in DOCUMENTED_ATTRS:
                return "undocumented diff attribute %s" % k
        if e.tag.startswith(D) and e.tag[len(D):] not in DOCUMENTED_ELEMS:
            return "undocumented diff element %s" % e.tag
    return None


def oracle_proj(c, mode):
    """-> (message | None, finding key | None).  A failure falls under 'comment-tail-dropped' only if the projection
    DOES equal the document whose comments were removed together with their tails (i.e. the lost text is the only
    difference); under 'use_replace-with-text_tags' by configuration."""
    if "out_str" not in c:
        return None, None          # totality is C08's claim
    cfg = c["cfg"]
    try:
        out = etree.fromstring(c["out_str"])
    except etree.XMLSyntaxError:
        return None, None          # an output that does not parse is C08's claim (reported there)
    doc = parse(c["right"] if mode == "accept" else c["left"], cfg)
    got, want = project(out, mode, cfg), project_ref(strip_comments_keep(doc), cfg)
    if nf_eq(got, want):
        return None, None
    key = None
    if two_prefixes(c):
        key = "two-prefixes-one-uri-on-left-root"
    elif own_diff_prefix_attr(c) and (own_diff_prefix_msg(oracle_C08_msg(c)) or own_ns_diff_vocab(c)):
        key = "own-diff-prefix-attribute-on-created-node"
    elif cfg["replace"] and cfg["tt"]:
        key = "use_replace-with-text_tags"
    elif has_comment_tail(c["left"], c["right"]) and nf_eq(got, project_ref(strip_comments_keep(doc, False), cfg)):
        key = "comment-tail-dropped"
    return "%sing every marked change gives %r, the %s document without comments is %r" % (
        mode, got, "right" if mode == "accept" else "left", want), key


def oracle_C08(c):
    msg = oracle_C08_msg(c)
    return msg, key_C08(c, msg or "")


def oracle_C09(c):
    return oracle_proj(c, "accept")


def oracle_C10(c):
    return oracle_proj(c, "reject")


# ----------------------------------------------------------------------------
# Gallina side

PRE = """From Coq Require Import List NArith ZArith Bool. Import ListNotations.
Require Import XV.Str XV.Json XV.TextFormat XV.Forest XV.Path XV.XmlFmt.
Require XV.Placeholder XV.DMP.
Local Open Scope N_scope.
Notation X := Placeholder.XNode.
Inductive expect := EOk (t : xtree) | EErr (e : ferr).
Definition case := (cfg * bool * list N * list N * tree * tree * list (option str * str)
                    * xtree * xtree * list gaction * expect)%type.
Definition ferr_eqb (a b : ferr) : bool := match a, b with
  | FValueError, FValueError | FIndexError, FIndexError | FAssertionError, FAssertionError | FKeyError, FKeyError
  | FAttributeError, FAttributeError | FXPathEvalError, FXPathEvalError | FTypeError, FTypeError
  | FUnboundLocalError, FUnboundLocalError | FFuel, FFuel | FUnsupported, FUnsupported => true | _, _ => false end.
Definition check (c : case) : bool :=
  let '(cf, late, alnum, space, L, R, rootns, pL, pR, gs, e) := c in
  let o := Orc {| DMP.isalnum := fun c => existsb (N.eqb c) alnum; DMP.isspace := fun c => existsb (N.eqb c) space |}
               (fun _ => late) in
  let '(s, L', R') := prepare cf L R in
  Placeholder.xtree_eqb L' pL && Placeholder.xtree_eqb R' pR &&
  match xml_format cf o rootns s gs L', e with
  | FOk t, EOk t' => Placeholder.xtree_eqb t t'
  | FErr x, EErr y => ferr_eqb x y
  | _, _ => false
  end.
"""


# premises of the theorems and their statements, evaluated on the model's own output (text_tags = [])
PRE2 = PRE.replace("Require Import XV.Str XV.Json XV.TextFormat XV.Forest XV.Path XV.XmlFmt.",
                   "Require Import XV.Str XV.Json XV.TextFormat XV.Forest XV.Path XV.XmlFmt XV.Projections XV.XmlFmtProofs4 XV.XmlFmtProofs5.")
PRE2 = PRE2[:PRE2.index("Definition check (c : case)")] + """Definition check (c : case) : bool :=
  let '(cf, late, alnum, space, L, R, rootns, pL, pR, gs, e) := c in
  let o := Orc {| DMP.isalnum := fun c => existsb (N.eqb c) alnum; DMP.isspace := fun c => existsb (N.eqb c) space |}
               (fun _ => late) in
  let '(s, L', R') := prepare cf L R in
  match xml_format cf o rootns s gs L' with
  | FOk t =>
      run_okb cf o rootns (FS L' s [(Some DIFF_PREFIX, DIFF_NS)]) gs &&
      xequivb (ws_text cf) (accept t) R' && xequiv_rb (ws_text cf) (reject t) L'
  | FErr _ => true
  end.
"""


PRE3 = PRE2.replace("XV.XmlFmtProofs4 XV.XmlFmtProofs5.", "XV.XmlFmtProofs4 XV.XmlFmtProofs5 XV.XmlFmtProofsF.")
PRE3 = PRE3[:PRE3.index("Definition check (c : case)")] + """Definition check (c : case) : bool :=
  let '(cf, late, alnum, space, L, R, rootns, pL, pR, gs, e) := c in
  let o := Orc {| DMP.isalnum := fun c => existsb (N.eqb c) alnum; DMP.isspace := fun c => existsb (N.eqb c) space |}
               (fun _ => late) in
  let '(s, L', R') := prepare cf L R in
  run_ok_attrb cf o rootns (FS L' s [(Some DIFF_PREFIX, DIFF_NS)]) gs.
"""


# text-tag configurations (use_replace = false): at every text update of the model's run, the (boolean, sound) premises of
# XmlFmtProofsT1.text_update_flat and both flattened readings of the string written
PRE4 = PRE2.replace("XV.XmlFmtProofs4 XV.XmlFmtProofs5.", "XV.XmlFmtProofs4 XV.XmlFmtProofs5 XV.XmlFmtProofsT2.")
PRE4 = PRE4[:PRE4.index("Definition check (c : case)")] + """Definition check (c : case) : bool :=
  let '(cf, late, alnum, space, L, R, rootns, pL, pR, gs, e) := c in
  let o := Orc {| DMP.isalnum := fun c => existsb (N.eqb c) alnum; DMP.isspace := fun c => existsb (N.eqb c) space |}
               (fun _ => late) in
  let '(s, L', R') := prepare cf L R in
  flat_runb cf o rootns (FS L' s [(Some DIFF_PREFIX, DIFF_NS)]) gs.
"""


# the printed string: XV.SerializeDoc.render (the model of XMLFormatter.render, pretty_print=False) on the IMPLEMENTATION's
# result tree must be the implementation's string, the tree must lie in the fragment dnode_ok and the parser must read the
# string back (render_parse, evaluated)
PRE5 = """From Coq Require Import List NArith ZArith Bool. Import ListNotations.
Require Import XV.Str XV.Placeholder XV.Serialize XV.SerializeDoc.
Local Open Scope N_scope.
Notation X := Placeholder.XNode.
Definition case := (xtree * str)%type.
Definition DP : str := [100;105;102;102].
Definition check (c : case) : bool :=
  let '(t, s) := c in
  dnode_ok t && str_eqb (render DP t) s &&
  match parse DP (pneed t) s with Some u => xtree_eqb u (set_tail (knorm t) []) | None => false end.
"""


RENDER_EXAMPLE = ('<a xmlns:diff="http://namespaces.shoobx.com/diff" k="1 &lt; &quot;2&quot;"><b diff:insert="">x &amp; y</b>t'
                  '<c diff:delete=""/></a>')     # the literal of Properties/C08_render.v, C08_render_example


def gen_render_rows(rng, n):
    """(result-tree, string lxml prints for it) for trees with awkward character data: quotes, angle brackets, ampersands,
    tabs, line breaks, carriage returns, non-ASCII; diff marks at any depth; built with lxml and printed the way
    XMLFormatter.format / render do it (cleanup_namespaces with top_nsmap, tounicode, pretty_print=False)."""
    from xmldiff import formatting as F
    D_ = "{%s}" % F.DIFF_NS
    chars = ['a', 'b', ' ', '"', "'", '<', '>', '&', '\t', '\n', '\r', ';', '#', 'é', '\u20ac', '\U0001F600', ']', '-', '=', '/']
    marks = ["insert", "delete", "rename", "add-attr", "update-attr", "delete-attr", "rename-attr", "insert-formatting"]

    def txt():
        return "".join(rng.choice(chars) for _ in range(rng.choice([0, 1, 2, 3, 5])))

    def mk(depth):
        tag = rng.choice(["a", "b", "c-d", "e.f", "_g", D_ + "insert", D_ + "delete", D_ + "replace"]) if depth else rng.choice(["a", "doc"])
        e = etree.Element(tag)
        for _ in range(rng.choice([0, 0, 1, 2])):
            e.set(rng.choice(["k", "j", "x-y", D_ + rng.choice(marks), "old-text"]), txt())
        if rng.random() < .6:
            e.text = txt()
        for _ in range(rng.choice([0, 0, 1, 2, 3]) if depth < 3 else 0):
            c = mk(depth + 1)
            e.append(c)
            if rng.random() < .5:
                c.tail = txt()
        return e
    rows = []
    ex = etree.fromstring(RENDER_EXAMPLE)
    rows.append((xcanon(ex), RENDER_EXAMPLE))
    for _ in range(n):
        e = mk(0)
        F.etree.register_namespace(F.DIFF_PREFIX, F.DIFF_NS)
        etree.cleanup_namespaces(e, top_nsmap={F.DIFF_PREFIX: F.DIFF_NS})
        rows.append((xcanon(e), etree.tounicode(e, pretty_print=False)))
    return rows


def in_render_fragment(c):
    """the output tree has no namespace but the diff namespace, and no character XML cannot carry"""
    D_ = "{http://namespaces.shoobx.com/diff}"

    def name_ok(n):
        if n.startswith(D_):
            n = n[len(D_):]
        return bool(n) and not any(ch in n for ch in ' \t\n\r/><="\'?!&#{}:')

    def walk(t):
        if not isinstance(t[0], str):
            return False
        if t[0].startswith("#"):
            return False            # comments / processing instructions: printed by lxml with rules of their own
        if not name_ok(t[0]) or not all(name_ok(k) for k, _ in t[1]):
            return False
        return all(walk(k) for k in t[4])
    # the result tree inherits the namespace declarations of the left document: none may be there
    return "xmlns" not in c["left"] and walk(c["out"])


def attrs_simple(c):
    """the scope of C10_reject_attrs_partial: no namespaced attribute names, no ; : { } in names, no ; { } in values"""
    for s in (c["left"], c["right"]):
        for e in etree.fromstring(s).iter():
            if isinstance(e.tag, str):
                for k, v in e.attrib.items():
                    if not k or any(ch in k for ch in ";:{}") or any(ch in v for ch in ";{}"):
                        return False
    return True


def cs(s):
    return "[" + ";".join(str(ord(ch)) for ch in s) + "]"


def cx(t):
    return "(X %s [%s] %s %s [%s])" % (cs(t[0]), ";".join("(%s,%s)" % (cs(k), cs(v)) for k, v in t[1]),
                                       "None" if t[2] is None else "(Some %s)" % cs(t[2]), cs(t[3] or ""),
                                       ";".join(cx(k) for k in t[4]))


def chars_of(c):
    s = set()

    def walk(t):
        s.update(t[2] or ""); s.update(t[3] or "")
        for k in t[4]:
            walk(k)
    walk(c["prepL"]); walk(c["prepR"])
    for a in c["script"]:
        for v in a:
            if isinstance(v, str):
                s.update(v)
    return s


def coq_case(c):
    cfg = c["cfg"]
    ch = chars_of(c)
    al = "[" + ";".join(str(ord(x)) for x in sorted(ch) if x.isalnum()) + "]"
    sp = "[" + ";".join(str(ord(x)) for x in sorted(ch) if x.isspace()) + "]"
    cf = "(Cfg %d %s [%s] [%s])" % (cfg["normalize"], "true" if cfg["replace"] else "false",
                                   ";".join(cs(t) for t in cfg["tt"]), ";".join(cs(t) for t in cfg["fmt"]))
    if "exc" in c:
        e = "(EErr %s)" % ERRS[c["exc"]]
    else:
        e = "(EOk %s)" % cx(c["out"])
    return "(%s, %s, %s, %s, %s, %s, %s, %s, %s, %s, %s)" % (
        cf, "true" if c.get("late") else "false", al, sp, c["rawL"], c["rawR"], coq_nsmap(c["rootns"]),
        cx(c["prepL"]), cx(c["prepR"]), coq_list([coq_gaction(a) for a in c["script"]]), e)


def modelable(c):
    if not c.get("supported") or "script" not in c or c["kind"] in ("reserved", "latectr"):
        return False
    if "exc" in c and c["exc"] not in ERRS:
        return False
    if c["kind"] == "prefixes" and "exc" in c and own_diff_prefix_attr(c) and own_diff_prefix_msg(oracle_C08_msg(c)):
        # the recorded finding own-diff-prefix-... in its raising form (lxml resolves a step diff:name against the
        # formatter's binding of the prefix): a behaviour of lxml's prefix handling the model does not have -- oracle only
        return False
    for a in c["script"]:
        if getattr(a, "position", 0) is not None and isinstance(getattr(a, "position", 0), int) and getattr(a, "position", 0) < 0:
            return False
    return True


# ----------------------------------------------------------------------------
# inputs

NORMS = [WS_NONE, WS_TAGS, WS_TEXT, WS_BOTH]
TT_TAGS = PH.TAGS


def xml(e):
    return etree.tostring(e).decode()


def rand_cfg(rng, tags=False, doc=None):
    cfg = {"normalize": rng.choice(NORMS), "replace": rng.random() < 0.4, "tt": [], "fmt": []}
    if tags:
        tt, fmt = PH.tagsets_for(rng, doc) if doc is not None else PH.gen_tagsets(rng)
        cfg["tt"], cfg["fmt"] = list(tt), list(fmt)
    return cfg


WORDS = ["x", "y", "x y", "hello world", "z", " ", "a  b", " a", "b ", "\n", "one two three", "one three", "a\tb",
         "\xa0", "\xa0\xa0", "    ", "\u3000", "note book", "notebook", "line .", "line."]   # incl. blank texts that differ, joined words


def gen_struct(rng, n):
    out = []
    for _ in range(n):
        ns = rng.random() < 0.3
        L, R = gen.gen_pair(rng, 8, ns=ns, comments=True, words=WORDS if rng.random() < 0.6 else None)
        l, r = xml(L), xml(R)
        if rng.random() < 0.12:
            # xml:id on a few elements (unique within each document); where an id-bearing element is moved or deleted and
            # the id is on another element of the result, the case falls under the open finding duplicate-xml-id-in-output
            st = rng.getstate()
            l = add_xmlids(rng, l)
            rng.setstate(st)
            r = add_xmlids(rng, r)
        out.append({"kind": "struct", "left": l, "right": r, "cfg": rand_cfg(rng),
                    "opts": rng.choice(gen.OPTION_SETS), "late": rng.random() < 0.15})
    return out


def gen_nestedfmt():
    """formatting elements nested two and three deep inside a text tag, a word changed in the innermost / middle / outer one"""
    base = '<doc><p>one <b>two <i>three <u>deep four</u> five</i> six</b> seven</p><p>x</p></doc>'
    out = []
    for old_, new_ in (("three", "changed"), ("deep", "deeper"), ("two", "2"), ("six", ""), ("seven", "seven eight"), ("one ", "")):
        for fmt in (["b", "i", "u"], ["b", "i"], ["i", "u"]):
            out.append({"kind": "texttags", "left": base, "right": base.replace(old_, new_, 1),
                        "cfg": {"normalize": WS_NONE, "replace": False, "tt": ["p"], "fmt": fmt}, "opts": {}, "late": False})
    return out


def gen_defaultns():
    """both roots declare the SAME default namespace (and maybe a prefixed one): inserts, moves, renames, text updates"""
    pairs = [
        ('<a xmlns="urn:d"><b/></a>', '<a xmlns="urn:d"><b/><c>t</c></a>'),
        ('<a xmlns="urn:d"><b>x</b><c/></a>', '<a xmlns="urn:d"><c><b>y</b></c><d k="1"/></a>'),
        ('<a xmlns="urn:d" xmlns:p="urn:p"><b/><p:c>t</p:c></a>', '<a xmlns="urn:d" xmlns:p="urn:p"><p:c>t</p:c><b><p:e/><f/></b></a>'),
        ('<doc xmlns="urn:d"><p>one two</p></doc>', '<doc xmlns="urn:d"><p>one three</p><p>new</p></doc>'),
    ]
    return [{"kind": "struct", "left": l, "right": r, "cfg": {"normalize": WS_NONE, "replace": rep, "tt": [], "fmt": []},
             "opts": {}, "late": False} for l, r in pairs for rep in (False, True)]


def gen_emptyvals():
    """attribute values that are (or become) the empty string"""
    from harness.differ_props import EMPTY_VALUE_STREAM
    return [{"kind": "struct", "left": l, "right": r, "cfg": {"normalize": WS_NONE, "replace": rep, "tt": [], "fmt": []},
             "opts": {}, "late": False} for l, r in EMPTY_VALUE_STREAM for rep in (False, True)]


def gen_perms():
    """every reordering of three and of four siblings (distinct tags; same tag told apart by text), no text tags: several
    moves inside ONE parent, each leaving a diff:delete original behind that later positions must not count"""
    import itertools
    out = []
    for kids in (["<a>1</a>", "<b>2</b>", "<c>3</c>"], ["<a>1</a>", "<b>2</b>", "<c>3</c>", "<d>4</d>"],
                 ["<s>one</s>", "<s>two</s>", "<s>three</s>", "<s>four</s>"]):
        for perm in itertools.permutations(range(len(kids))):
            if list(perm) == list(range(len(kids))):
                continue
            out.append({"kind": "struct", "left": "<r>%s</r>" % "".join(kids), "right": "<r>%s</r>" % "".join(kids[i] for i in perm),
                        "cfg": {"normalize": WS_NONE, "replace": False, "tt": [], "fmt": []}, "opts": {}, "late": False})
    return out


def gen_subattrs(rng, n):
    """several attribute changes of ONE kind on one element, with names (and name:value entries) that contain one another:
    the diff:add-attr / delete-attr / update-attr / rename-attr annotations list every one of them"""
    names = ["ref", "href", "name", "filename", "type", "subtype", "set", "srcset", "id", "xid"]
    out = []
    for _ in range(n):
        def attrs(k):
            return {a: rng.choice(["1", "1", "2", ""]) for a in rng.sample(names, k)}
        root = etree.Element("doc")
        root.text = "t"
        for i in range(rng.randint(1, 3)):
            e = etree.SubElement(root, rng.choice(["a", "b"]))
            e.text = "text %d" % i
            for a, v in attrs(rng.randint(1, 4)).items():
                e.set(a, v)
        R = deepcopy(root)
        for e in R:
            for a in list(e.attrib):
                r_ = rng.random()
                if r_ < .35:
                    del e.attrib[a]
                elif r_ < .6:
                    e.set(a, e.get(a) + "x" if e.get(a) != "x" else "")
            for a, v in attrs(rng.randint(0, 3)).items():
                if a not in e.attrib:
                    e.set(a, v)
        out.append({"kind": "struct", "left": xml(root), "right": xml(R), "cfg": rand_cfg(rng),
                    "opts": {}, "late": False})
    return out


def gen_texttags(rng, n):
    out = []
    for _ in range(n):
        t1 = PH.gen_tree(rng, rng.randint(1, 3), root=True)
        t2 = PH.mutate(rng, t1) if rng.random() < 0.75 else PH.gen_tree(rng, rng.randint(1, 3), root=True)
        cfg = rand_cfg(rng, True, t1)
        if rng.random() < 0.7:
            cfg["replace"] = False
        out.append({"kind": "texttags", "left": xml(PH.build_root(t1)), "right": xml(PH.build_root(t2)), "cfg": cfg,
                    "opts": rng.choice(gen.OPTION_SETS[:5]), "late": rng.random() < 0.1})
    return out


def gen_latectr(rng, n):
    """text-tag documents formatted by a maker whose counter stands just below the end of the private-use area, so the
    placeholders of this run straddle U+F8FF (what a formatter in long use, or a document with > 6393 distinct inline
    elements, reaches).  Oracle only (the model's theorems carry the premise ctr <= PUA_END)."""
    out = []
    for c in gen_texttags(rng, n):
        c["kind"] = "latectr"
        c["cfg"]["replace"] = False
        c["cfg"]["ctr"] = rng.choice([0xF8F6, 0xF8FA, 0xF8FD, 0xF8FF, 0xF900])
        out.append(c)
    return out


def gen_wsonly(rng, n):
    """text tags with NON-formatting embedded elements whose content / attribute values differ between left and right
    only in white space (the placeholder table must key on the exact serialisation); white space significant"""
    W = ["a b", "a  b", "a\tb", "a \n b", " a b", "a b ", "x = 1", "x  =  1", "Part II", "Part  II"]
    out = []

    def case(l, r, tt, fmt, norm):
        out.append({"kind": "wsonly", "left": l, "right": r, "cfg": {"normalize": norm, "replace": False, "tt": tt, "fmt": fmt},
                    "opts": {}, "late": False})
    fixed = [
        ("<doc><para>see <code>x  =  1</code> now</para></doc>", "<doc><para>see <code>x = 1</code> now</para></doc>"),
        ('<doc><para>in <ref title="Part  II"/> ok</para></doc>', '<doc><para>in <ref title="Part II"/> ok</para></doc>'),
        ("<doc><para>old</para></doc>", "<doc><para><code>a b</code> versus <code>a  b</code></para></doc>"),
        ("<doc><para><code>a  b</code> versus <code>a b</code></para></doc>", "<doc><para>new</para></doc>"),
        ("<doc><para>t <code><k>a  b</k> c</code> u</para></doc>", "<doc><para>t <code><k>a b</k> c</code> u</para></doc>"),
        ("<doc><para>t <code>a\n  b</code> u</para><para>v</para></doc>", "<doc><para>t <code>a\n    b</code> u</para><para>v w</para></doc>"),
    ]
    for l, r in fixed:
        for norm in (WS_NONE, WS_TAGS):
            case(l, r, ["para"], [], norm)
        case(l, r, ["para"], ["k"], WS_NONE)
    for _ in range(n):
        x, y = rng.sample(W, 2)
        kind = rng.choice(["text", "attr", "two", "nested"])
        if kind == "text":
            l, r = "<code>%s</code>" % x, "<code>%s</code>" % y
        elif kind == "attr":
            l, r = '<ref title="%s"/>' % x, '<ref title="%s"/>' % y
        elif kind == "two":
            l, r = "<code>%s</code>", "<code>%s</code> and <code>%s</code>" % (x, y)
            l = l % x
        else:
            l, r = "<code><k>%s</k>!</code>" % x, "<code><k>%s</k>!</code>" % y
        pre, post = rng.choice(["", "see ", "a b "]), rng.choice(["", " now", " c  d"])
        doc = "<doc><para>%s%%s%s</para><para>other</para></doc>" % (pre, post)
        if rng.random() < 0.3:
            doc = "<doc><sec><para>%s%%s%s</para></sec></doc>" % (pre, post)
        case(doc % l, doc % r, ["para"], rng.choice([[], ["k"], ["b"]]), rng.choice([WS_NONE, WS_TAGS]))
    return out


def gen_sibshift(rng, n):
    """several same-tag siblings with children of their own; earlier siblings move into later ones between inserts into
    several of them: the same target path string (/doc/sec[2]) denotes different parents at different points of the script"""
    out = []

    def case(l, r):
        out.append({"kind": "sibshift", "left": l, "right": r, "cfg": {"normalize": WS_NONE, "replace": False, "tt": [], "fmt": []},
                    "opts": {}, "late": False})
    APP = "<sec><title>Appendix</title><p>Raw tables and listings.</p></sec>"
    INTRO = "<sec><title>Introduction</title><p>Why we did this.</p>%s</sec>"
    METH = "<sec><title>Methods</title><p>How we did this.</p>%s</sec>"
    LEFT = "<doc>" + APP + INTRO % "" + METH % "" + "</doc>"
    fixed = [
        (LEFT, "<doc>" + APP + INTRO % "<note>Reviewed in May.</note>" + METH % "<pagebreak/>" + "</doc>"),
        (LEFT, "<doc>" + INTRO % "" + METH % (APP + "<pagebreak/>") + "</doc>"),
        (LEFT, "<doc>" + INTRO % "<note>Reviewed in May.</note>" + METH % (APP + "<pagebreak/>") + "</doc>"),
        (LEFT, "<doc>" + INTRO % "<pagebreak/>" + METH % (APP + "<hr/>") + "</doc>"),
        ("<book><part><ch><h>Old notes</h><p>Misc remarks kept for reference.</p></ch><ch><h>Setup</h><p>Install the tools.</p></ch>"
         "<ch><h>Usage</h><p>Run the tools.</p></ch></part></book>",
         "<book><part><ch><h>Setup</h><p>Install the tools.</p><fig/></ch><ch><h>Usage</h><p>Run the tools.</p><ch><h>Old notes</h>"
         "<p>Misc remarks kept for reference.</p></ch><fig/></ch></part></book>"),
    ]
    for l, r in fixed:
        case(l, r)
    names = ["Alpha", "Beta", "Gamma", "Delta", "Epsilon"]
    words = ["tables", "listings", "reasons", "methods", "results", "remarks"]
    new = ["<note>Reviewed.</note>", "<pagebreak/>", "<hr/>", "<fig/>", "<note>n</note>"]
    for _ in range(n):
        k = rng.randint(3, 5)
        secs = ["<sec><title>%s</title><p>About %s and %s.</p>%%s</sec>" % (names[i], words[i], words[(i + 2) % 6]) for i in range(k)]
        left = "<doc>" + "".join(x % "" for x in secs) + "</doc>"
        # an earlier section moves into a later one; new children go into several sections
        m = rng.randrange(0, k - 1)
        d = rng.randrange(m + 1, k)
        adds = {i: rng.choice(new) for i in rng.sample(range(k), rng.randint(2, k)) if i != m}
        parts = []
        for i in range(k):
            if i == m:
                continue
            inner = adds.get(i, "")
            if i == d:
                moved = secs[m] % ""
                inner = (moved + inner) if rng.random() < 0.7 else (inner + moved)
            parts.append(secs[i] % inner)
        case(left, "<doc>" + "".join(parts) + "</doc>")
    return out


def gen_exhaustive(maxn):
    trees = gen.all_trees(maxn)
    cfg = {"normalize": WS_NONE, "replace": False, "tt": [], "fmt": []}
    return [{"kind": "exhaustive", "left": a, "right": b, "cfg": cfg, "opts": {}, "late": False} for a in trees for b in trees]


def gen_texts(rng, quick):
    """small documents whose texts/tails run over a set of critical strings, all normalize x use_replace"""
    ts = [None, "a", "ab", " ", "  ", "a b", "a  b", " a", "b a", "ab cd", "cd ab"]
    out = []
    pairs = [(x, y) for x in ts for y in ts]
    if quick:
        pairs = rng.sample(pairs, 40)
    for x, y in pairs:
        for norm in NORMS:
            for rep in (False, True):
                def doc(t):
                    return "<r><a>%s</a><b/>%s</r>" % (t or "", t or "")
                out.append({"kind": "texts", "left": doc(x), "right": doc(y),
                            "cfg": {"normalize": norm, "replace": rep, "tt": [], "fmt": []}, "opts": {}, "late": False})
    return out


KNOWN_STREAM = [
    # use_replace together with text_tags (open finding C08)
    {"left": '<a>x y<b k="2" j="1"/></a>', "right": "<b>x y z</b>", "tt": ["a", "b"], "fmt": [], "replace": True},
    {"left": "<a><a/></a>", "right": '<c><a k="1"/></c>', "tt": ["a", "c"], "fmt": [], "replace": True},
    {"left": "<p>a<b>c</b>d</p>", "right": "<p>a<b>x</b>cd</p>", "tt": ["p"], "fmt": ["b"], "replace": True},
    {"left": "<p><b>x</b>y</p>", "right": "<p>z<b>x</b></p>", "tt": ["p"], "fmt": ["b"], "replace": True},
    # the text after a removed comment (open finding C09/C10)
    {"left": "<a><!--c-->tail<b/></a>", "right": "<a><!--c-->tail<b/></a>", "tt": [], "fmt": [], "replace": False},
    {"left": "<a><b/><!--c-->t</a>", "right": "<a><b/>u</a>", "tt": [], "fmt": [], "replace": False},
    # an identical formatting element more than once across the two documents (open finding C08
    # identical-formatting-elements-cross): (A) AssertionError in _realign_placeholders, (B) IndexError in undo_string
    {"left": "<p> <b> </b>y</p>", "right": "<p> <b> </b><b> </b>y</p>", "tt": ["p"], "fmt": ["b"], "replace": False},
    {"left": "<p>x <b>x y</b></p>", "right": "<p><b>x y</b>xx y<b/>y</p>", "tt": ["p"], "fmt": ["b"], "replace": False},
    {"left": "<r><p>u <i>u v</i></p><q/></r>", "right": "<r><p><i>u v</i>uu v<i/>v</p><q/></r>", "tt": ["p"], "fmt": ["i"],
     "replace": False},
    # regression: _join_delete_insert([]) (repaired in /repo)
    {"left": "<a> </a>", "right": "<a>  </a>", "tt": [], "fmt": [], "replace": True, "normalize": WS_TEXT},
    {"left": "<a><b/> </a>", "right": "<a><b/>  </a>", "tt": [], "fmt": [], "replace": True, "normalize": WS_TEXT},
]


RESERVED_STREAM = [
    ('<r xmlns:ns0="urn:n" xmlns:diff="%s"><ns0:a><diff:b/>t</ns0:a><diff:b diff:k="1"/></r>' % "urn:example:revisions",
     '<r xmlns:ns0="urn:n" xmlns:diff="%s"><diff:b diff:k="2"><ns0:a>t</ns0:a></diff:b><ns0:c/></r>' % "urn:example:revisions"),
    ('<r xmlns:ns0="urn:n" xmlns:diff="urn:o"><ns0:a><diff:b/></ns0:a></r>',
     '<r xmlns:ns0="urn:n" xmlns:diff="urn:o"><diff:b><ns0:a>x</ns0:a></diff:b></r>'),
    ('<r xmlns:ns1="urn:n" xmlns:ns0="urn:m" xmlns:diff="urn:o"><ns1:a><ns0:b/>t</ns1:a><ns0:b/></r>',
     '<r xmlns:ns1="urn:n" xmlns:ns0="urn:m" xmlns:diff="urn:o"><ns0:b><ns1:a>t</ns1:a></ns0:b></r>'),
    ('<r xmlns:ns0="urn:n"><ns0:a><b/>t</ns0:a><b k="1"/></r>', '<r xmlns:ns0="urn:n"><b k="2"><ns0:a>t</ns0:a></b><ns0:c/></r>'),
]


TWOPFX_STREAM = [
    ('<r xmlns:p="u" xmlns:q="u"><q:x/></r>', '<r xmlns:p="u" xmlns:q="u"><q:x a="1"><q:y/></q:x></r>'),
    ('<r xmlns:p="u" xmlns:q="u"><p:x/><q:x/></r>', '<r xmlns:p="u" xmlns:q="u"><p:x/><q:x a="1"/></r>'),
    ('<r xmlns="u" xmlns:q="u"><x/><q:x/></r>', '<r xmlns="u" xmlns:q="u"><x/><q:x a="1"/></r>'),
    ('<r xmlns:p="u" xmlns:q="u"><p:x/><q:x>t</q:x></r>', '<r xmlns:p="u"><p:x/><p:x>t2</p:x></r>'),
]


# the documents bind `diff` to a namespace of their own and an attribute of that namespace is put on a node the
# formatter created (an inserted node, the copy a move leaves at the target): open finding
# 'own-diff-prefix-attribute-on-created-node' (thorough tier, session 3).  format() registers diff -> its own namespace;
# when the script was computed BEFORE format() is called (a list, not the lazy generator main.diff_trees hands over) that
# registration is the last one, the created node declares xmlns:diff for the formatter's namespace and lxml prints the
# document's attribute with the now shadowed prefix: read back, it is an attribute of the formatter's namespace
OWNDIFF_STREAM = [
    ('<diff:p xmlns:diff="urn:example:revisions" xmlns:d2="urn:n"><diff:item><d2:b/></diff:item></diff:p>',
     '<diff:p xmlns:diff="urn:example:revisions" xmlns:d2="urn:n"><d2:b diff:k="1"/></diff:p>'),
    ('<r xmlns:diff="urn:example:revisions"><a><b i="1">some text</b></a><c/></r>',
     '<r xmlns:diff="urn:example:revisions"><a/><c><b diff:k="1">some text</b></c></r>'),
]


def gen_owndiff():
    return [{"kind": "reserved", "left": l, "right": r, "cfg": {"normalize": WS_NONE, "replace": False, "tt": [], "fmt": []},
             "opts": {}, "late": False} for l, r in OWNDIFF_STREAM]


def gen_twopfx():
    """the left root binds two prefixes to one URI: open finding 'two-prefixes-one-uri-on-left-root' (getpath counts
    siblings by prefix, XPath by URI); outside the model, which knows one prefix per URI"""
    return [{"kind": "reserved", "left": l, "right": r, "cfg": {"normalize": WS_NONE, "replace": False, "tt": [], "fmt": []},
             "opts": {}, "late": False} for l, r in TWOPFX_STREAM]


PI_STREAM = [
    # (left, right, text tags, formatting tags): processing instructions INSIDE text tags are replaced by placeholders before
    # the differ sees them -- the formatter must complete; outside text tags the differ itself raises (open finding)
    ('<doc><p>a<?pi x?>b</p></doc>', '<doc><p>a<?pi x?>c</p></doc>', ["p"], []),
    ('<doc><p>a<?pi x?>b<b>t</b></p></doc>', '<doc><p>a c<b>t</b><?pi y?></p></doc>', ["p"], ["b"]),
    ('<doc><p><?first?>a <b>big<?in b?></b> deal</p><p>x</p></doc>', '<doc><p><?first?>a <b>big<?in b?></b> thing</p><p>x<?new?></p></doc>', ["p"], ["b"]),
    ('<doc><p>a<?pi x?>b</p></doc>', '<doc><p>a<?pi x?>c</p></doc>', [], []),
    ('<doc><?page break?><p>a</p></doc>', '<doc><?page break?><p>b</p></doc>', ["p"], []),
]


def pi_visible(c):
    """some processing instruction of the two documents is not inside a text tag (so the differ meets it)"""
    tt = set(c["cfg"]["tt"])
    for s_ in (c["left"], c["right"]):
        root = etree.fromstring(s_)
        for n in root.iter():
            if n.tag is etree.ProcessingInstruction:
                if not any(isinstance(a.tag, str) and a.tag in tt for a in n.iterancestors()):
                    return True
    return False


def gen_pi():
    return [{"kind": "pi", "left": l, "right": r, "cfg": {"normalize": WS_NONE, "replace": False, "tt": tt, "fmt": fmt},
             "opts": {}, "late": False} for l, r, tt, fmt in PI_STREAM]


def run_pi(c):
    """documents with processing instructions are outside the model: the public entry point only"""
    from xmldiff import main as xm
    try:
        c["out_str"] = xm.diff_trees(etree.fromstring(c["left"]), etree.fromstring(c["right"]), formatter=make_formatter(c["cfg"]))
        c["ph_left"] = []
    except Exception as ex:  # noqa
        c["exc"] = type(ex).__name__
        c["exc_msg"] = str(ex)[:200]
    return c


def gen_reserved():
    """documents whose root binds lxml's own prefix ns<k>: open finding 'reserved-ns-prefix-on-root'; outside the model
    (which assumes that the only namespace declarations are the root's and the formatter's)"""
    return [{"kind": "reserved", "left": l, "right": r, "cfg": {"normalize": WS_NONE, "replace": False, "tt": [], "fmt": []},
             "opts": {}, "late": False} for l, r in RESERVED_STREAM]


XMLID_STREAM = [
    # an element carrying xml:id is kept as diff:delete (moved or deleted) next to another element with the same id: the
    # output has the id twice and does not re-parse (open finding duplicate-xml-id-in-output)
    ('<r><a><b xml:id="n1">t</b></a><c/></r>', '<r><a/><c><b xml:id="n1">t</b></c></r>'),
    ('<r><a><b><k xml:id="n2"/>t</b></a><c/></r>', '<r><a/><c><b><k xml:id="n2"/>t</b></c></r>'),
    ('<r><a xml:id="x"><p>one</p></a><b><q>two</q></b></r>', '<r><b><q>two</q><a xml:id="x"><p>one</p></a></b></r>'),
    ('<r><a xml:id="n"/></r>', '<r xml:id="n"/>'),
    ('<r><a xml:id="n">t</a><b/></r>', '<r><b xml:id="n">u</b></r>'),
    # xml:id on nodes that do NOT move: must re-parse
    ('<r><a><b xml:id="n1">t</b></a><c/></r>', '<r><a><b xml:id="n1">u</b></a><c/><d/></r>'),
    ('<r xml:id="top"><a xml:id="n1"/><b/></r>', '<r xml:id="top"><b/><a xml:id="n1" k="v"/></r>'),
]
DIFFNS_STREAM = [
    # input documents that carry diff-namespace marks themselves (open finding diff-namespace-in-input)
    ('<r xmlns:diff="%s"><a diff:delete=""><x/></a><b/></r>' % DIFF_NS, '<r xmlns:diff="%s"><a diff:delete=""><x/><y/></a><b/></r>' % DIFF_NS),
    ('<r xmlns:diff="%s"><a diff:insert="">t</a><b/></r>' % DIFF_NS, '<r xmlns:diff="%s"><a diff:insert="">u</a><b/></r>' % DIFF_NS),
    ('<r xmlns:diff="%s"><a>x <diff:delete>y</diff:delete></a><b/></r>' % DIFF_NS, '<r xmlns:diff="%s"><a>x <diff:delete>y</diff:delete> z</a></r>' % DIFF_NS),
]


# comments INSIDE text tags (none of them followed by text: that is the comment-tail finding): prepare() must remove
# them before the placeholder substitution sees them -- they stay, change, appear and disappear between the documents
TTCOMMENT_STREAM = [
    ("<doc><p>hello <b>x</b><!--note--></p></doc>", "<doc><p>hello <b>x</b><!--note--></p></doc>", ["p"], ["b"]),
    ("<doc><p>hello <b>x</b><!--note--></p></doc>", "<doc><p>hello there <b>x</b><!--other--></p></doc>", ["p"], ["b"]),
    ("<doc><p>one<!--c--><b>two</b> three</p></doc>", "<doc><p>one<b>two</b> three four</p></doc>", ["p"], ["b"]),
    ("<doc><p>one<b>two</b> three</p></doc>", "<doc><p>one<!--new--><b>two</b> three</p><!--end--></doc>", ["p"], ["b"]),
    ("<doc><p><!--first--><i>a</i> b</p><p>c<!--x--></p></doc>", "<doc><p><!--first, edited--><i>a</i> b c</p><p>c</p></doc>", ["p"], ["i"]),
    ("<doc><sec><p>t<b>u<!--in b--></b></p></sec></doc>", "<doc><sec><p>t<b>u<!--in b, changed--></b> v</p></sec></doc>", ["p"], ["b"]),
    ("<doc><p>a<!--1--><!--2--></p></doc>", "<doc><p>a b<!--2--></p></doc>", ["p"], []),
]


def gen_ttcomments():
    return [{"kind": "ttcomments", "left": l, "right": r, "cfg": {"normalize": norm, "replace": False, "tt": tt, "fmt": fmt},
             "opts": {}, "late": False} for l, r, tt, fmt in TTCOMMENT_STREAM for norm in (WS_NONE, WS_BOTH)]


def gen_labelled():
    out = []
    for kind, stream in (("xmlid", XMLID_STREAM), ("diffns", DIFFNS_STREAM)):
        for l, r in stream:
            out.append({"kind": kind, "left": l, "right": r, "cfg": {"normalize": WS_NONE, "replace": False, "tt": [], "fmt": []},
                        "opts": {}, "late": False})
    return out


def add_xmlids(rng, s, pre="id"):
    """the document s with xml:id (unique within the document, prefix `pre`) on a few of its elements"""
    try:
        t = etree.fromstring(s)
    except Exception:  # noqa
        return s
    els = [e for e in t.iter() if isinstance(e.tag, str)]
    for i, e in enumerate(rng.sample(els, min(len(els), rng.randint(1, 2)))):
        e.set(XMLID, "%s%d" % (pre, i))
    return etree.tostring(t).decode()


def gen_known():
    out = []
    for k in KNOWN_STREAM:
        out.append({"kind": "known", "left": k["left"], "right": k["right"],
                    "cfg": {"normalize": k.get("normalize", WS_NONE), "replace": k["replace"], "tt": k["tt"], "fmt": k["fmt"]},
                    "opts": {}, "late": False})
    return out


OWN = "urn:example:revisions"


def gen_prefixes(rng, n):
    """documents that bind the formatter's own prefix `diff` (and a second prefix) to namespaces of their own, on the
    root, and use them for elements and attributes"""
    out = []
    fixed = [
        ('<root xmlns:diff="%s"><diff:item>hello</diff:item><x>y</x></root>' % OWN,
         '<root xmlns:diff="%s"><diff:item>hello world</diff:item><x>z</x></root>' % OWN),
        ('<root xmlns:diff="%s"><diff:sec><diff:p a="1">one two three</diff:p><diff:p>four five six</diff:p></diff:sec></root>' % OWN,
         '<root xmlns:diff="%s"><diff:sec><diff:p>four five six</diff:p><diff:p a="2">one two three</diff:p><diff:q>seven</diff:q></diff:sec></root>' % OWN),
        ('<r xmlns:d2="urn:n" xmlns:diff="%s"><d2:a><diff:b/>t</d2:a><diff:b diff:k="1"/></r>' % OWN,
         '<r xmlns:d2="urn:n" xmlns:diff="%s"><diff:b diff:k="2"><d2:a>t</d2:a></diff:b><d2:c/></r>' % OWN),
    ]
    for l, r in fixed:
        for norm in (WS_NONE, WS_BOTH):
            out.append({"kind": "prefixes", "left": l, "right": r,
                        "cfg": {"normalize": norm, "replace": False, "tt": [], "fmt": []}, "opts": {}, "late": False})
    nsmap = {"diff": OWN, "d2": "urn:n"}     # (a prefix of the form ns<k> is lxml's own: candidate finding, not generated)
    tags = ["a", "{%s}item" % OWN, "{%s}p" % OWN, "{urn:n}b"]
    for _ in range(n):
        def mk(k):
            root = etree.Element(rng.choice(tags), nsmap=nsmap)
            nodes = [root]
            for _ in range(k - 1):
                e = etree.SubElement(rng.choice(nodes), rng.choice(tags))
                if rng.random() < 0.3:
                    e.set(rng.choice(["i", "{%s}k" % OWN]), rng.choice("12"))
                if rng.random() < 0.3:
                    e.text = rng.choice(WORDS)
                if rng.random() < 0.2:
                    e.tail = rng.choice(WORDS)
                nodes.append(e)
            return root
        L = mk(rng.randint(2, 7))
        R = gen.mutate_tree(rng, L, tags=tags[:3], attrs=("i", "j")) if rng.random() < 0.7 else mk(rng.randint(2, 7))
        out.append({"kind": "prefixes", "left": xml(L), "right": xml(R), "cfg": rand_cfg(rng), "opts": rng.choice(gen.OPTION_SETS[:4]),
                    "late": False})
    return out


LWORDS = ["alpha", "beta", "gamma", "delta", "epsilon", "zeta", "eta", "theta"]


def gen_dmptexts(rng, n, nlong):
    """text and tail updates whose old/new strings come from the generators of the text-diff check (C16): repeats,
    shared halves, edits at the very start, several occurrences of one word, long line-structured texts -- so that a
    fault in the text diff shows in what accepting / rejecting the marked output gives"""
    from harness.props import C16 as T
    out = []
    pairs = []
    for _ in range(n):
        kind = rng.choice(["letters", "words", "repeats", "words"])
        a = T.rand_text(rng, kind)
        b = T.mutate(rng, a) if rng.random() < 0.7 else T.rand_text(rng, kind)
        pairs.append((a, b))
    pairs += [("and old old", "old old red"), ("bbbacc", "ba"), ("the end", "at the"), ("bookkeeper", "bokkeeper"), ("aaa", "aa"),
              ("old words stay here", "new words stay here")]
    pairs += [T.rand_long(rng) for _ in range(nlong)]
    for a, b in pairs:
        a, b = a.replace("\r", ""), b.replace("\r", "")
        if a.strip() == "" or b.strip() == "" or a == b:
            continue
        def doc(t, tail):
            r = etree.Element("r")
            e = etree.SubElement(r, "a")
            e.text = t
            etree.SubElement(r, "b").tail = tail
            return xml(r)
        tail = rng.random() < 0.3
        out.append({"kind": "texts", "left": doc("x" if tail else a, a if tail else "y"), "right": doc("x" if tail else b, b if tail else "y"),
                    "cfg": {"normalize": WS_NONE, "replace": rng.random() < 0.4, "tt": [], "fmt": []}, "opts": {}, "late": False})
    return out


def gen_wide(rng, n):
    """eleven and more same-named siblings (two-digit positional indices in the paths), early ones deleted or moved
    away (they stay in the output marked deleted, and the formatter's own sibling count has to skip them), later ones
    changed"""
    out = []
    for _ in range(n):
        k = rng.randint(11, 17)
        L = etree.Element("r")
        for i in range(k):
            e = etree.SubElement(L, "a")
            e.text = "item %d" % i
            if rng.random() < .3:
                e.set("i", str(i))
        R = deepcopy(L)
        kids = list(R)
        for e in rng.sample(kids[:5], rng.randint(1, 2)):          # early ones go away or to the end
            R.remove(e)
            if rng.random() < .5:
                R.append(e)
        for e in rng.sample(list(R)[8:], min(3, len(list(R)) - 8)):      # late ones change
            r_ = rng.random()
            if r_ < .4:
                e.text = (e.text or "") + " changed"
            elif r_ < .7:
                e.set("j", "1")
            else:
                etree.SubElement(e, "b").text = "new"
        out.append({"kind": "wide", "left": xml(L), "right": xml(R), "cfg": {"normalize": WS_NONE, "replace": rng.random() < .3, "tt": [], "fmt": []},
                    "opts": rng.choice([{}, {"fast_match": True}]), "late": False})
    return out


def gen_lines(rng, n):
    """long multi-line text nodes and tails (more than 100 characters on both sides: diff_lineMode), in which
    several separate groups of lines change at once"""
    def listing(k):
        return ["row %d: %s\n" % (i, " ".join(rng.choice(LWORDS) for _ in range(4))) for i in range(k)]

    def wrap_text(lines):
        return "<doc><title>Listing</title><pre>%s</pre><note>end</note></doc>" % "".join(lines)

    def wrap_tail(lines):
        return "<doc><head/>%s<foot/></doc>" % "".join(lines)
    out = []
    base = listing(16)
    edit = list(base)
    del edit[1]
    edit[7] = "changed 8 two two\n"
    del edit[13]
    fixed = [(wrap_text(base), wrap_text(edit), False), (wrap_tail(base), wrap_tail(edit), False),
             (wrap_text(base), wrap_text(edit), True)]
    for l, r, rep in fixed:
        out.append({"kind": "lines", "left": l, "right": r,
                    "cfg": {"normalize": WS_NONE, "replace": rep, "tt": [], "fmt": []}, "opts": {}, "late": False})
    for _ in range(n):
        lines = listing(rng.randint(12, 18))
        new = list(lines)
        for _ in range(rng.randint(2, 5)):
            k = rng.choice(["del", "rew", "ins"])
            i = rng.randrange(len(new))
            if k == "del" and len(new) > 8:
                del new[i]
            elif k == "rew":
                new[i] = "changed %d %s\n" % (i, rng.choice(LWORDS))
            else:
                new.insert(i, "new %s\n" % rng.choice(LWORDS))
        w = wrap_text if rng.random() < 0.6 else wrap_tail
        out.append({"kind": "lines", "left": w(lines), "right": w(new),
                    "cfg": {"normalize": rng.choice([WS_NONE, WS_NONE, WS_TEXT]), "replace": rng.random() < 0.3, "tt": [], "fmt": []},
                    "opts": {}, "late": rng.random() < 0.2})
    # text tags: the long listing is the content of a text tag, with a formatting element that spans several lines on the
    # left (opening in a line that is deleted, closing in a line that is replaced) and sits inside one line on the right
    for _ in range(max(3, n // 2)):
        lines = listing(rng.randint(12, 18))
        i = rng.randrange(1, len(lines) - 6)
        j = i + rng.randint(2, 4)
        left = list(lines)
        left[i] = "gone %d <b>%s\n" % (i, rng.choice(LWORDS))
        left[j] = left[j].rstrip("\n") + "</b>\n"
        new = [x for k, x in enumerate(lines) if k != i]
        new[j - 1] = "<b>changed %d</b> %s\n" % (j, rng.choice(LWORDS))
        for _ in range(rng.randint(0, 2)):
            k = rng.randrange(j + 1, len(new))
            new[k] = "changed %d %s\n" % (k, rng.choice(LWORDS))
        out.append({"kind": "lines", "left": wrap_text(left), "right": wrap_text(new),
                    "cfg": {"normalize": WS_NONE, "replace": False, "tt": ["pre"], "fmt": ["b"]}, "opts": {}, "late": False})
    return out


def gen_inputs(run, rng):
    quick = run.tier == "quick"
    cases = gen_exhaustive(3 if quick else 4)
    nexh = len(cases)
    cases += gen_known()
    cases += gen_reserved()
    cases += gen_twopfx()
    cases += gen_owndiff()
    cases += gen_ttcomments()
    cases += gen_labelled()
    cases += gen_texts(rng, quick)
    cases += gen_prefixes(rng, 30 if quick else 300)
    cases += gen_lines(rng, 40 if quick else 200)
    cases += gen_wide(rng, 12 if quick else 150)
    cases += gen_dmptexts(rng, 150 if quick else 1500, 16 if quick else 120)
    cases += gen_struct(rng, 500 if quick else 5000)
    cases += gen_texttags(rng, 500 if quick else 5000)
    cases += gen_subattrs(rng, 60 if quick else 600)
    cases += gen_perms()
    cases += gen_emptyvals()
    cases += gen_defaultns()
    cases += gen_nestedfmt()
    cases += gen_wsonly(rng, 40 if quick else 300)
    cases += gen_latectr(rng, 80 if quick else 800)
    cases += gen_sibshift(rng, 40 if quick else 300)
    # scripts that do not fit the tree (error paths of _xpath and of the attribute handlers)
    mut = gen_struct(rng, 120 if quick else 1200)
    for i, c in enumerate(mut):
        c["kind"] = "mutated"; c["mutate"] = rng.randrange(1 << 30)
    cases += mut
    return cases, nexh


# ----------------------------------------------------------------------------
# one parsed left tree diffed against several revisions (format() must not write into the caller's tree)

SEQ_FIXED = [
    ("<r><a>one</a><b/></r>", ["<r><a>two</a><b/></r>", "<r><a>one</a><b/><c/></r>", "<r><b/><a>one</a></r>"]),
    ('<doc><p k="1">x y</p><q/></doc>', ['<doc><p k="2">x y</p><q/></doc>', '<doc><q/><p k="1">x y z</p></doc>']),
    ("<r><a><b>t</b></a><c/></r>", ["<r><a/><c><b>t</b></c></r>", "<r><a><b>u</b></a></r>", "<r><a><b>t</b><d/></a><c/></r>"]),
]


def run_sequence(left, rights):
    """parse `left` ONCE and diff that tree object against every right document in turn through main.diff_trees with a
    fresh XMLFormatter() (no text tags: with text tags prepare() rewrites the caller's tree by design); every diff must
    complete and equal the diff obtained from a freshly parsed left.  Returns a description of the first difference."""
    from xmldiff import main as xm, formatting as F

    def one(L, r):
        try:
            return xm.diff_trees(L, etree.fromstring(r), formatter=F.XMLFormatter())
        except Exception as ex:  # noqa
            return "EXC %s: %s" % (type(ex).__name__, str(ex)[:120])
    refs = [one(etree.fromstring(left), r) for r in rights]
    if any(x.startswith("EXC ") for x in refs):
        return None     # the single diff fails already: the per-input oracle's business
    L = etree.fromstring(left)
    for i, r in enumerate(rights):
        got = one(L, r)
        if got != refs[i]:
            return ("diff no. %d of ONE parsed left tree against successive right documents differs from the diff of a freshly parsed "
                    "left tree (format() wrote into the caller's tree?): got %s, expected %s" % (i + 1, got[:300], refs[i][:300]))
    return None


def gen_sequences(rng, n):
    out = [(l, list(rs)) for l, rs in SEQ_FIXED]
    for _ in range(n):
        L = gen.gen_tree(rng, rng.randint(2, 7), ns=False, comments=False)
        rights = [xml(gen.mutate_tree(rng, L)) for _ in range(rng.randint(2, 3))]
        out.append((xml(L), rights))
    return out


CHAIN_CFGS = [dict(text_tags=("p",), formatting_tags=("b", "i")), dict(text_tags=("p", "q"), formatting_tags=("b",), normalize=3),
              dict(text_tags=("p",)), dict(text_tags=("p",), formatting_tags=("b", "i", "u"), pretty_print=False)]
CHAIN_FIXED = [
    ["<doc><p>The <b>quick</b> brown fox jumps over the lazy dog.</p></doc>",
     "<doc><p>The <b>quick</b> brown <i>fox</i> jumps over the <u>lazy</u> dog <img src='dog.png'/>.</p></doc>",
     "<doc><p>The quick brown fox jumps over the lazy dog.</p></doc>",
     "<doc><p>The quick brown fox jumped over the <b>lazy</b> dog.</p></doc>"],
    ["<doc><p>one<br/>two <ref>4</ref> x</p><p>same<br/></p></doc>", "<doc><p>one<br/>two <ref>5</ref> x</p><p>same<br/></p><p>new<br/></p></doc>",
     "<doc><p>one two <ref>5</ref> x<br/></p></doc>"],
]


def gen_chain(rng):
    def doc():
        root = etree.Element("doc")
        for _ in range(rng.randint(1, 3)):
            p = etree.SubElement(root, rng.choice(["p", "q", "s"]))
            p.text = rng.choice(["The quick ", "x ", "", "lazy dog "])
            for _ in range(rng.randint(0, 3)):
                c = etree.SubElement(p, rng.choice(["b", "i", "img", "br"]))
                if c.tag in ("b", "i") and rng.random() < .8:
                    c.text = rng.choice(["quick", "fox", "z"])
                c.tail = rng.choice([" brown ", " jumps", "", " over"])
        return xml(root)
    return [doc() for _ in range(rng.randint(3, 4))]


def run_chain(revs, cfg, star=False, proj=None):
    """ONE XMLFormatter with text tags (its placeholder table persists, and prepare() rewrites the caller's trees) used
    along a chain of revisions v1->v2->v3 (or v1->v2, v1->v3 with star) of trees that are parsed ONCE: every result must
    equal what a new formatter gives for freshly parsed documents (so it is as well formed and placeholder free)."""
    from xmldiff import main as xm, formatting as F

    def one(L, R, f):
        try:
            return xm.diff_trees(L, R, formatter=f)
        except Exception as ex:  # noqa
            return "EXC %s: %s" % (type(ex).__name__, str(ex)[:120])
    f = F.XMLFormatter(**cfg)
    trees = [etree.fromstring(r) for r in revs]
    for k in range(len(revs) - 1):
        a = 0 if star else k
        ref = one(etree.fromstring(revs[a]), etree.fromstring(revs[k + 1]), F.XMLFormatter(**cfg))
        if ref.startswith("EXC "):
            return None
        got = one(trees[a], trees[k + 1], f)
        if proj is not None:
            # C09 / C10 on what the REUSED formatter returned (judged only where a new formatter's output passes, so
            # that recorded findings of single calls are not reported a second time here)
            icfg = {"normalize": cfg.get("normalize", WS_NONE), "replace": bool(cfg.get("use_replace")),
                    "tt": list(cfg.get("text_tags", ())), "fmt": list(cfg.get("formatting_tags", ()))}
            def verdict(out):
                if out.startswith("EXC "):
                    return "raised " + out[4:]
                return oracle_proj({"left": revs[a], "right": revs[k + 1], "cfg": icfg, "out_str": out}, proj)[0]
            if verdict(ref) is None:
                w = verdict(got)
                if w:
                    return ("diff no. %d along a chain of revisions with ONE XMLFormatter(%r) on trees parsed once: %s"
                            % (k + 1, cfg, w[:600]))
            continue
        if got != ref:
            return ("diff no. %d along a chain of revisions with ONE XMLFormatter(%r) on trees parsed once differs from a new formatter on "
                    "freshly parsed documents: got %s, expected %s" % (k + 1, cfg, got[:300], ref[:300]))
    return None


def check_sequences(run, rng, proj=None):
    quick = run.tier == "quick"
    seqs = gen_sequences(rng, 60 if quick else 600)
    viols = []
    for l, rs in ([] if proj else seqs):
        why = run_sequence(l, rs)
        if why:
            viols.append({"what": why, "replay": {"kind": "sequence", "left": l, "right": rs[0], "rights": rs, "finding_key": None}})
    chains = [list(c) for c in CHAIN_FIXED] + [gen_chain(rng) for _ in range(60 if quick else 600)]
    for i, revs in enumerate(chains):
        for cfg in (CHAIN_CFGS if i < len(CHAIN_FIXED) else [rng.choice(CHAIN_CFGS)]):
            for star in (False, True):
                why = run_chain(revs, cfg, star, proj)
                if why:
                    viols.append({"what": why, "replay": {"kind": "chain", "proj": proj, "left": revs[0], "right": revs[1], "revisions": revs,
                                                          "cfg": {k: (list(v) if isinstance(v, tuple) else v) for k, v in cfg.items()},
                                                          "star": star, "finding_key": None}})
    return len(seqs) + 2 * len(chains), viols


# ----------------------------------------------------------------------------
# driver

def describe(c):
    d = {k: c[k] for k in ("kind", "left", "right", "cfg", "opts", "late", "mutate") if k in c}
    if "script" in c:
        d["script"] = [repr(a) for a in c["script"]]
    d["impl"] = c.get("exc") or c.get("out_str")
    return d


ORACLES = {"C08": oracle_C08, "C09": oracle_C09, "C10": oracle_C10}


def main(run, focus):
    rng = random.Random(run.seed)
    ok, pinfo = lib.proof_stage(run, focus)
    run.log("proof stage:", "ok" if ok else "BROKEN %s" % pinfo.get("failed"))
    cases, nexh = gen_inputs(run, rng)
    for c in cases:
        run_impl(c)
    pis = [run_pi(c) for c in gen_pi()] if focus == "C08" else []
    run.log("implementation evaluated on %d inputs" % (len(cases) + len(pis)))
    orc = ORACLES[focus]
    viols, judged = [], 0
    for c in cases:
        if not c.get("supported") or "script" not in c or c["kind"] == "mutated":
            continue
        if focus != "C08" and diffns_in_input(c):
            continue        # C09 / C10 speak of unmarked input documents (marked inputs: C08 finding diff-namespace-in-input)
        judged += 1
        why, key = orc(c)
        if why:
            rp = describe(c)
            rp["finding_key"] = key
            viols.append({"what": why, "replay": rp})
    for c in pis:
        judged += 1
        why, key = orc(c)
        if why:
            rp = describe(c)
            rp["finding_key"] = key
            viols.append({"what": why, "replay": rp})
    nseq = 0
    if focus == "C08":
        nseq, sv = check_sequences(run, random.Random(run.seed + 11))
        viols += sv
        run.log("one parsed left tree diffed against 2-3 revisions in sequence: %d sequences, %d differ" % (nseq, len(sv)))
    else:
        nseq, sv = check_sequences(run, random.Random(run.seed + 11), "accept" if focus == "C09" else "reject")
        viols += sv
        run.log("one formatter along chains of revisions of trees parsed once, %s projection: %d chains, %d fail" % (
            "accept" if focus == "C09" else "reject", nseq, len(sv)))
    # report the unexplained ones first, then one representative per known key
    viols.sort(key=lambda v: (v["replay"]["finding_key"] is not None, len(v["replay"]["left"]) + len(v["replay"]["right"])))
    nknown = sum(1 for v in viols if v["replay"]["finding_key"])
    firsts, seen = [], set()
    for v in viols:
        k = v["replay"]["finding_key"]
        if k is None or k not in seen:
            firsts.append(v); seen.add(k)
    idx = [i for i, c in enumerate(cases) if modelable(c)]
    bad, log = [], ""
    if pinfo.get("build_ok"):
        cname = "%s%s%d" % (focus, run.tier[0], os.getpid())
        try:
            b, log = lib.run_cases(cname, PRE, [coq_case(cases[i]) for i in idx], chunk=max(40, len(idx) // 40 + 1))
        finally:
            for f in os.listdir(lib.CASES):
                if f.startswith(cname + "_") or f.startswith("." + cname + "_"):
                    try:
                        os.unlink(os.path.join(lib.CASES, f))
                    except OSError:
                        pass
        bad = [idx[i] for i in b]
    # premises (run_ok) and statements (C09 / C10) evaluated on the model, configurations without text tags
    idx2 = [i for i in idx if not cases[i]["cfg"]["tt"] and cases[i]["kind"] not in ("mutated", "known", "diffns") and "out" in cases[i]
            and not diffns_in_input(cases[i])
            and not has_comment_tail(cases[i]["left"], cases[i]["right"])]
    bad2, log2 = [], ""
    if pinfo.get("build_ok"):
        cname2 = "%sp%s%d" % (focus, run.tier[0], os.getpid())
        try:
            b2, log2 = lib.run_cases(cname2, PRE2, [coq_case(cases[i]) for i in idx2], chunk=max(40, len(idx2) // 40 + 1))
        finally:
            for f in os.listdir(lib.CASES):
                if f.startswith(cname2 + "_") or f.startswith("." + cname2 + "_"):
                    try:
                        os.unlink(os.path.join(lib.CASES, f))
                    except OSError:
                        pass
        bad2 = [idx2[i] for i in b2]
    idx3 = [i for i in idx2 if attrs_simple(cases[i])]
    bad3, log3 = [], ""
    if pinfo.get("build_ok") and focus == "C10":
        cname3 = "%sq%s%d" % (focus, run.tier[0], os.getpid())
        try:
            b3, log3 = lib.run_cases(cname3, PRE3, [coq_case(cases[i]) for i in idx3], chunk=max(40, len(idx3) // 40 + 1))
        finally:
            for f in os.listdir(lib.CASES):
                if f.startswith(cname3 + "_") or f.startswith("." + cname3 + "_"):
                    try:
                        os.unlink(os.path.join(lib.CASES, f))
                    except OSError:
                        pass
        bad3 = [idx3[i] for i in b3]
    idx4 = [i for i in idx if cases[i]["cfg"]["tt"] and not cases[i]["cfg"]["replace"] and cases[i]["kind"] not in ("mutated", "known")
            and any(type(a).__name__ == "UpdateTextIn" for a in cases[i].get("script", []))]
    bad4, log4 = [], ""
    if pinfo.get("build_ok") and focus in ("C09", "C10"):
        cname4 = "%sf%s%d" % (focus, run.tier[0], os.getpid())
        try:
            b4, log4 = lib.run_cases(cname4, PRE4, [coq_case(cases[i]) for i in idx4], chunk=max(40, len(idx4) // 40 + 1))
        finally:
            for f in os.listdir(lib.CASES):
                if f.startswith(cname4 + "_") or f.startswith("." + cname4 + "_"):
                    try:
                        os.unlink(os.path.join(lib.CASES, f))
                    except OSError:
                        pass
        bad4 = [idx4[i] for i in b4]
    idx5 = [i for i, c in enumerate(cases) if c.get("supported") and "out" in c and "out_str" in c and c["kind"] != "reserved"
            and in_render_fragment(c)]
    bad5, log5 = [], ""
    if pinfo.get("build_ok") and focus == "C08":
        cname5 = "%sr%s%d" % (focus, run.tier[0], os.getpid())
        try:
            rrows = gen_render_rows(random.Random(run.seed + 3), 300 if run.tier == "quick" else 6000)
            if etree.tounicode(etree.fromstring(RENDER_EXAMPLE)) != RENDER_EXAMPLE:
                rrows.append((xcanon(etree.Element("lxml-does-not-print-the-example-of-C08_render-as-stated")), ""))
            terms = ["(%s, %s)" % (cx(cases[i]["out"]), cs(cases[i]["out_str"])) for i in idx5] + \
                    ["(%s, %s)" % (cx(t), cs(x)) for t, x in rrows]
            b5, log5 = lib.run_cases(cname5, PRE5, terms, chunk=max(40, len(terms) // 40 + 1))
            for j in [j for j in b5 if j >= len(idx5)][:3]:
                run.log("  printed-string disagreement on a generated tree:", json.dumps(rrows[j - len(idx5)])[:500])
            nrr = len(rrows)
            b5 = [j if j < len(idx5) else 0 for j in b5]      # generated rows: reported against the first case
            if b5 and not idx5:
                idx5 = [0]
        finally:
            for f in os.listdir(lib.CASES):
                if f.startswith(cname5 + "_") or f.startswith("." + cname5 + "_"):
                    try:
                        os.unlink(os.path.join(lib.CASES, f))
                    except OSError:
                        pass
        bad5 = [idx5[i] for i in b5]
        run.log("printed string: XV.SerializeDoc.render = the implementation's string, fragment dnode_ok, parse reads it back: "
                "%d formatter outputs + %d generated trees with awkward character data, %d failures" % (len(idx5), nrr, len(bad5)))
    run.log("premises/statements on the model: %d cases, %d failures; attribute premise: %d cases, %d failures; "
            "text-tag updates (premises + flattened readings): %d cases, %d failures"
            % (len(idx2), len(bad2), len(idx3) if focus == "C10" else 0, len(bad3),
               len(idx4) if focus in ("C09", "C10") else 0, len(bad4)))
    run.log("correspondence: %d cases (%d inputs outside the model or without a script), %d disagreements; "
            "oracle %s: %d inputs judged, %d violations (%d under a recorded finding)"
            % (len(idx), len(cases) - len(idx), len(bad), focus, judged, len(viols), nknown))
    corr = [{"name": "XMLFormatter.prepare + format (every handler, _xpath, _make_diff_tags, finalize) vs XV.XmlFmt",
             "cases": len(idx), "bad": bad, "log": log, "describe": lambda i: describe(cases[i])},
            {"name": "TESTED premise run_ok (text updated once, renamed once, plain action strings, room for the diff:replace "
                     "openers with use_replace) and the statements of C09 "
                     "(accept T ~ prepared right) / C10 (reject T ~r prepared left, attributes included) evaluated on the "
                     "model's output, configurations without text tags",
             "cases": len(idx2), "bad": bad2, "log": log2, "describe": lambda i: describe(cases[i])}]
    if focus == "C08":
        corr.append({"name": "XMLFormatter.render (etree.tounicode after cleanup_namespaces, pretty_print=False) vs XV.SerializeDoc.render, "
                             "with the premise dnode_ok and the conclusion of C08_render_parses evaluated, on the implementation's result trees "
                             "that use no namespace but diff",
                     "cases": len(idx5), "bad": bad5, "log": log5, "describe": lambda i: describe(cases[i])})
    if focus == "C10":
        corr.append({"name": "TESTED premise run_ok_attr of C10_reject_attrs_partial (a name is touched by one attribute action per "
                             "node, no overwriting insert/rename) on documents without namespaced attributes",
                     "cases": len(idx3), "bad": bad3, "log": log3, "describe": lambda i: describe(cases[i])})

    if focus in ("C09", "C10"):
        corr.append({"name": "TESTED premises of %s_texttag_update_flat_partial (minv, binv, capart, wf_cls, txt_ok: the maker and the "
                             "strings prepare() builds; room) and its conclusion (both flattened readings), at every UpdateTextIn "
                             "of the model's run on text-tag configurations without use_replace" % focus,
                     "cases": len(idx4), "bad": bad4, "log": log4, "describe": lambda i: describe(cases[i])})

    def deeper():
        r2 = random.Random(run.seed + 7)
        out = []
        for c in gen_struct(r2, 3000) + gen_texttags(r2, 3000):
            run_impl(c)
            if not c.get("supported") or "script" not in c:
                continue
            why, key = orc(c)
            if why:
                rp = describe(c); rp["finding_key"] = key
                out.append({"what": why, "replay": rp})
        out.sort(key=lambda v: (v["replay"]["finding_key"] is not None, len(v["replay"]["left"]) + len(v["replay"]["right"])))
        return out

    kinds, excs, acts = {}, {}, {}
    for c in cases:
        kinds[c["kind"]] = kinds.get(c["kind"], 0) + 1
        if "exc" in c:
            excs[c["exc"]] = excs.get(c["exc"], 0) + 1
        for a in c.get("script", []):
            acts[type(a).__name__] = acts.get(type(a).__name__, 0) + 1
    nontriv = {json.dumps([c["left"], c["right"], c["cfg"], c.get("mutate")], sort_keys=True)
               for i, c in enumerate(cases) if i in set(idx) and c.get("script")}
    run.coverage.update({
        "evaluations": len(idx),
        "distinct_nontrivial": len(nontriv),
        "rule": "every pair of element trees with <= %d nodes over tags {a,b} under the default configuration [%d, exhaustive]; "
                "small documents whose text and tail run over critical strings (None, blanks, shared prefixes/suffixes) under all "
                "normalize x use_replace settings; seeded document pairs (<= 8 nodes; attributes, texts, tails, comments with tails, "
                "namespaces declared on the root) with random normalize/use_replace and random Differ options; documents that bind "
                "the formatter's own prefix `diff` to a namespace of their own; long multi-line texts and tails (> 100 "
                "characters: diff_lineMode) with several groups of changed lines; seeded mixed-content "
                "documents (tags %s) with random text_tags/formatting_tags subsets; text-tag documents with non-formatting embedded "
                "elements that differ between left and right ONLY in white space (content / attribute values), white space significant; "
                "documents with several same-tag sibling sections where an earlier section moves into a later one between inserts into "
                "several of them (the same target path string denotes different parents along the script); the differ's scripts mutated (wrong paths, "
                "positions, attribute names) for the error paths; xml:id (unique per document) on a share of the seeded documents; labelled "
                "streams of inputs under the recorded findings (incl. xml:id on moved / deleted elements, diff-namespace marks in the input); "
                "for C08: one parsed left tree diffed against 2-3 revisions in sequence with fresh formatters, each diff compared with "
                "the diff of a freshly parsed left tree.  DMP clock: "
                "never late, or late at every test.  Compared exactly: both prepared trees (attribute order, None vs ''), the output "
                "tree before serialisation or the exception class.  non-trivial = distinct input with a non-empty script"
                % (3 if run.tier == "quick" else 4, nexh, TT_TAGS),
        "exhaustive_small_scope": nexh,
        "outside_model": len(cases) - len(idx),
        "oracle_inputs_judged": judged,
        "oracle_violations_under_recorded_findings": nknown,
        "input_distribution": {"kind->count": kinds, "format() exceptions (impl)": excs, "actions handled": acts},
        "samples": [describe(cases[i]) for i in idx[nexh + 20:nexh + 23]],
    })
    run.assumptions = [
        "namespaces are declared on the root element or bound by InsertNamespace, one URI per prefix (Clark names in the model; "
        "etree.cleanup_namespaces is invisible in that form)",
        "no comments / processing instructions outside the root element; no processing instructions at all",
        "C09 / C10: the input documents carry no element or attribute of the diff namespace (for such inputs 'every marked change' "
        "would include the documents' own marks); they are judged by C08 only (open finding diff-namespace-in-input)",
        "no document binds a prefix of the form ns<k> (lxml's own): such inputs are the open finding reserved-ns-prefix-on-root, "
        "run as a labelled stream outside the model",
        "serialisation and re-parsing of the output are lxml's: well-formedness of the printed string is TESTED by re-parsing (oracle), not proved",
        "DMP wall clock and str.isalnum/isspace are oracles of the model; the harness scripts the clock and passes the actual character classes",
        "no Python recursion limit (undo_tree runs on explicit fuel in the model)",
        "READING of 'the flattened content of every text tag' used by the accept/reject oracles (project/stream; Projections.v header): "
        "an element that goes takes the text region after it along (its tail and the diff: wrappers up to the next element) iff its "
        "parent is NOT a text tag on the side the element comes from -- accept drops an element marked deleted with its tail region iff "
        "the parent's OLD tag (diff:rename, else its tag) is not a text tag; reject drops an element marked inserted with its tail region "
        "iff the parent's NEW tag is not a text tag; inside a flattened text run an element is one character of the run.  "
        "deleted-formatting (accept) / inserted-formatting (reject) elements are unwrapped; a text tag (new tag for accept, old tag for "
        "reject) is compared by its flattened content (characters and non-formatting child elements as atoms, formatting boundaries "
        "erased), everything else exactly.  Documented sample of the LITERAL rule failing: <p>a<img/>b</p> vs <q>ab</q>, text_tags=p "
        "prints <q diff:rename=\"p\">a<img diff:delete=\"\"/>b</q>, whose literal acceptance is <q>a</q>",
        "theorem premises that are TESTED, not proved: run_ok (each text/tail is updated at most once, a node renamed at most once, "
        "plain action strings; with use_replace: a free private-use code point per character of every new text) is evaluated by "
        "run_okb on every generated script without text tags, use_replace or not (second correspondence component)",
    ]
    lib.conclude(run, ok, pinfo, corr, firsts, deeper)


def replay(run, path, focus):
    d = json.load(open(path))
    if "left" not in d:
        print("replay names a broken tie, not an input:", d.get("broken"))
        return 1
    if d.get("kind") == "sequence":
        why = run_sequence(d["left"], d["rights"])
        print("->", why or "property holds on this sequence")
        return 1 if why else 0
    if d.get("kind") == "chain":
        cfg = {k: (tuple(v) if isinstance(v, list) else v) for k, v in d["cfg"].items()}
        why = run_chain(d["revisions"], cfg, d.get("star", False), d.get("proj"))
        print("->", why or "property holds on this chain")
        return 1 if why else 0
    c = {k: d[k] for k in ("kind", "left", "right", "cfg", "opts", "late", "mutate") if k in d}
    c.setdefault("cfg", {"normalize": WS_NONE, "replace": False, "tt": [], "fmt": []})
    c.setdefault("kind", "replay"); c.setdefault("late", False)
    if c["kind"] == "pi":
        run_pi(c)
        why = ORACLES[focus](c)[0]
        print("impl:", c.get("exc") or c.get("out_str"))
        print("->", why or "property holds on this input")
        return 1 if why else 0
    run_impl(c)
    print("script:", [repr(a) for a in c.get("script", [])])
    print("impl:", c.get("exc") or c.get("out_str"))
    why = ORACLES[focus](c)[0] if "script" in c else None
    print("->", why or "property holds on this input")
    return 1 if why else 0
