import argparse, importlib, os, sys, traceback
from harness import lib


def main():
    ap = argparse.ArgumentParser()
    ap.add_argument("pid")
    ap.add_argument("--tier", default=os.environ.get("VERIF_TIER", "quick"), choices=["quick", "thorough"])
    ap.add_argument("--replay")
    a = ap.parse_args()
    seed = int(os.environ.get("VERIF_SEED", "20260929"))
    mod = importlib.import_module("harness.props." + a.pid)
    run = lib.Run(a.pid, a.tier, seed)
    if a.replay:
        sys.exit(mod.replay(run, a.replay))
    try:
        mod.main(run)
    except Exception:
        tb = traceback.format_exc()
        print(tb)
        run.violation("check crashed: " + tb.splitlines()[-1], {"traceback": tb}, no_input=True)
    sys.exit(run.finish())


if __name__ == "__main__":
    main()
