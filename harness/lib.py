"""Shared machinery for the xmldiff verification checks.

Everything here runs under /venv/bin/python with PYTHONPATH=/repo so that the
implementation under test is /repo's *current working tree*.
"""
import fcntl
import json
import os
import re
import subprocess
import sys
import time
from concurrent.futures import ThreadPoolExecutor

VERIF = os.path.dirname(os.path.dirname(os.path.abspath(__file__)))
COQ = os.path.join(VERIF, "coq")
CASES = os.path.join(COQ, "cases")
REPO = os.environ.get("XMLDIFF_REPO", "/repo")
EVID = os.path.join(VERIF, "evidence")
REPLAYS = os.path.join(VERIF, "replays")
NCPU = min(16, os.cpu_count() or 4)

FORBIDDEN = re.compile(
    r"\b(Admitted|admit|Axiom|Axioms|Parameter|Parameters|Conjecture|Conjectures|"
    r"Admit Obligations|bypass_check|native_compute)\b|Unset Guard|Unset Positivity|"
    r"Unset Universe|type-in-type|impredicative-set"
)

# Axioms of the standard library that a theorem may depend on; each is named in
# DESIGN.md section 7 (trusted base).  Anything else fails the check closed.
ALLOWED_AXIOMS = {
    "functional_extensionality_dep",
    "FunctionalExtensionality.functional_extensionality_dep",
}


def sh(cmd, timeout=600, cwd=None, env=None):
    e = dict(os.environ)
    e.setdefault("PYTHONHASHSEED", "0")
    if env:
        e.update(env)
    try:
        p = subprocess.run(cmd, shell=isinstance(cmd, str), cwd=cwd, env=e, timeout=timeout,
                           stdout=subprocess.PIPE, stderr=subprocess.STDOUT, text=True)
        return p.returncode, p.stdout
    except subprocess.TimeoutExpired as ex:
        out = ex.stdout or ""
        if isinstance(out, bytes):
            out = out.decode("utf8", "replace")
        return 124, out + "\n[timeout after %ss]" % timeout


class BuildResult:
    def __init__(self, ok, log, failed_file=None, stage=""):
        self.ok, self.log, self.failed_file, self.stage = ok, log, failed_file, stage


# Which properties are tied to the code THROUGH which translator target (DESIGN.md section 4).  A target that no longer
# translates breaks the tie of exactly these properties; for every other property the development is built with the
# recorded reference tables of that target (translator/reference/), which its theorems do not speak about.
#   TextTables  : actions.py, DiffFormatter, DiffParser            (text script format)
#   PatcherProg : Patcher._handle_* as DSL programs, Patcher.patch / nsmap / handle_action pinned
#   xl_main     : main.py entirely, formatter constructors / WS_* flags  (Gen/Flags, CliPlumbing, EntryPoints);
#                 sub-target xl_main.flags: the WS_TEXT branch of XMLFormatter._make_diff_tags (in Gen/Flags only)
#   xl_state    : state handling of Differ (clear, set_trees, match prologue, diff guard, set loops), Patcher.patch,
#                 the formatters' format() and main.diff_trees / patch_tree   (Gen/StateShape)
TIED_THROUGH = {
    "TextTables": {"C02", "C15"},
    "PatcherProg": {"C01", "C02", "C04", "C05", "C06", "C18"},
    "xl_main": {"C02", "C13", "C14", "C15"},
    "xl_main.flags": {"C09", "C10", "C14"},      # the WS_TEXT branch of XMLFormatter._make_diff_tags (text normalisation)
    # only C06's theorems are stated over Gen/StateShape (DifferState*.v); the differ properties C01, C03, C05, C07,
    # C13, C17 are tied to Differ.match / Differ.diff by the exact correspondence of matching and script and by the
    # comparison with main.diff_trees, so a behaviour-preserving rewrite of the state handling does not break THEIR tie
    "xl_state": {"C06"},
}
LAST_TRANSLATION = {"failed": {}}


def regenerate():
    """Run the translator: /repo sources -> coq/theories/Gen/*.v (fail closed, per target).
    Returns (usable, log): usable = every generated file exists (translated now, or the recorded reference of a target
    that failed); the failed targets are left in LAST_TRANSLATION["failed"] (name -> message)."""
    tr = os.path.join(VERIF, "translator", "xlate.py")
    LAST_TRANSLATION["failed"] = {}
    if not os.path.exists(tr):
        return True, ""
    gen = os.path.join(COQ, "theories", "Gen")
    rc, out = sh([sys.executable, tr, REPO, gen], timeout=120)
    if rc == 3:
        try:
            st = json.load(open(os.path.join(gen, "status.json")))
            LAST_TRANSLATION["failed"] = {k: v for k, v in st.items() if v != "ok"}
        except Exception:  # noqa
            return False, out
        return True, out
    return rc == 0, out


def build(targets=None, timeout=1500):
    """Regenerate translated files and (incrementally) build the Coq development."""
    os.makedirs(CASES, exist_ok=True)
    lock = open(os.path.join(COQ, ".build.lock"), "w")
    fcntl.flock(lock, fcntl.LOCK_EX)
    try:
        ok, out = regenerate()
        if not ok:
            return BuildResult(False, out, "translator", "translate")
        mk, cp = os.path.join(COQ, "Makefile"), os.path.join(COQ, "_CoqProject")
        if not os.path.exists(mk) or os.path.getmtime(mk) < os.path.getmtime(cp):
            rc, o = sh("coq_makefile -f _CoqProject -o Makefile", cwd=COQ)
            if rc:
                return BuildResult(False, o, "_CoqProject", "coq_makefile")
        # build everything that builds (-k), then insist on the targets this check depends on:
        # a file of another property that does not compile must not break this property's check
        rc, o = sh("timeout %d make -k -j%d 2>&1" % (timeout, NCPU), cwd=COQ, timeout=timeout + 30)
        if rc and targets:
            rc, o2 = sh("timeout %d make -j%d %s 2>&1" % (timeout, NCPU, " ".join(targets)), cwd=COQ, timeout=timeout + 30)
            o = o2 if rc else o
        if rc:
            m = re.findall(r'File "\./?([^"]+\.v)"', o)
            return BuildResult(False, o[-6000:], m[-1] if m else None, "make")
        r = BuildResult(True, o[-2000:])
        r.failed_targets = dict(LAST_TRANSLATION["failed"])
        r.translator_log = out
        return r
    finally:
        fcntl.flock(lock, fcntl.LOCK_UN)
        lock.close()


def grep_forbidden():
    """No Admitted/Axiom/Parameter/... anywhere in the development."""
    hits = []
    listed = [l.strip() for l in open(os.path.join(COQ, "_CoqProject")) if l.strip().endswith(".v")]
    for rel in listed:
        if True:
            p = os.path.join(COQ, rel)
            if not os.path.exists(p):
                continue
            txt = open(p, encoding="utf8").read()
            # strip comments (non-nested is enough: we never nest them around code)
            txt2 = re.sub(r"\(\*.*?\*\)", " ", txt, flags=re.S)
            for m in FORBIDDEN.finditer(txt2):
                hits.append("%s: %s" % (os.path.relpath(p, COQ), m.group(0)))
    return hits


def check_property_file(pid):
    """Compile Properties/<pid>.v and every Properties/<pid>_*.v (supplementary property files,
    same rules) afresh and collect `Print Assumptions` output."""
    import glob
    files = [os.path.join(COQ, "theories", "Properties", pid + ".v")] + \
        sorted(glob.glob(os.path.join(COQ, "theories", "Properties", pid + "_*.v")))
    res = {"ok": True, "log": "", "theorems": [], "cmd": ""}
    for src in files:
        r = check_one_property_file(pid, src)
        res["ok"] = res["ok"] and r["ok"]
        res["log"] += r["log"] if not r["ok"] else ""
        res["theorems"] += r["theorems"]
        res["cmd"] = (res["cmd"] + "; " if res["cmd"] else "") + r["cmd"]
    return res


def check_one_property_file(pid, src):
    txt = open(src, encoding="utf8").read()
    names = re.findall(r"^\s*Print Assumptions\s+([A-Za-z0-9_']+)\s*\.", txt, flags=re.M)
    thm_names = re.findall(r"^\s*(?:Theorem|Corollary)\s+([A-Za-z0-9_']+)", txt, flags=re.M)
    rc, out = sh("timeout 600 coqc -Q theories XV %s 2>&1" %
                 os.path.relpath(src, COQ), cwd=COQ, timeout=630)
    res = {"ok": rc == 0, "log": out[-4000:], "theorems": [], "cmd":
           "coqc -Q theories XV %s (after make; Print Assumptions under every theorem)" % os.path.relpath(src, COQ)}
    if rc != 0:
        return res
    # Split output into blocks: each Print Assumptions prints either
    # "Closed under the global context" or "Axioms:\n name : type ..."
    blocks = re.split(r"(?=Closed under the global context|Axioms:|Section Variables:)", out)
    blocks = [b for b in blocks if b.startswith(("Closed under", "Axioms:", "Section Variables:"))]
    missing = [t for t in thm_names if t not in names]
    if missing:
        res["ok"] = False
        res["log"] += "\nTheorems without Print Assumptions: %s" % missing
    if len(blocks) != len(names):
        res["ok"] = False
        res["log"] += "\nCould not align Print Assumptions output (%d blocks, %d names)" % (len(blocks), len(names))
        return res
    for n, b in zip(names, blocks):
        axs = []
        if not b.startswith("Closed under"):
            axs = re.findall(r"^([A-Za-z0-9_.']+)\s*:", b, flags=re.M)
        bad = [a for a in axs if a.split(".")[-1] not in ALLOWED_AXIOMS and a not in ALLOWED_AXIOMS]
        m = re.search(r"(?:Theorem|Corollary)\s+%s\b(.*?)\.\s*\n\s*Proof" % re.escape(n), txt, flags=re.S)
        res["theorems"].append({"name": n, "statement": (n + (m.group(1) if m else "")).strip()[:1500],
                                "assumptions": "closed" if not axs else axs})
        if bad:
            res["ok"] = False
            res["log"] += "\nTheorem %s depends on non-allowed axioms %s" % (n, bad)
    return res


def coqchk(pid, timeout=1500):
    rc, out = sh("timeout %d coqchk -silent -o -Q theories XV XV.Properties.%s 2>&1" % (timeout, pid),
                 cwd=COQ, timeout=timeout + 30)
    return rc == 0, out[-3000:]


# ----------------------------------------------------------------------------
# Evaluating the model inside Coq on harness-generated cases


def coq_list(items):
    return "[" + "; ".join(items) + "]"


def coq_str(s):
    """Python str -> Gallina `list N` literal of code points."""
    if s is None:
        raise ValueError
    return "[" + ";".join("%d" % ord(c) for c in s) + "]%N"


def coq_ostr(s):
    return "None" if s is None else "(Some %s)" % coq_str(s)


def run_cases(name, preamble, cases, chunk=400, timeout=900):
    """cases: list of Gallina terms of type `case`; preamble must define
    `check : case -> bool` (true = model agrees with what the implementation did).
    Returns (list of failing indices, log)."""
    name = "%s_p%d" % (name.split("_p")[0], os.getpid())   # concurrent runs must not share case files
    chunks = [cases[i:i + chunk] for i in range(0, len(cases), chunk)] or [[]]
    files = []
    for k, ch in enumerate(chunks):
        fn = os.path.join(CASES, "%s_%d.v" % (name, k))
        with open(fn, "w") as f:
            f.write(preamble)
            f.write("\nDefinition the_cases : list case := [\n" + ";\n".join(ch) + "\n].\n")
            f.write("Definition bad_idx := map fst (filter (fun ic => negb (check (snd ic))) "
                    "(combine (seq 0 (length the_cases)) the_cases)).\n")
            f.write("Eval vm_compute in (length the_cases, bad_idx).\n")
        files.append(fn)

    def one(fn):
        return sh("ulimit -s unlimited 2>/dev/null; timeout %d coqc -Q theories XV -Q cases XVC %s 2>&1" %
                  (timeout, os.path.relpath(fn, COQ)), cwd=COQ, timeout=timeout + 30)
    bad, log = [], ""

    def read(k, rc, out):
        flat = " ".join(out.split()).replace("%nat", "")
        m = re.search(r"= \((\d+), \[([0-9; ]*)\]\)", flat)
        if rc != 0 or not m or int(m.group(1)) != len(chunks[k]):
            return None
        return [k * chunk + int(x) for x in m.group(2).split(";") if x.strip()]
    with ThreadPoolExecutor(NCPU) as ex:
        results = list(ex.map(one, files))
    for k, (rc, out) in enumerate(results):
        got = read(k, rc, out)
        tries = 0
        while got is None and tries < 2:
            # an evaluation that did not finish (time limit or memory on a loaded machine) says nothing about model and
            # code: the chunk is evaluated again, alone
            tries += 1
            rc, out = one(files[k])
            got = read(k, rc, out)
        if got is None:
            log += "\n[chunk %d] rc=%s (after %d more attempts)\n%s" % (k, rc, tries, out[-1500:])
            bad.extend(range(k * chunk, k * chunk + len(chunks[k])))
            continue
        bad.extend(got)
    for f in os.listdir(CASES):
        if f.startswith(name + "_") and not (log and f.endswith(".v")):
            try:
                os.unlink(os.path.join(CASES, f))
            except OSError:
                pass
    return bad, log


def coq_eval(name, preamble, term, timeout=300):
    """Evaluate one term with vm_compute; returns flattened printed output."""
    fn = os.path.join(CASES, "%s_eval.v" % name)
    with open(fn, "w") as f:
        f.write(preamble + "\nEval vm_compute in (%s).\n" % term)
    rc, out = sh("timeout %d coqc -Q theories XV %s 2>&1" % (timeout, os.path.relpath(fn, COQ)),
                 cwd=COQ, timeout=timeout + 30)
    for ext in (".vo", ".glob", ".vok", ".vos", ".aux"):
        try:
            os.unlink(fn[:-2] + ext)
        except OSError:
            pass
    return rc, " ".join(out.split())


# ----------------------------------------------------------------------------
# Known findings, violations, evidence


def load_known():
    p = os.path.join(VERIF, "known_findings.json")
    if not os.path.exists(p):
        return []
    return json.load(open(p)).get("findings", [])


class Run:
    """One invocation of ./check <pid> --tier t."""

    def __init__(self, pid, tier, seed):
        self.pid, self.tier, self.seed = pid, tier, seed
        self.t0 = time.time()
        self.violations = []      # list of (replay path, note)
        self.known_hits = []
        self.coverage = {"samples": []}
        self.assumptions = []
        self.level = "proof"
        self.notes = []
        os.makedirs(EVID, exist_ok=True)
        os.makedirs(REPLAYS, exist_ok=True)

    def log(self, *a):
        print("[%s %6.1fs]" % (self.pid, time.time() - self.t0), *a, flush=True)

    def violation(self, what, replay, no_input=False):
        """Report (unless it matches an open known finding).  `replay` is a
        JSON-serialisable object describing how to reproduce."""
        key = replay.get("finding_key") if isinstance(replay, dict) else None
        for k in load_known():
            if k.get("property") == self.pid and k.get("status") == "open" and key and k.get("key") == key:
                if key not in self.known_hits:
                    self.known_hits.append(key)
                    print("KNOWN-FINDING: property=%s %s" % (self.pid, k.get("what", key)), flush=True)
                return False
        n = len(self.violations)
        path = os.path.join(REPLAYS, "%s-%s-%d.json" % (self.pid, self.tier, n))
        replay = dict(replay)
        replay.update({"property": self.pid, "what": what, "seed": self.seed,
                       "no_failing_input_found": bool(no_input)})
        with open(path, "w") as f:
            json.dump(replay, f, indent=1, default=str)
        self.violations.append((path, what))
        print("VIOLATION property=%s replay=%s%s" % (self.pid, path, " no-failing-input-found" if no_input else ""),
              flush=True)
        self.log("  ->", what[:300])
        return True

    def finish(self):
        if self.level not in ("exploration", "fault_enumeration", "model_checking", "proof", "translation_validation", "other"):
            self.notes.append("level label given by the check: %r (schema category: proof)" % self.level)
            self.level = "proof"
        ev = {
            "property_id": self.pid, "tier": self.tier, "seed": self.seed, "level": self.level,
            "coverage": self.coverage, "assumptions": self.assumptions,
            "wall_s": round(time.time() - self.t0, 2), "violations": len(self.violations),
            "known_findings_matched": self.known_hits, "notes": self.notes,
        }
        with open(os.path.join(EVID, self.pid + ".json"), "w") as f:
            json.dump(ev, f, indent=1, default=str)
        self.log("done: %d violation(s), evidence written" % len(self.violations))
        return 1 if self.violations else 0


TRUSTED_BASE = [
    "Coq 8.16.1 kernel (coqc; vm_compute used for finite tables and case evaluation; no native_compute)",
    "Coq standard library and std++ 1.8.0 (axiom-free fragments used); Print Assumptions output recorded per theorem",
    "hand-written Gallina model tied to /repo by differential execution on this run (harness/*.py, generated cases evaluated with vm_compute)",
    "translator/xlate.py for the table-like code (fail-closed Python-ast reader)",
    "lxml/libxml2, CPython json/str/difflib/float behaviour are modelled at their interface, not verified",
]


def proof_stage(run, pid, extra_targets=()):
    """Build + property file + forbidden grep.  Returns (ok, info dict).  On
    failure the caller goes to the search stage."""
    import glob
    sup = [os.path.relpath(f, COQ)[:-2] + ".vo" for f in glob.glob(os.path.join(COQ, "theories", "Properties", pid + "_*.v"))]
    b = build(targets=["theories/Properties/%s.vo" % pid] + sup + list(extra_targets))
    info = {"build_ok": b.ok}
    if not b.ok:
        info.update({"failed": b.failed_file, "stage": b.stage, "log": b.log[-3000:]})
        return False, info
    ft = getattr(b, "failed_targets", {})
    if ft:
        run.notes.append("translator targets that no longer translate (recorded reference tables used instead): %s" % ft)
    mine = {t: m for t, m in ft.items() if pid in TIED_THROUGH.get(t, set())}
    if mine:
        # the development builds (reference tables), so the correspondence and the oracles still run; the tie of THIS
        # property is broken because the code it is tied through is no longer what the generated tables say
        info.update({"failed": "translator target " + ", ".join(sorted(mine)), "stage": "translate",
                     "log": "\n".join("%s: %s" % i for i in sorted(mine.items()))})
        return False, info
    hits = grep_forbidden()
    if hits:
        info.update({"failed": "forbidden-constructs", "log": "\n".join(hits)})
        return False, info
    r = check_property_file(pid)
    info["theorems"] = r["theorems"]
    info["checker_cmd"] = "cd coq && make -j16 && " + r["cmd"]
    if not r["ok"]:
        info.update({"failed": "Properties/%s.v" % pid, "log": r["log"]})
        return False, info
    if run.tier == "thorough":
        ok, out = coqchk(pid)
        info["coqchk"] = out[-1500:]
        if not ok:
            info.update({"failed": "coqchk", "log": out})
            return False, info
    return True, info


def conclude(run, proof_ok, pinfo, corr, oracle_violations, deeper_search=None, max_report=3):
    """The decision protocol of DESIGN.md section 5.

    corr: list of dict(name, cases, bad (indices), log, describe(i) -> replay dict)
    oracle_violations: list of dict(what, replay) found on the implementation.
    deeper_search: callable -> list of dict(what, replay); run only when a tie is broken
    and nothing has been found yet."""
    cov = run.coverage
    thms = pinfo.get("theorems", [])
    cov["obligations"] = len(thms) + (0 if proof_ok else 1)
    cov["discharged"] = len(thms) if proof_ok else 0
    cov["checker_cmd"] = pinfo.get("checker_cmd", "cd coq && make")
    cov["trusted_base"] = TRUSTED_BASE
    cov["theorems"] = thms
    cov["correspondence"] = [{"component": c["name"], "cases": c["cases"], "disagreements": len(c["bad"])} for c in corr]
    cov["traces_validated_against_impl"] = sum(c["cases"] for c in corr)
    if "coqchk" in pinfo:
        cov["coqchk"] = pinfo["coqchk"]
    reported = 0
    for v in oracle_violations:
        if reported >= max_report:
            break
        if run.violation(v["what"], v["replay"]):    # False when it matches an open known finding
            reported += 1
    broken = []
    if not proof_ok:
        broken.append("proof obligation: %s (%s)" % (pinfo.get("failed"), pinfo.get("stage", "")))
    for c in corr:
        if c["bad"]:
            broken.append("correspondence %s: %d of %d cases disagree" % (c["name"], len(c["bad"]), c["cases"]))
    if broken and not reported:
        found = deeper_search() if deeper_search else []
        for v in found:
            if reported >= max_report:
                break
            if run.violation(v["what"], v["replay"]):
                reported += 1
    if broken and not reported:
        rep = {"broken": broken, "proof_log": pinfo.get("log", "")[-3000:],
               "disagreeing_cases": [c["describe"](i) for c in corr for i in c["bad"][:3]],
               "correspondence_logs": [c["log"][-1500:] for c in corr if c["log"]]}
        run.violation("tie between model and code broken: " + "; ".join(broken), rep, no_input=True)
    elif broken:
        run.notes.append("tie broken: " + "; ".join(broken))
