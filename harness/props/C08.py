"""C08 -- see harness/xmlfmt_corr.py (shared by C08, C09, C10); model XV.XmlFmt, projections XV.Projections,
theorems coq/theories/Properties/C08.v."""
from harness import xmlfmt_corr


def main(run):
    xmlfmt_corr.main(run, "C08")


def replay(run, path):
    return xmlfmt_corr.replay(run, path, "C08")
