"""C06 -- diffing and patching are pure: inputs untouched, deterministic, no history.

PARTIAL PROOF.  Proved (coq/theories/Properties/C06.v): the object-level state
machines of Differ / Patcher / DiffFormatter / XmlDiffFormatter are history free
for calls that pass the documents, and the set loops of update_node_attr are
order independent.  This module

 (1) CORRESPONDENCE: runs random call sequences on ONE Differ / Patcher /
     DiffFormatter / XmlDiffFormatter instance and has Coq evaluate the model
     (XV.DifferState at the shape generated on this build) on the same sequences,
     instantiated with the implementation's own fresh-instance results as
     match_fn / script_fn / run_actions / ... tables; every call's result and the
     object's state afterwards must agree.

 (2) MONITORS (testing -- these parts cannot be stated about a pure functional
     model): inputs are not mutated; nothing leaks through lxml's process-global
     prefix registry or any other process state; hash-seed independence.

Known finding (recorded in known_findings.json, keys C06-global-prefix-registry
and C06-global-prefix-registry-patch): the prefix lxml gives a CREATED node whose
namespace URI is declared on neither root comes from etree.register_namespace's
global table.  Differences explained by exactly that predicate (and consisting of
nothing but a different prefix) are reported under those keys from a separate,
labelled stream; anything else is a VIOLATION.
"""
import json
import os
import random
import re
import sys
import tempfile
from concurrent.futures import ThreadPoolExecutor
from copy import deepcopy

from lxml import etree

from harness import lib, gen

XMLNS = "http://www.w3.org/XML/1998/namespace"
RESERVED = re.compile(r"ns\d+$", flags=re.ASCII)
KEY_SCRIPT = "C06-global-prefix-registry"
KEY_PATCH = "C06-global-prefix-registry-patch"
XMLNS_ID = "{%s}id" % XMLNS


# ----------------------------------------------------------------------------
# observation helpers


def X(s):
    return etree.fromstring(s)


def xml(e):
    return etree.tostring(e, with_tail=False).decode()


def call(f):
    try:
        return f()
    except Exception as ex:  # noqa
        return "exc:" + type(ex).__name__


def is_exc(v):
    return isinstance(v, str) and v.startswith("exc:")


def snap(e):
    """Everything observable about an lxml tree: serialisation of the whole document,
    and per node tag / text / tail / attribute ORDER / nsmap / prefix."""
    if e is None:
        return None
    root = e.getroot() if isinstance(e, etree._ElementTree) else e
    top = list(reversed(list(root.itersiblings(preceding=True)))) + [root] + list(root.itersiblings())
    nodes = []
    for t in top:
        for n in t.iter():
            el = isinstance(n.tag, str)
            nodes.append((n.tag if el else getattr(n.tag, "__name__", str(n.tag)), n.text, n.tail,
                          list(n.attrib.items()) if el else None, list(n.nsmap.items()), n.prefix))
    return (etree.tostring(root.getroottree()).decode(), nodes)


def snap_actions(acts):
    return (repr(acts), [type(a).__name__ for a in acts], [tuple(a) for a in acts], len(acts))


def infoset(e):
    """Prefix-free canonical form (Clark names, attribute order kept)."""
    if not isinstance(e.tag, str):
        return ("#" + getattr(e.tag, "__name__", "?"), e.text or "", e.tail or "")
    return (e.tag, tuple(e.attrib.items()), e.text or "", e.tail or "", tuple(infoset(c) for c in e))


def infoset_of_text(s):
    try:
        r = etree.fromstring(s)
    except Exception:  # noqa
        return None
    i = infoset(r)
    return i[:3] + ("",) + i[4:]


def struct(script):
    return [[type(a).__name__] + list(a) for a in script]


def unstruct(s):
    from xmldiff import actions as A
    return [getattr(A, a[0])(*a[1:]) for a in s]


# ----------------------------------------------------------------------------
# the known finding: predicate and normalisation


def created_uris(script_struct):
    """Namespace URIs of the nodes / attributes a script creates."""
    out = set()
    for a in script_struct:
        names = []
        if a[0] == "InsertNode":
            names.append(a[2])
        elif a[0] == "RenameNode":
            names.append(a[2])
        elif a[0] == "InsertAttrib":
            names.append(a[2])
        elif a[0] == "RenameAttrib":
            names.append(a[3])
        for n in names:
            if isinstance(n, str) and n.startswith("{"):
                u = n[1:].split("}")[0]
                if u != XMLNS:
                    out.add(u)
    return out


def pred_script(lx, rx, script_struct):
    """A namespace URI used by a created node is declared on neither root (on the
    right root only declarations diff() registers count: a real, non-reserved prefix)."""
    L, R = X(lx), X(rx)
    decl_l = set(L.nsmap.values())
    decl_r = {v for k, v in R.nsmap.items() if k is not None and not RESERVED.match(k)}
    return any(u not in decl_l and u not in decl_r for u in created_uris(script_struct))


def pred_patch(tree_xml, script_struct):
    """A namespace URI used by a created node is not declared on the root being patched."""
    T = X(tree_xml)
    return any(u not in set(T.nsmap.values()) for u in created_uris(script_struct))


_STEP_PREFIX = re.compile(r"(^|/)([^/:\[\]{}'\"\s]+):(?=[^/\s])")


def norm_path(p):
    return _STEP_PREFIX.sub(r"\1*:", p) if isinstance(p, str) else p


def norm_script(s):
    out = []
    for a in s:
        b = list(a)
        if a[0] != "InsertNamespace" and a[0] != "DeleteNamespace":
            b[1] = norm_path(b[1])
            if a[0] in ("MoveNode",):
                b[2] = norm_path(b[2])
        out.append(b)
    return out


def norm_text(t):
    return re.sub(r"(?<=/)[^/:\[\]{}'\"\s,]+:(?=[^/\s,])", "*:", t) if isinstance(t, str) else t


def classify(lx, rx, base, other):
    """Compare two result records of the same (documents, options).  Returns a list of
    (field, 'known', key) / (field, 'violation', description)."""
    out = []
    sb, so = base["script"], other["script"]
    ps = (not is_exc(sb)) and pred_script(lx, rx, sb)
    pp = (not is_exc(sb)) and pred_patch(lx, sb)
    script_known = False
    if sb != so:
        if ps and not is_exc(so) and norm_script(sb) == norm_script(so):
            out.append(("script", "known", KEY_SCRIPT))
            script_known = True
        else:
            out.append(("script", "violation", "scripts differ: %r vs %r" % (sb, so)))
    if base.get("matches") != other.get("matches"):
        out.append(("matches", "violation", "matchings differ: %r vs %r" % (base.get("matches"), other.get("matches"))))
    for f in ("fdiff", "fold"):
        if base.get(f) != other.get(f):
            if ps and norm_text(base[f]) == norm_text(other[f]):
                out.append((f, "known", KEY_SCRIPT))
            else:
                out.append((f, "violation", "%s formatter outputs differ: %r vs %r" % (f, base[f], other[f])))
    for f in ("t_script", "t_script_after_xml", "t_self_after_xml"):
        if base.get(f) != other.get(f):
            if ps and not is_exc(base.get(f)) and not is_exc(other.get(f)) and norm_script(base[f]) == norm_script(other[f]):
                out.append((f, "known", KEY_SCRIPT))
            else:
                out.append((f, "violation", "main.diff_texts (%s) results differ: %r vs %r" % (f, base.get(f), other.get(f))))
    for f in ("patched", "fxml", "t_xml"):
        if base.get(f) != other.get(f):
            ib, io = infoset_of_text(base[f]), infoset_of_text(other[f])
            if (ps or pp) and ib is not None and ib == io:
                out.append((f, "known", KEY_PATCH))
            elif script_known and is_exc(base[f]) != is_exc(other[f]):
                # an unbound registry prefix in a path: whether patching the script fails
                # depends on the prefix the registry happened to hold (same root cause)
                out.append((f, "known", KEY_SCRIPT))
            else:
                out.append((f, "violation", "%s outputs differ: %r vs %r" % (f, base[f], other[f])))
    return out


# ----------------------------------------------------------------------------
# what is computed for one (left, right, options)


def compute(lx, rx, opts, with_xml=True):
    from xmldiff import main, formatting, diff
    res = {}
    L, R = X(lx), X(rx)
    s = call(lambda: main.diff_trees(L, R, diff_options=opts))
    res["script"] = s if is_exc(s) else struct(s)
    d = diff.Differ(**opts)
    m = call(lambda: d.match(X(lx), X(rx)))
    res["matches"] = m if is_exc(m) else canon_matching(d)[0]
    if not is_exc(s):
        p = call(lambda: main.patch_tree(s, L))
        res["patched"] = p if is_exc(p) else etree.tostring(p).decode()
    else:
        res["patched"] = s
    res["fdiff"] = call(lambda: main.diff_trees(X(lx), X(rx), diff_options=opts, formatter=formatting.DiffFormatter()))
    res["fold"] = call(lambda: main.diff_trees(X(lx), X(rx), diff_options=opts, formatter=formatting.XmlDiffFormatter()))
    if with_xml:
        res["fxml"] = call(lambda: main.diff_trees(X(lx), X(rx), diff_options=opts, formatter=formatting.XMLFormatter()))
    # the text-level entry points on the very same strings (anything kept per input text between calls shows here):
    # plain script, then the xml formatter (whose prepare() rewrites the trees it is given), then the plain script again
    res["t_script"] = call(lambda: struct(main.diff_texts(lx, rx, diff_options=opts)))
    if with_xml:
        res["t_xml"] = call(lambda: main.diff_texts(lx, rx, diff_options=opts, formatter=formatting.XMLFormatter(
            normalize=formatting.WS_NONE, text_tags=("b",), formatting_tags=("c",))))
        res["t_script_after_xml"] = call(lambda: struct(main.diff_texts(lx, rx, diff_options=opts)))
        res["t_self_after_xml"] = call(lambda: struct(main.diff_texts(lx, lx, diff_options=opts)))
    return json.loads(json.dumps(res))


_fresh = [0]


def pollution_for(lx, rx):
    """Document pairs that bind every prefix of (l, r) to a DIFFERENT URI and every URI of
    (l, r) to a DIFFERENT, never used before prefix."""
    prefixes, uris = set(), set()
    for s in (lx, rx):
        for n in X(s).iter():
            for k, v in n.nsmap.items():
                if k is not None and not RESERVED.match(k) and k != "xml":
                    prefixes.add(k)
                if v != XMLNS:
                    uris.add(v)
            if isinstance(n.tag, str):
                for name in [n.tag] + list(n.attrib):
                    if name.startswith("{") and name[1:].split("}")[0] != XMLNS:
                        uris.add(name[1:].split("}")[0])
    uris.add("urn:x")
    pairs = []
    for u in sorted(uris):
        _fresh[0] += 1
        p = "zq%d" % _fresh[0]
        pairs.append(('<z xmlns:%s="%s"/>' % (p, u), '<z xmlns:%s="%s"><%s:y/></z>' % (p, u, p)))
    for p in sorted(prefixes):
        _fresh[0] += 1
        u = "urn:other:%d" % _fresh[0]
        pairs.append(('<z xmlns:%s="%s"><k/></z>' % (p, u), '<z xmlns:%s="%s"><%s:y/></z>' % (p, u, p)))
    return pairs


POLLUTE_OPTS = [{"ignored_attrs": [XMLNS_ID]}, {"ignored_attrs": [XMLNS_ID, "i"], "uniqueattrs": None},
                {"uniqueattrs": ["i", ("a", "j")], "ignored_attrs": ["i"]}, {"uniqueattrs": [], "F": 0.9, "fast_match": True},
                {"best_match": True, "ratio_mode": "accurate"}]


def pollute(pairs):
    from xmldiff import main, formatting, diff
    # Differ objects built with OTHER options (and used once) in between: defaults must not be shared mutable state
    for o in (POLLUTE_OPTS if pairs else []):
        call(lambda: list(diff.Differ(**o).diff(X('<r><a xml:id="q1" i="1">t</a></r>'), X('<r><a xml:id="q2" i="2">t</a><b/></r>'))))
        call(lambda: main.diff_trees(X('<r><a xml:id="q1" i="1">t</a></r>'), X('<r><a xml:id="q2" i="2">t</a><b/></r>'), diff_options=dict(o)))
    for a, b in pairs:
        call(lambda: main.diff_trees(X(a), X(b)))
        call(lambda: main.diff_trees(X(a), X(b), formatter=formatting.XMLFormatter()))
        call(lambda: main.patch_tree(main.diff_trees(X(a), X(b)), X(a)))


# ----------------------------------------------------------------------------
# canonical forms of the Differ's state


def canon_matching(d):
    """(matches, l2r, r2l, inorder) with nodes named by document-order index."""
    if d._matches is None:
        return None
    lnodes = list(d.left.iter()) if d.left is not None else []
    rnodes = list(d.right.iter()) if d.right is not None else []
    lidx = {id(n): i for i, n in enumerate(lnodes)}
    ridx = {id(n): i for i, n in enumerate(rnodes)}
    ms = [[lidx.get(id(l), -1), ridx.get(id(r), -1), repr(x)] for (l, r, x) in d._matches]
    l2r = sorted([lidx.get(k, -1), ridx.get(id(v), -1)] for k, v in (d._l2rmap or {}).items())
    r2l = sorted([ridx.get(k, -1), lidx.get(id(v), -1)] for k, v in (d._r2lmap or {}).items())
    ino = sorted(["L", lidx[id(n)]] if id(n) in lidx else ["R", ridx[id(n)]] if id(n) in ridx else ["?", -1]
                 for n in (d._inorder or ()))
    return (ms, l2r, r2l, ino)


class Ids:
    def __init__(self, reserved=()):
        self.d, self.rev = {}, []
        for r in reserved:
            self.get(r)

    def get(self, key):
        k = json.dumps(key, sort_keys=True)
        if k not in self.d:
            self.d[k] = len(self.rev)
            self.rev.append(key)
        return self.d[k]


EMPTY_M = ([], [], [], [])


class DifferTables:
    """match_fn / script_fn as tables, filled from FRESH Differ instances."""

    def __init__(self, opts, pool):
        self.opts, self.pool = opts, pool
        self.T, self.M, self.S = Ids(), Ids([EMPTY_M]), Ids()
        self.pid = [self.T.get(xml(X(p))) for p in pool]
        self.match_tbl, self.script_tbl = {}, {}
        self.open_chains = 0
        self.fresh_calls = 0
        for i in range(len(pool)):
            for j in range(len(pool)):
                self.chain(i, j)

    def observe(self, d):
        return (None if d.left is None else self.T.get(xml(d.left)),
                None if d.right is None else self.T.get(xml(d.right)),
                None if d._matches is None else self.M.get(canon_matching(d)))

    def outcome(self, v):
        if is_exc(v):
            return self.S.get(v)
        return self.S.get(struct(v))

    def chain(self, i, j, cap=8):
        from xmldiff.diff import Differ
        d = Differ(**self.opts)
        l, r = X(self.pool[i]), X(self.pool[j])
        d.match(l, r)
        self.fresh_calls += 1
        lid, rid, mid = self.observe(d)
        key = (self.pid[i], self.pid[j])
        if key in self.match_tbl and self.match_tbl[key] != mid:
            raise RuntimeError("match is not a function of the documents: %r" % (key,))
        self.match_tbl[key] = mid
        k = (lid, rid, mid)
        for _ in range(cap):
            if k in self.script_tbl:
                return
            out = call(lambda: list(d.diff()))
            self.fresh_calls += 1
            l2, r2, m2 = self.observe(d)
            self.script_tbl[k] = (self.outcome(out), l2, m2)
            k = (l2, r2, m2)
        if k not in self.script_tbl:
            self.open_chains += 1

    def coq(self):
        mt = lib.coq_list(["(%d,%d,%d)" % (l, r, m) for (l, r), m in sorted(self.match_tbl.items())])
        st = lib.coq_list(["(%d,%d,%d,(%d,%d,%d))" % (l, r, m, s, l2, m2)
                           for (l, r, m), (s, l2, m2) in sorted(self.script_tbl.items())])
        em = lib.coq_list([str(i) for i, m in enumerate(self.M.rev) if not m[0]])
        return "(MkTbl %s %s %s)" % (mt, st, em)


PRE = """From Coq Require Import List Bool Arith. Import ListNotations.
Require Import XV.DifferState XV.Gen.StateShape.
Definition UNK := 999999.
Record tbl := MkTbl { t_match : list (nat*nat*nat); t_script : list (nat*nat*nat*(nat*nat*nat)); t_empty : list nat }.
Definition look_match (t : tbl) (l r : nat) : nat :=
  match find (fun e => (fst (fst e) =? l) && (snd (fst e) =? r)) (t_match t) with Some e => snd e | None => UNK end.
Definition look_script (t : tbl) (l r m : nat) : nat * nat * nat :=
  match find (fun e => let '(a, b, c, _) := e in (a =? l) && (b =? r) && (c =? m)) (t_script t) with
  | Some (_, x) => x | None => (UNK, UNK, UNK) end.
Definition stepT (t : tbl) := step nat nat nat (look_match t) (look_script t) 0 (fun m => existsb (Nat.eqb m) (t_empty t)) differ_shape.
Definition on_eqb (a b : option nat) := match a, b with None, None => true | Some x, Some y => x =? y | _, _ => false end.
(* WHICH exception a call without documents raises is not the property's business (AttributeError from None.getchildren(),
   TypeError from list(None) after a harmless rewrite of the traversal helpers): an error is an error *)
Definition err_eqb (a b : err) := true.
Definition out_eqb (a b : outcome nat nat) := match a, b with
  | ONone, ONone => true | OMatches x, OMatches y => x =? y | OScript x, OScript y => x =? y
  | OError x, OError y => err_eqb x y | _, _ => false end.
Definition expect := (outcome nat nat * (option nat * option nat * option nat))%type.
Fixpoint go (t : tbl) (s : dstate nat nat) (ops : list (op nat * expect)) : bool :=
  match ops with
  | [] => true
  | (o, (eo, (el, er, em))) :: rest =>
      let '(s', out) := stepT t s o in
      out_eqb out eo && on_eqb (d_left s') el && on_eqb (d_right s') er && on_eqb (d_matches s') em && go t s' rest
  end.
Definition ln_eqb := fix f (a b : list nat) := match a, b with [] , [] => true | x :: a', y :: b' => (x =? y) && f a' b' | _, _ => false end.
(* Patcher: nsmap_of / run_actions as tables *)
Record ptbl := MkP { p_ns : list (nat*nat); p_run : list (nat*nat*list nat*(nat*nat)) }.
Definition p_nsmap_of (t : ptbl) (tr : nat) := match find (fun e => fst e =? tr) (p_ns t) with Some e => snd e | None => UNK end.
Definition p_run_actions (t : ptbl) (ns tr : nat) (acts : list nat) : nat * nat :=
  match find (fun e => let '(a, b, c, _) := e in (a =? ns) && (b =? tr) && ln_eqb c acts) (p_run t) with
  | Some (_, x) => x | None => (UNK, UNK) end.
Fixpoint pgo (t : ptbl) (st : pobj nat) (calls : list (nat * list nat * (nat * nat))) : bool :=
  match calls with
  | [] => true
  | (tr, acts, (er, ens)) :: rest =>
      let '(st', r) := patch_obj nat nat nat nat (p_nsmap_of t) 0 (p_run_actions t) patcher_ns_from_tree st tr acts in
      (r =? er) && on_eqb (p_nsmap st') (Some ens) && pgo t st' rest
  end.
(* formatters *)
Record ftbl := MkF { f_diff : list (list nat * nat); f_oldns : list (option nat * nat);
                     f_old : list (nat * option nat * list nat * (nat * nat)) }.
Definition f_fmt_diff (t : ftbl) (acts : list nat) := match find (fun e => ln_eqb (fst e) acts) (f_diff t) with Some e => snd e | None => UNK end.
Definition f_old_ns_of (t : ftbl) (o : option nat) := match find (fun e => on_eqb (fst e) o) (f_oldns t) with Some e => snd e | None => UNK end.
Definition f_old_run (t : ftbl) (ns : nat) (o : option nat) (acts : list nat) : nat * nat :=
  match find (fun e => let '(a, b, c, _) := e in (a =? ns) && on_eqb b o && ln_eqb c acts) (f_old t) with
  | Some (_, x) => x | None => (UNK, UNK) end.
Fixpoint dfgo (t : ftbl) (st : dfobj) (calls : list (list nat * option nat * nat)) : bool :=
  match calls with
  | [] => true
  | (acts, o, e) :: rest =>
      let '(st', r) := diff_format nat nat nat (f_fmt_diff t) (fun s _ _ => (s, UNK)) diff_formatter_stateless st acts o in
      (r =? e) && (df_normalize st' =? df_normalize st) && dfgo t st' rest
  end.
Fixpoint ofgo (t : ftbl) (st : xdfobj nat) (calls : list (list nat * option nat * (nat * nat))) : bool :=
  match calls with
  | [] => true
  | (acts, o, (e, ens)) :: rest =>
      let '(st', r) := old_format nat nat nat nat (f_old_ns_of t) (f_old_run t) 0 old_formatter_ns_reset st acts o in
      (r =? e) && on_eqb (xdf_nsmap st') (Some ens) && ofgo t st' rest
  end.
Inductive case :=
| CDiffer (ti : nat) (ops : list (op nat * expect))
| CPatcher (ti : nat) (calls : list (nat * list nat * (nat * nat)))
| CDiffFmt (ti : nat) (calls : list (list nat * option nat * nat))
| COldFmt (ti : nat) (calls : list (list nat * option nat * (nat * nat))).
"""

PRE_CHECK = """
Definition check (c : case) : bool := match c with
| CDiffer ti ops => match nth_error dtables ti with Some t => go t d_init ops | None => false end
| CPatcher ti calls => match nth_error ptables ti with Some t => pgo t p_init calls | None => false end
| CDiffFmt ti calls => match nth_error ftables ti with Some t => dfgo t (DF 1) calls | None => false end
| COldFmt ti calls => match nth_error ftables ti with Some t => ofgo t (XDF 1 None) calls | None => false end
end.
"""


def coq_on(v):
    return "None" if v is None else "(Some %d)" % v


# ----------------------------------------------------------------------------
# pools (every namespace URI a document uses is declared on its root: the
# correspondence is about OBJECT state; the registry finding has its own stream)

HAND_POOL = [
    '<a><b/></a>', '<a><c/></a>', '<a/>', '<a x="1"/>',
    '<a><b i="1" j="2">x</b><c/>t<!--c1--></a>',
    '<a><c/><b j="2" k="3">x y</b></a>',
    '<r xmlns:p="urn:p"><p:a i="1"/><b p:i="2">x</b></r>',
    '<r xmlns:p="urn:p" xmlns:q="urn:q"><q:b/><p:a i="1"/></r>',
    '<r xmlns:p="urn:q"><p:b/></r>',          # same prefix, different URI  -> RuntimeError against the two above
    '<r xmlns:k="urn:p"><k:a i="1"/><b/></r>',  # same URI, different prefix
]

OPT_SETS = [{}, {"fast_match": True}, {"best_match": True}, {"F": 0.1, "ratio_mode": "accurate"},
            {"uniqueattrs": ["i"], "ignored_attrs": ["k"]}]


def make_pool(rng, n):
    pool = list(HAND_POOL[:6])
    pool += rng.sample(HAND_POOL[6:], 2)
    while len(pool) < n:
        L, R = gen.gen_pair(rng, 6, ns=rng.random() < .4)
        for t in (L, R):
            s = xml(t)
            if s not in pool and len(pool) < n:
                pool.append(s)
    return pool


def gen_ops(rng, npool, length):
    ops = []
    for _ in range(length):
        k = rng.choices(["clear", "set", "setbad", "match0", "match2", "matchbad", "diff0", "diff2", "diffbad"],
                        [1, 2, .4, 2, 2, .4, 4, 5, .4])[0]
        i, j = rng.randrange(npool), rng.randrange(npool)
        if k == "clear":
            ops.append(("clear", None, None))
        elif k == "set":
            ops.append(("set", i, j))
        elif k in ("setbad", "matchbad", "diffbad"):
            a, b = rng.choice([(i, None), (None, j)])
            ops.append(({"setbad": "set", "matchbad": "match", "diffbad": "diff"}[k], a, b))
        elif k == "match0":
            ops.append(("match", None, None))
        elif k == "match2":
            ops.append(("match", i, j))
        elif k == "diff0":
            ops.append(("diff", None, None))
        else:
            ops.append(("diff", i, j))
    return ops


FIXED_SEQS = [
    # C06_differ_no_trees: AttributeError, then [] ; diff() keeps raising
    [("match", None, None), ("match", None, None), ("diff", None, None), ("diff", None, None), ("set", 0, 1), ("diff", None, None)],
    # C06_differ_noarg_repeat_refuted: set_trees; diff(); diff(); match()
    [("set", 0, 1), ("diff", None, None), ("diff", None, None), ("match", None, None), ("diff", 0, 1), ("diff", None, None)],
    # the Example of Properties/C06.v
    [("diff", 0, 1), ("diff", 2, 3)],
    [("diff", 2, 3)],
    [("match", 0, 1), ("diff", None, None), ("match", None, None), ("clear", None, None), ("diff", None, None)],
    [("diff", 6, 8), ("diff", 6, 7), ("diff", None, None), ("match", 6, 9), ("diff", None, None)],
]


def run_differ_seq(tb, trees, ops):
    """Run ops on ONE Differ; returns per op (coq op term, coq expectation term, readable result)."""
    from xmldiff.diff import Differ
    d = Differ(**tb.opts)
    out = []
    for kind, i, j in ops:
        a = None if i is None else trees[i]
        b = None if j is None else trees[j]
        ai = None if i is None else tb.pid[i]
        bi = None if j is None else tb.pid[j]
        if kind == "clear":
            r = call(lambda: d.clear())
            term = "OClear"
        elif kind == "set":
            r = call(lambda: d.set_trees(a, b))
            term = "OSetTrees %s %s" % (coq_on(ai), coq_on(bi))
        elif kind == "match":
            r = call(lambda: d.match(a, b))
            term = "OMatch %s %s" % (coq_on(ai), coq_on(bi))
        else:
            r = call(lambda: list(d.diff(a, b)))
            term = "ODiff %s %s" % (coq_on(ai), coq_on(bi))
        st = tb.observe(d)
        if is_exc(r) and d.left is None:
            e = {"exc:TypeError": "OError ETypeError", "exc:AttributeError": "OError EAttributeError"}.get(r, "OScript UNK")
            shown = r
        elif is_exc(r):
            e = "OScript %d" % tb.S.get(r)
            shown = r
        elif r is None:
            e, shown = "ONone", None
        elif kind == "match":
            m = canon_matching(d)
            # what match() returned IS self._matches
            e = "OMatches %d" % tb.M.get(m) if r is d._matches else "OMatches UNK"
            shown = m[0]
        else:
            e = "OScript %d" % tb.S.get(struct(r))
            shown = struct(r)
        out.append(("(%s, (%s, (%s, %s, %s)))" % (term, e, coq_on(st[0]), coq_on(st[1]), coq_on(st[2])), shown))
    return out


# ----------------------------------------------------------------------------
# Patcher / formatter correspondences


def build_patch_items(rng, pool_ns_free, pool_any, opts):
    """(tree xml, script struct) items: a script applied to its own left tree (any pool), and
    scripts applied to OTHER trees only within the namespace-free pool (error paths)."""
    from xmldiff import main
    items = []
    for pool, cross in ((pool_any, False), (pool_ns_free, True)):
        for i, l in enumerate(pool):
            for j, r in enumerate(pool):
                s = call(lambda: main.diff_trees(X(l), X(r), diff_options=opts))
                if is_exc(s):
                    continue
                items.append((l, struct(s)))
                if cross and rng.random() < .35:
                    items.append((rng.choice(pool), struct(s)))
    return items


def ns_of(tree):
    return sorted([k, v] for k, v in tree.nsmap.items() if k is not None)


def patcher_corr(rng, items, nseq, seqlen):
    from xmldiff.patch import Patcher
    T, A, R, N = Ids(), Ids(), Ids(), Ids([[]])
    ns_tbl, run_tbl = {}, {}

    def ids(item):
        t, s = item
        return T.get(t), [A.get(a) for a in s]

    def res_id(p, r):
        return R.get(r if is_exc(r) else list(infoset(r))), N.get(sorted([k, v] for k, v in p._nsmap.items()))

    for it in items:
        tid, aids = ids(it)
        p = Patcher()
        tree = X(it[0])
        r = call(lambda: p.patch(unstruct(it[1]), tree))
        nid = N.get(ns_of(tree))
        ns_tbl[tid] = nid
        run_tbl[(nid, tid, tuple(aids))] = res_id(p, r)
    cases, descr = [], []
    for _ in range(nseq):
        p = Patcher()
        calls, shown = [], []
        for it in (rng.choice(items) for _ in range(seqlen)):
            tid, aids = ids(it)
            r = call(lambda: p.patch(unstruct(it[1]), X(it[0])))
            rid, nid = res_id(p, r)
            calls.append("(%d, %s, (%d, %d))" % (tid, lib.coq_list(map(str, aids)), rid, nid))
            shown.append({"tree": it[0], "actions": it[1], "result": r if is_exc(r) else etree.tostring(r).decode()})
        cases.append("CPatcher 0 %s" % lib.coq_list(calls))
        descr.append({"kind": "patcher-seq", "calls": shown})
    tbl = "(MkP %s %s)" % (lib.coq_list("(%d,%d)" % kv for kv in sorted(ns_tbl.items())),
                           lib.coq_list("(%d,%d,%s,(%d,%d))" % (n, t, lib.coq_list(map(str, a)), r, n2)
                                        for (n, t, a), (r, n2) in sorted(run_tbl.items())))
    return tbl, cases, descr, len(items)


def formatter_corr(rng, items, nseq, seqlen):
    from xmldiff.formatting import DiffFormatter, XmlDiffFormatter
    T, A, O, N = Ids(), Ids(), Ids(), Ids([[]])
    dtab, nstab, otab = {}, {}, {}
    items = items + [(None, s) for _, s in items[:8]]

    def ids(item):
        t, s = item
        return (None if t is None else T.get(t)), [A.get(a) for a in s]

    for it in items:
        tid, aids = ids(it)
        acts = unstruct(it[1])
        dtab[tuple(aids)] = O.get(call(lambda: DiffFormatter().format(acts, None if it[0] is None else X(it[0]))))
        f = XmlDiffFormatter()
        tree = None if it[0] is None else X(it[0])
        r = call(lambda: f.format(acts, tree))
        nid = N.get([] if tree is None else ns_of(tree))
        nstab[tid] = nid
        otab[(nid, tid, tuple(aids))] = (O.get(r), N.get(sorted([k, v] for k, v in f._nsmap.items())))
    cases, descr = [], []
    for _ in range(nseq):
        df, of = DiffFormatter(normalize=1), XmlDiffFormatter(normalize=1)
        dcalls, ocalls, shown = [], [], []
        for it in (rng.choice(items) for _ in range(seqlen)):
            tid, aids = ids(it)
            acts = unstruct(it[1])
            r1 = call(lambda: df.format(acts, None if it[0] is None else X(it[0])))
            r2 = call(lambda: of.format(acts, None if it[0] is None else X(it[0])))
            al = lib.coq_list(map(str, aids))
            dcalls.append("(%s, %s, %d)" % (al, coq_on(tid), O.get(r1)))
            ocalls.append("(%s, %s, (%d, %d))" % (al, coq_on(tid), O.get(r2), N.get(sorted([k, v] for k, v in of._nsmap.items()))))
            shown.append({"tree": it[0], "actions": it[1], "diff": r1, "old": r2})
        ok_attr = sorted(vars(df)) == ["normalize"] and df.normalize == 1
        cases.append("CDiffFmt 0 %s" % lib.coq_list(dcalls if ok_attr else dcalls + ["([], None, UNK)"]))
        descr.append({"kind": "diff-formatter-seq", "calls": shown, "attributes": sorted(vars(df))})
        cases.append("COldFmt 0 %s" % lib.coq_list(ocalls))
        descr.append({"kind": "old-formatter-seq", "calls": shown})
    tbl = "(MkF %s %s %s)" % (
        lib.coq_list("(%s,%d)" % (lib.coq_list(map(str, a)), o) for a, o in sorted(dtab.items())),
        lib.coq_list("(%s,%d)" % (coq_on(t), n) for t, n in sorted(nstab.items(), key=lambda kv: (kv[0] is not None, kv[0] or 0))),
        lib.coq_list("(%d,%s,%s,(%d,%d))" % (n, coq_on(t), lib.coq_list(map(str, a)), o, n2)
                     for (n, t, a), (o, n2) in sorted(otab.items(), key=lambda kv: (kv[0][0], kv[0][1] is not None, kv[0][1] or 0, kv[0][2]))))
    return tbl, cases, descr, len(items)


# ----------------------------------------------------------------------------
# monitors


def monitor_mutation(rng, pairs, viols, counts):
    """Inputs are untouched by diff_trees (no / 'diff' / 'old' formatter), Differ.match/diff,
    patch_tree, and the format() methods."""
    from xmldiff import main, formatting, diff, patch
    for lx, rx, opts in pairs:
        for fname, mk in (("none", lambda: None), ("diff", formatting.DiffFormatter), ("old", formatting.XmlDiffFormatter)):
            L, R = X(lx), X(rx)
            b = (snap(L), snap(R))
            mine = dict(opts, F=0.62) if fname == "none" else dict(opts)     # the caller's own options dict
            before_opts = json.dumps(mine, sort_keys=True, default=list)
            res = call(lambda: main.diff_trees(L, R, diff_options=mine, formatter=mk()))
            counts["diff_trees"] += 1
            if json.dumps(mine, sort_keys=True, default=list) != before_opts:
                viols.append({"what": "main.diff_trees(formatter=%s) changed the caller's diff_options dict: %s -> %r" % (fname, before_opts, mine),
                              "replay": {"kind": "mutation", "call": "diff_trees", "formatter": fname, "left": lx, "right": rx, "opts": opts}})
            if (snap(L), snap(R)) != b:
                viols.append({"what": "main.diff_trees(formatter=%s) modified an input tree" % fname,
                              "replay": {"kind": "mutation", "call": "diff_trees", "formatter": fname, "left": lx, "right": rx, "opts": opts}})
        # sub-elements of larger documents, followed by text (the right tree is the caller's own object: nothing of its
        # document may change, not even the text after it)
        def embedded(x):
            outer = etree.fromstring("<outer>lead<pre/>mid%s after <post/>end</outer>" % x)
            return outer[1]
        for fname, mk in (("none", lambda: None), ("diff", formatting.DiffFormatter), ("old", formatting.XmlDiffFormatter)):
            L, R = embedded(lx), embedded(rx)
            b = (snap(L), snap(R))
            call(lambda: main.diff_trees(L, R, diff_options=opts, formatter=mk()))
            counts["diff_trees"] += 1
            if (snap(L), snap(R)) != b:
                viols.append({"what": "main.diff_trees(formatter=%s) modified the document around a sub-element given as input" % fname,
                              "replay": {"kind": "mutation", "call": "diff_trees-embedded", "formatter": fname, "left": lx, "right": rx, "opts": opts}})
        # element trees (not elements) as inputs, and the Differ API directly
        L, R = X(lx).getroottree(), X(rx).getroottree()
        b = (snap(L), snap(R))
        d = diff.Differ(**opts)
        call(lambda: d.match(L, R))
        call(lambda: list(d.diff()))
        call(lambda: list(d.diff(L, R)))
        counts["differ_api"] += 1
        if (snap(L), snap(R)) != b:
            viols.append({"what": "Differ.match/diff modified an input tree",
                          "replay": {"kind": "mutation", "call": "differ", "left": lx, "right": rx, "opts": opts}})
        s = call(lambda: main.diff_trees(X(lx), X(rx), diff_options=opts))
        if is_exc(s):
            continue
        for target in (lx, rx):
            Tt = X(target)
            acts = list(s)
            b = (snap(Tt), snap_actions(acts), [id(a) for a in acts])
            call(lambda: main.patch_tree(acts, Tt))
            counts["patch_tree"] += 1
            if (snap(Tt), snap_actions(acts), [id(a) for a in acts]) != b:
                viols.append({"what": "main.patch_tree modified the input tree or the action list",
                              "replay": {"kind": "mutation", "call": "patch_tree", "left": lx, "right": rx, "opts": opts, "tree": target}})
        # scripts in another order than the differ's (hand-written): reversed, namespace actions last, a tuple
        from xmldiff import actions as A
        for variant in (list(reversed(list(s))), [a for a in s if not isinstance(a, A.InsertNamespace)] + [A.InsertNamespace("zz", "urn:zz")],
                        [A.UpdateTextIn("/*[1]", "2"), A.InsertNamespace("s", "urn:s"), A.DeleteNamespace("s")]):
            Tt = X(lx)
            acts = list(variant)
            b = (snap(Tt), snap_actions(acts), [id(a) for a in acts])
            call(lambda: main.patch_tree(acts, Tt))
            counts["patch_tree"] += 1
            if (snap(Tt), snap_actions(acts), [id(a) for a in acts]) != b:
                viols.append({"what": "main.patch_tree modified the input tree or the action list (script not in the differ's order)",
                              "replay": {"kind": "mutation", "call": "patch_tree-permuted", "left": lx, "right": rx, "opts": opts}})
        for fname, mk in (("diff", formatting.DiffFormatter), ("old", formatting.XmlDiffFormatter), ("xml", formatting.XMLFormatter)):
            Tt = X(lx)
            acts = list(s)
            b = (snap(Tt), snap_actions(acts))
            call(lambda: mk().format(acts, Tt))
            counts["format"] += 1
            if (snap(Tt), snap_actions(acts)) != b:
                viols.append({"what": "%s formatter's format() modified the tree or the action list" % fname,
                              "replay": {"kind": "mutation", "call": "format", "formatter": fname, "left": lx, "right": rx, "opts": opts}})


def report(run, viols, lx, rx, opts, diffs, how, extra):
    """Route classified differences: explained ones to the known-finding keys, the rest to violations."""
    for field, kind, info in diffs:
        rep = dict(extra)
        rep.update({"kind": "history", "left": lx, "right": rx, "opts": opts, "field": field})
        if kind == "known":
            rep["finding_key"] = info
            run.violation("%s: %s depends on process history only through the prefix lxml's global registry gives a created node "
                          "(namespace URI declared on neither root)" % (how, field), rep)
        else:
            viols.append({"what": "%s: %s" % (how, info), "replay": rep})


def monitor_history(run, rng, pairs, viols, counts, label):
    """Same process: compute, diff adversarial other documents, compute again."""
    for lx, rx, opts in pairs:
        base = compute(lx, rx, opts)
        pol = pollution_for(lx, rx) + [(a, b) for a, b, _ in rng.sample(pairs, min(2, len(pairs)))]
        pollute(pol)
        again = compute(lx, rx, opts)
        counts[label] += 1
        for rec in (base, again):
            if "t_script_after_xml" in rec and rec["t_script_after_xml"] != rec["t_script"] and not is_exc(rec["t_script"]):
                viols.append({"what": "main.diff_texts(l, r) gives %r, after a diff_texts call with the xml formatter on the same strings %r"
                                      % (rec["t_script"], rec["t_script_after_xml"]),
                              "replay": {"kind": "text-history", "left": lx, "right": rx, "opts": opts}})
                break
        diffs = classify(lx, rx, base, again)
        if diffs:
            # confirm from scratch so that the replay file alone reproduces it
            r0 = run_worker({"corpus": [[lx, rx, opts]], "prelude": []}, "0")
            r1 = run_worker({"corpus": [[lx, rx, opts]], "prelude": [list(p) for p in pol]}, "0")
            conf = "error" not in r0 and "error" not in r1 and bool(classify(lx, rx, r0["out"][0], r1["out"][0]))
            report(run, viols, lx, rx, opts, diffs, "same process, after diffing other documents",
                   {"prelude": pol, "mode": "in-process", "confirmed_in_fresh_processes": conf,
                    "before": base, "after": again})
            counts[label + "_differences"] += 1


def monitor_reuse(rng, pairs, viols, counts):
    """Reused objects without a Coq model of their internals: one XMLFormatter (its
    PlaceholderMaker persists), one Differ per option set, used for many documents; each
    result must equal the result of new objects."""
    from xmldiff import main, formatting, diff
    cfgs = [dict(), dict(text_tags=("b", "c"), formatting_tags=("a",)), dict(normalize=formatting.WS_BOTH, text_tags=("a",), use_replace=False)]
    for cfg in cfgs:
        shared = formatting.XMLFormatter(**cfg)
        hist = []
        for lx, rx, opts in pairs:
            fresh = call(lambda: main.diff_trees(X(lx), X(rx), diff_options=opts, formatter=formatting.XMLFormatter(**cfg)))
            again = call(lambda: main.diff_trees(X(lx), X(rx), diff_options=opts, formatter=shared))
            counts["xmlformatter_reuse"] += 1
            if fresh != again and not (is_exc(fresh) and is_exc(again)):
                i1, i2 = infoset_of_text(fresh), infoset_of_text(again)
                if not (i1 is not None and i1 == i2):
                    viols.append({"what": "a reused XMLFormatter gives a different result than a new one: %r vs %r" % (again, fresh),
                                  "replay": {"kind": "xml-reuse", "cfg": {k: list(v) if isinstance(v, tuple) else v for k, v in cfg.items()},
                                             "history": hist + [[lx, rx, opts]]}})
            hist.append([lx, rx, opts])
            hist = hist[-12:]
    by_opts = {}
    for lx, rx, opts in pairs:
        by_opts.setdefault(json.dumps(opts, sort_keys=True), []).append((lx, rx, opts))
    for group in by_opts.values():
        d = diff.Differ(**group[0][2])
        hist = []
        for lx, rx, opts in group:
            fresh = call(lambda: struct(main.diff_trees(X(lx), X(rx), diff_options=opts)))
            again = call(lambda: struct(list(d.diff(X(lx), X(rx)))))
            counts["differ_reuse"] += 1
            if fresh != again:
                viols.append({"what": "a reused Differ gives a different script than a new one: %r vs %r" % (again, fresh),
                              "replay": {"kind": "differ-reuse", "opts": opts, "history": hist + [[lx, rx]]}})
            hist = (hist + [[lx, rx]])[-12:]


# Documents whose right root introduces a prefix (or rebinds one / binds a second prefix to the same
# URI) and creates addressed nodes in that namespace.  Used in order on shared objects: what an
# object or the process remembers of an earlier pair must not show in a later one.
NS_INTRO = [
    ('<r><k/></r>', '<r xmlns:p="urn:u1"><k/><p:n a="1"><p:m>t</p:m></p:n></r>'),
    ('<r><k/></r>', '<r xmlns:q="urn:u1"><k/><q:n a="1"><q:m>t</q:m></q:n></r>'),
    ('<r><k/></r>', '<r xmlns:p="urn:u2"><k/><p:n b="2"><p:m>u</p:m></p:n></r>'),
    ('<r><k/></r>', '<r xmlns:p="urn:u1"><k/><p:n a="1"><p:m>t</p:m></p:n></r>'),
    ('<r xmlns:p="urn:u1"><p:k>x</p:k></r>', '<r xmlns:p="urn:u1"><p:k>y</p:k><p:k2 c="3"/></r>'),
    ('<r xmlns:p="urn:u2"><p:k>x</p:k></r>', '<r xmlns:p="urn:u2"><p:k>y</p:k><p:k2 c="3"/></r>'),
    ('<r xmlns:q="urn:u2"><q:k>x</q:k></r>', '<r xmlns:q="urn:u2"><q:k>y</q:k><q:k2 c="3"><q:z/></q:k2></r>'),
    ('<r xmlns:p="urn:u1"><p:k>x</p:k></r>', '<r xmlns:p="urn:u1"><p:k>y</p:k><p:k2 c="3"/></r>'),
]


# roots that differ in SEVERAL prefix declarations at once (added, removed, both): the order of the namespace actions
# must not come from a set of strings (hash seed)
_U = ' '.join('xmlns:%s="urn:m%d"' % (p_, i_) for i_, p_ in enumerate(("p", "q", "s", "t", "zz")))
NS_MULTI = [
    ('<r><k/></r>', '<r %s><k/><p:n/><q:n/><s:n/><t:n/><zz:n/></r>' % _U),
    ('<r %s><k/></r>' % _U, '<r><k/></r>'),
    ('<r xmlns:p="urn:m0" xmlns:q="urn:m1" xmlns:e="urn:e" xmlns:f="urn:f" xmlns:g="urn:g"><k/><e:x/></r>', '<r %s><k/><s:n/><t:n/></r>' % _U),
]
# texts whose edits can slide across line breaks and blank lines, several of them meeting the same characters in
# different surroundings: anything the text diff remembers between calls (a memo keyed too coarsely) shows when a pair
# is diffed alone in a fresh process and in the middle of the others
TEXT_SLIDE = [('<r><p>%s</p></r>' % a_, '<r><p>%s</p></r>' % b_) for a_, b_ in [
    ("\n\n\n", "\n\na\n\n"), ("a\nb", "a\n\nb"), ("a\n\nb", "a\nb"), ("x\n\ny\n\nz", "x\n\ny\n\ny\n\nz"), ("a b", "a  b"),
    ("one\ntwo\n", "one\n\ntwo\n"), ("a\nb\nc", "a\nb\nb\nc"), ("The cat. The end.", "The cat. The dog. The end."),
    ("a.\n\nb.", "a.\n\nc.\n\nb."), ("ab\ncd", "ab\n\ncd"), ("a\r\nb", "a\r\n\r\nb"), ("k\n\n\nk", "k\n\nk"),
    ("1, 2, 3", "1, 2, 2, 3"), ("aXbXc", "aXbXbXc"), ("a\tb\tc", "a\tb\tb\tc")]]


def monitor_reuse_objects(rng, pairs, viols, counts):
    """Pure-Python reuse oracles (independent of the Coq model, so they still search when the tie is
    broken): ONE Patcher, ONE DiffFormatter, ONE XmlDiffFormatter, ONE XMLFormatter and ONE Differ are
    used for a whole sequence of documents -- for the Differ also with the SAME lxml objects passed again
    (diff(l, r); diff(l, r); diff(l2, r) ...) -- and every result must equal that of new objects."""
    from xmldiff import main, formatting, diff, patch
    seqs = [list(NS_INTRO), list(reversed(NS_INTRO))]
    plain = [(a, b) for a, b, _ in pairs]
    for _ in range(4):
        seqs.append([rng.choice(plain + NS_INTRO) for _ in range(10)])
    for seq in seqs:
        shared_p, shared_df, shared_old = patch.Patcher(), formatting.DiffFormatter(), formatting.XmlDiffFormatter()
        shared_x = formatting.XMLFormatter()
        hist = []
        for lx, rx in seq:
            hist = (hist + [[lx, rx]])[-12:]
            s = call(lambda: main.diff_trees(X(lx), X(rx)))
            if is_exc(s):
                continue
            acts = list(s)
            fresh = call(lambda: etree.tostring(patch.Patcher().patch(list(acts), X(lx))).decode())
            again = call(lambda: etree.tostring(shared_p.patch(list(acts), X(lx))).decode())
            counts["patcher_reuse"] += 1
            if fresh != again and not (infoset_of_text(fresh) is not None and infoset_of_text(fresh) == infoset_of_text(again)
                                       and pred_patch(lx, struct(acts))):
                viols.append({"what": "a reused Patcher gives a different result than a new one: %r vs %r" % (again, fresh),
                              "replay": {"kind": "object-reuse", "object": "Patcher", "history": hist}})
            for nm, sh_, mk in (("DiffFormatter", shared_df, formatting.DiffFormatter), ("XmlDiffFormatter", shared_old, formatting.XmlDiffFormatter),
                                ("XMLFormatter", shared_x, formatting.XMLFormatter)):
                fresh = call(lambda: main.diff_trees(X(lx), X(rx), formatter=mk()))
                again = call(lambda: main.diff_trees(X(lx), X(rx), formatter=sh_))
                counts["formatter_reuse"] += 1
                if fresh != again and not (nm == "XMLFormatter" and infoset_of_text(fresh) is not None and
                                           infoset_of_text(fresh) == infoset_of_text(again) and pred_script(lx, rx, struct(acts))):
                    viols.append({"what": "a reused %s gives a different result than a new one: %r vs %r" % (nm, again, fresh),
                                  "replay": {"kind": "object-reuse", "object": nm, "history": hist}})
    # one Differ, the same lxml objects handed over again and again -- and EDITED IN PLACE between two calls (a caller
    # that keeps one reference tree and revises it): what the differ remembers about a node must not outlive the call
    docs0 = sorted({d for p in plain[:14] for d in p})[:10]
    for opts in ({}, {"fast_match": True}, {"best_match": True}):
        docs = list(docs0)
        hist = []
        for _ in range(40):
            i, j = rng.randrange(len(docs)), rng.randrange(len(docs))
            if hist and rng.random() < .5:
                i, j = (hist[-1][0], hist[-1][1]) if rng.random() < .4 else (i, hist[-1][1])     # same pair again / same right object
            how = rng.choice(("diff", "match+diff", "diff-partial", "edit-right", "edit-left"))
            hist = hist + [[i, j, how, rng.randrange(1000)]]
        counts["differ_same_objects"] += len(hist)
        bad = differ_object_history(docs, opts, hist)
        if bad:
            k, again, fresh = bad[0]
            viols.append({"what": "one Differ fed the same tree objects again (step %d: %s) gives a different script than a new Differ: %r vs %r"
                                  % (k, hist[k][2], again, fresh),
                          "replay": {"kind": "differ-same-objects", "opts": opts, "docs": docs, "history": hist[:k + 1]}})


def edit_in_place(e, n):
    """a small deterministic revision of a tree, in place: one text, one attribute or one tail changes"""
    nodes = [x for x in e.iter() if isinstance(x.tag, str)]
    x = nodes[n % len(nodes)]
    if n % 3 == 0:
        x.text = (x.text or "") + " rev%d" % n
    elif n % 3 == 1:
        x.set("rev", str(n))
    elif x is not e:
        x.tail = (x.tail or "") + "t%d" % n
    else:
        x.text = "r%d" % n


def differ_object_history(docs, opts, hist):
    """Runs the history on ONE Differ and one set of tree objects; returns [(step, reused, fresh)] where they differ."""
    from xmldiff import main, diff
    objs = [X(d) for d in docs]
    d = diff.Differ(**opts)
    bad = []
    for k, (i, j, how, n) in enumerate(hist):
        if how == "edit-right":
            edit_in_place(objs[j], n)
        if how == "edit-left":
            edit_in_place(objs[i], n)
        li, rj = etree.tostring(objs[i]).decode(), etree.tostring(objs[j]).decode()
        fresh = call(lambda: struct(main.diff_trees(X(li), X(rj), diff_options=opts)))
        if how == "match+diff":
            call(lambda: d.match(objs[i], objs[j]))
        if how == "diff-partial":      # an earlier generator abandoned half way
            g = d.diff(objs[i], objs[j])
            call(lambda: next(g, None))
        again = call(lambda: struct(list(d.diff(objs[i], objs[j]))))
        if fresh != again:
            bad.append((k, again, fresh))
            d = diff.Differ(**opts)
    return bad


ATTR_HEAVY = [
    # names that differ only in leading zeros / digit runs / case (whatever orders them "naturally" must still be total)
    ('<t><r col1="a" col01="b" col001="c" r7c1="d" r07c1="e" A="1" a="2"/></t>',
     '<t><r col2="a" col02="b" col002="c" r7c2="d" r07c2="e" B="1" b="2"/></t>'),
    ('<t><r col1="a" col01="b" col10="c" col9="d"/></t>', '<t><r col1="x" col01="y" col10="z" col9="w"/></t>'),
    ('<a k1="1" k2="2" k3="3" k4="4" k5="5" k6="6" k7="7" k8="8"/>',
     '<a k9="1" k2="22" k3="3" kA="4" kB="5" k6="66" kC="7" kD="x" kE="y" kF="8"/>'),
    ('<a><b zeta="1" alpha="2" mid="3" omega="4" beta="5"/><b id1="q" id2="w" id3="e"/></a>',
     '<a><b gamma="1" delta="2" mid="33" omega="4" eps="5" beta2="5"/><b id4="q" id5="w" id6="e" id7="n"/></a>'),
    ('<r xmlns:p="urn:p" p:a="1" p:b="2" c="3" d="4" e="5"/>', '<r xmlns:p="urn:p" p:x="1" p:y="2" z="3" d="44" f="5" g="6"/>'),
]


def worker(path):
    """Fresh process: run the prelude, then the corpus in order; print one JSON line."""
    job = json.load(open(path))
    pollute([tuple(p) for p in job.get("prelude", [])])
    out = []
    for lx, rx, opts in job["corpus"]:
        out.append(compute(lx, rx, opts))
    extra = []
    for script, tree in job.get("patch_only", []):
        from xmldiff import main
        extra.append(call(lambda: main.patch_text(script, tree)))
    print("RESULT " + json.dumps({"out": out, "patch_only": extra, "hashseed": os.environ.get("PYTHONHASHSEED")}))


def run_worker(job, hashseed, timeout=600):
    fd, path = tempfile.mkstemp(suffix=".json", prefix="c06job")
    with os.fdopen(fd, "w") as f:
        json.dump(job, f)
    try:
        rc, out = lib.sh([sys.executable, "-m", "harness.props.C06", "--worker", path], timeout=timeout,
                         cwd=lib.VERIF, env={"PYTHONHASHSEED": str(hashseed)})
    finally:
        os.unlink(path)
    for line in out.splitlines():
        if line.startswith("RESULT "):
            return json.loads(line[7:])
    return {"error": "worker failed (rc=%s): %s" % (rc, out[-800:])}


def monitor_processes(run, rng, corpus, viols, counts):
    """Fresh subprocesses: hash seeds 0,1,2,3, a seeded random one and `random`; preludes that
    diff other documents first (same prefix -> other URI, same URI -> other prefix, the corpus reversed)."""
    seeded = str(rng.randrange(4, 2 ** 32 - 1))
    prelude_prefix, prelude_uri = [], []
    for lx, rx, _ in corpus:
        for a, b in pollution_for(lx, rx):
            (prelude_prefix if "urn:other" in a else prelude_uri).append([a, b])
    rev = list(reversed(corpus))
    variants = [("hashseed=0", "0", corpus, []), ("hashseed=1", "1", corpus, []), ("hashseed=2", "2", corpus, []),
                ("hashseed=3", "3", corpus, []), ("hashseed=%s(seeded)" % seeded, seeded, corpus, []),
                ("hashseed=random", "random", corpus, []),
                ("prelude: same prefixes bound to other URIs", "0", corpus, prelude_prefix[:60]),
                ("prelude: same URIs bound to other prefixes", "0", corpus, prelude_uri[:60]),
                ("corpus in reverse order", "0", rev, [])]
    with ThreadPoolExecutor(min(len(variants), max(2, (os.cpu_count() or 4) // 2))) as ex:
        results = list(ex.map(lambda v: run_worker({"corpus": v[2], "prelude": v[3]}, v[1]), variants))
    base = results[0]
    if "error" in base:
        viols.append({"what": "hash-seed monitor could not run: " + base["error"], "replay": {"kind": "worker-error"}})
        return
    for (name, hs, corp, prelude), res in zip(variants[1:], results[1:]):
        if "error" in res:
            viols.append({"what": "monitor subprocess failed (%s): %s" % (name, res["error"]), "replay": {"kind": "worker-error"}})
            continue
        outs = res["out"] if corp is corpus else list(reversed(res["out"]))
        for idx, ((lx, rx, opts), b, o) in enumerate(zip(corpus, base["out"], outs)):
            counts["subprocess_comparisons"] += 1
            if b == o:
                continue
            counts["subprocess_differences"] += 1
            if name.startswith("hashseed"):
                viols.append({"what": "result depends on the hash seed (%s vs 0): %r vs %r" % (hs, o, b),
                              "replay": {"kind": "hashseed", "left": lx, "right": rx, "opts": opts, "hashseed": res.get("hashseed"),
                                         "result_seed0": b, "result_other": o}})
            else:
                pre = prelude if prelude else [[c[0], c[1]] for c in corp[:len(corpus) - 1 - idx]]
                report(run, viols, lx, rx, opts, classify(lx, rx, b, o), "fresh processes, " + name,
                       {"prelude": pre, "mode": "subprocess"})
    counts["subprocess_runs"] = len(variants)
    # every namespace-introducing pair alone in a fresh process (no history at all) against its result
    # in the middle of the corpus run
    idxs = [i for i, c in enumerate(corpus) if (c[0], c[1]) in NS_INTRO + TEXT_SLIDE]
    with ThreadPoolExecutor(8) as ex:
        alone = list(ex.map(lambda i: run_worker({"corpus": [corpus[i]], "prelude": []}, "0"), idxs))
    for i, res in zip(idxs, alone):
        lx, rx, opts = corpus[i]
        counts["subprocess_runs"] += 1
        if "error" in res:
            viols.append({"what": "monitor subprocess failed (isolated pair): %s" % res["error"], "replay": {"kind": "worker-error"}})
            continue
        counts["subprocess_comparisons"] += 1
        if res["out"][0] != base["out"][i]:
            counts["subprocess_differences"] += 1
            report(run, viols, lx, rx, opts, classify(lx, rx, res["out"][0], base["out"][i]),
                   "fresh process alone vs after the documents diffed/patched before it in one process",
                   {"prelude": [[c[0], c[1]] for c in corpus[:i]], "mode": "subprocess"})


def known_stream(run, viols, counts):
    """Inputs that exhibit the recorded finding; reported under its keys on every run."""
    from xmldiff import main
    lx, rx = '<a><b/></a>', '<a><b/><p:c xmlns:p="urn:x"><p:d/></p:c></a>'
    job0 = {"corpus": [[lx, rx, {}]], "prelude": [], "patch_only": [['[insert-namespace, p, urn:x]\n[insert, /a[1], {urn:x}c, 1]', lx]]}
    job1 = dict(job0, prelude=[['<a xmlns:q="urn:x"/>', '<a xmlns:q="urn:x"><q:z/></a>']])
    with ThreadPoolExecutor(2) as ex:
        r0, r1 = list(ex.map(lambda j: run_worker(j, "0"), (job0, job1)))
    counts["known_stream"] += 2
    if "error" in r0 or "error" in r1:
        viols.append({"what": "known-finding stream could not run: %s" % (r0.get("error") or r1.get("error")), "replay": {"kind": "worker-error"}})
        return
    diffs = classify(lx, rx, r0["out"][0], r1["out"][0])
    report(run, viols, lx, rx, {}, diffs, "known-finding stream (fresh processes, with / without an earlier diff)",
           {"prelude": job1["prelude"], "mode": "subprocess"})
    counts["known_stream_differences"] += len(diffs)
    if r0["patch_only"] != r1["patch_only"]:
        a, b = r0["patch_only"][0], r1["patch_only"][0]
        script = [["InsertNamespace", "p", "urn:x"], ["InsertNode", "/a[1]", "{urn:x}c", 1]]
        rep = {"kind": "patch-history", "script": job0["patch_only"][0][0], "tree": lx, "prelude": job1["prelude"],
               "clean": a, "after_prelude": b}
        if pred_patch(lx, script) and infoset_of_text(a) is not None and infoset_of_text(a) == infoset_of_text(b):
            rep["finding_key"] = KEY_PATCH
            run.violation("patch_text output spells a created node's prefix from the global registry: %r vs %r" % (a, b), rep)
        else:
            viols.append({"what": "patch_text depends on process history: %r vs %r" % (a, b), "replay": rep})
        counts["known_stream_differences"] += 1


# ----------------------------------------------------------------------------
# the translator plug-in is fail closed: mutants of the pinned / checked code are rejected

MUTANTS = [
    ("upstream guard of diff() (defect D6)", "diff.py", "if left is not None or right is not None or not self._matches:", "if not self._matches:"),
    ("match() does not call set_trees for one document", "diff.py", "        if left is not None or right is not None:\n            self.set_trees", "        if left is not None and right is not None:\n            self.set_trees"),
    ("clear() keeps _matches", "diff.py", "        self._matches = None\n        self._l2rmap = None", "        self._l2rmap = None"),
    ("set_trees without clear()", "diff.py", "    def set_trees(self, left, right):\n        self.clear()\n", "    def set_trees(self, left, right):\n"),
    ("left not deep-copied", "diff.py", "self.left = deepcopy(left)", "self.left = left"),
    ("unsorted loop over a set", "diff.py", "for key in sorted(common_keys):", "for key in common_keys:"),
    ("list(set) iteration", "diff.py", "for key in sorted(new_keys):", "for key in list(new_keys):"),
    ("set.pop()", "diff.py", "new_keys.remove(rk)", "new_keys.pop()"),
    ("iteration over _inorder", "diff.py", "            if sibling in self._inorder:", "            if sibling in list(self._inorder):"),
    ("diff() rebinds self.right", "diff.py", "        ltree = self.left.getroottree()", "        ltree = self.left.getroottree()\n        self.right = self.right"),
    ("DiffFormatter handler with state", "formatting.py", '        return "delete", action.node', '        self.n = 1\n        return "delete", action.node'),
    ("DiffFormatter.format reads self.normalize", "formatting.py", '        res = "\\n".join(self._format_action(action) for action in diff)\n        return res\n\n    def _format_action(\n', '        res = "\\n".join(self._format_action(action) for action in diff)\n        return res + str(self.normalize)\n\n    def _format_action(\n'),
    ("XmlDiffFormatter keeps _nsmap between calls", "formatting.py", "        patcher = Patcher()\n        self._nsmap = {}\n", "        patcher = Patcher()\n        self._nsmap = getattr(self, '_nsmap', {})\n"),
    ("Patcher keeps _nsmap between calls", "patch.py", "        self._nsmap = tree.nsmap\n", "        self._nsmap = getattr(self, '_nsmap', None) or tree.nsmap\n"),
    ("Patcher patches the input tree", "patch.py", "        result = deepcopy(tree)\n", "        result = tree\n"),
    ("module-level shared Differ", "main.py", "    differ = diff.Differ(**diff_options)\n", "    differ = _SHARED\n"),
]


def translator_selftest():
    """Returns (number rejected, list of accepted mutants, control ok)."""
    import shutil
    tr = os.path.join(lib.VERIF, "translator", "xlate.py")
    os.makedirs("/var/tmp", exist_ok=True)
    scratch = tempfile.mkdtemp(prefix="xmldiff-scratch-", dir="/var/tmp")
    try:
        def run_on(name, rel=None, old=None, new=None):
            root = os.path.join(scratch, name)
            shutil.copytree(os.path.join(lib.REPO, "xmldiff"), os.path.join(root, "xmldiff"),
                            ignore=shutil.ignore_patterns("__pycache__"))
            if rel:
                p = os.path.join(root, "xmldiff", rel)
                src = open(p).read()
                if old not in src:
                    return None
                with open(p, "w") as f:
                    f.write(src.replace(old, new, 1))
            rc, out = lib.sh([sys.executable, tr, root, os.path.join(root, "out")], timeout=120)
            return rc
        control = run_on("control") == 0
        with ThreadPoolExecutor(8) as ex:
            rcs = list(ex.map(lambda im: run_on("m%d" % im[0], im[1][1], im[1][2], im[1][3]), enumerate(MUTANTS)))
        accepted = [m[0] for m, rc in zip(MUTANTS, rcs) if rc == 0]
        stale = [m[0] for m, rc in zip(MUTANTS, rcs) if rc is None]
        return sum(1 for rc in rcs if rc not in (0, None)), accepted, stale, control
    finally:
        shutil.rmtree(scratch, ignore_errors=True)


def gen_pairs(rng, n, ns_rate=.35):
    from harness.differ_props import ns_variant
    out = []
    for _ in range(n):
        ns = rng.random() < ns_rate
        L, R = gen.gen_pair(rng, 7, ns=ns, words=gen.WORDS[:8] if rng.random() < .5 else None)
        if ns and rng.random() < .5:
            L, R = ns_variant(rng, L), ns_variant(rng, R)
        out.append((xml(L), xml(R), rng.choice(OPT_SETS)))
    return out


NONROOT_NS = [
    ('<a><b/></a>', '<a><b/><p:c xmlns:p="urn:x"><p:d/></p:c></a>'),
    ('<a><b/></a>', '<a><b/><c xmlns:p="urn:y" p:k="1"><p:d/></c></a>'),
    ('<a xmlns:p="urn:p"><p:b/></a>', '<a xmlns:p="urn:p"><p:b/><w:c xmlns:w="urn:w"><w:d/><w:e/></w:c></a>'),
]


def main(run):
    rng = random.Random(run.seed)
    quick = run.tier == "quick"
    ok, pinfo = lib.proof_stage(run, "C06")
    run.log("proof stage:", "ok" if ok else "BROKEN %s" % pinfo.get("failed"))
    run.level = "partial proof"
    viols = []

    # ---- (1) correspondence ------------------------------------------------
    cases, descr = [], []
    nsets = 3 if quick else len(OPT_SETS)
    nseq = 120 if quick else 1500
    dtabs, kinds = [], {}
    fresh_calls = open_chains = 0
    for ti, opts in enumerate(OPT_SETS[:nsets]):
        pool = make_pool(rng, 11 if quick else 14)
        tb = DifferTables(opts, pool)
        fresh_calls += tb.fresh_calls
        open_chains += tb.open_chains
        trees = [X(p) for p in pool]          # the SAME lxml objects are passed again and again
        before = [snap(t) for t in trees]
        seqs = [s for s in FIXED_SEQS] + [gen_ops(rng, len(pool), rng.randint(4, 14)) for _ in range(nseq)]
        for ops in seqs:
            r = run_differ_seq(tb, trees, ops)
            cases.append("CDiffer %d %s" % (ti, lib.coq_list([x[0] for x in r])))
            descr.append({"kind": "differ-seq", "opts": opts, "pool": pool, "ops": ops, "impl": [x[1] for x in r]})
            for k, _, _ in ops:
                kinds[k] = kinds.get(k, 0) + 1
            if [snap(t) for t in trees] != before:
                viols.append({"what": "a document passed to clear/set_trees/match/diff calls on one Differ was modified",
                              "replay": {"kind": "differ-seq-mutation", "opts": opts, "pool": pool, "ops": ops}})
                trees = [X(p) for p in pool]
                before = [snap(t) for t in trees]
        dtabs.append(tb.coq())
    ndiffer = len(cases)
    pool_free = [p for p in HAND_POOL[:6]] + [xml(gen.gen_tree(rng, 5, ns=False)) for _ in range(3)]
    pool_any = HAND_POOL[6:8] + [HAND_POOL[9]]
    items = build_patch_items(rng, pool_free, pool_any, {})
    ptbl, pc, pd, nitems = patcher_corr(rng, items, 40 if quick else 400, 8)
    ftbl, fc, fd, _ = formatter_corr(rng, items, 25 if quick else 250, 8)
    cases += pc + fc
    descr += pd + fd
    pre = PRE + "Definition dtables : list tbl := %s.\nDefinition ptables : list ptbl := [%s].\nDefinition ftables : list ftbl := [%s].\n" % (
        lib.coq_list(dtabs), ptbl, ftbl) + PRE_CHECK
    bad, log = ([], "")
    if pinfo.get("build_ok"):
        bad, log = lib.run_cases("C06", pre, cases, chunk=300)
    run.log("correspondence: %d call sequences on one instance (%d Differ [%d calls], %d Patcher, %d formatter), tables from %d fresh-instance calls, "
            "%d disagreements" % (len(cases), ndiffer, sum(kinds.values()), len(pc), len(fc), fresh_calls + 2 * nitems, len(bad)))
    if open_chains:
        run.notes.append("%d repeated-diff() chains did not reach a fixed point within 8 calls (their table is open)" % open_chains)
    corr = [{"name": "Differ/Patcher/DiffFormatter/XmlDiffFormatter objects vs XV.DifferState (step, patch_obj, diff_format, old_format) at Gen.StateShape",
             "cases": len(cases), "bad": bad, "log": log, "describe": lambda i: descr[i]}]

    # ---- the translator rejects mutants of the code it pins / checks ----------
    nrej, accepted, stale, control = translator_selftest()
    run.log("translator self-test: %d of %d mutants of Differ/Patcher/formatter state handling rejected (control %s)%s" %
            (nrej, len(MUTANTS), "accepted" if control else "REJECTED", "; stale mutants: %s" % stale if stale else ""))
    if control and accepted:
        viols.append({"what": "translator/xl_state.py accepts a mutant of the pinned code: %s" % accepted,
                      "replay": {"kind": "translator-mutant", "mutants": accepted}})

    # ---- (2) monitors ------------------------------------------------------
    counts = {k: 0 for k in ("diff_trees", "differ_api", "patch_tree", "format", "history", "history_differences",
                             "nonroot_stream", "nonroot_stream_differences", "xmlformatter_reuse", "differ_reuse",
                             "subprocess_comparisons", "subprocess_differences", "subprocess_runs", "known_stream",
                             "known_stream_differences", "patcher_reuse", "formatter_reuse", "differ_same_objects")}
    pairs = gen_pairs(rng, 70 if quick else 1500)
    from harness.differ_props import XMLID_STREAM
    pairs += [(a, b, o) for a, b in XMLID_STREAM for o in ({}, {"fast_match": True})]
    pairs += [(a, b, {}) for a, b in ATTR_HEAVY] + [(HAND_POOL[i], HAND_POOL[j], {}) for i, j in ((6, 7), (7, 6), (6, 9), (9, 6), (6, 8), (4, 5))]
    monitor_mutation(rng, pairs, viols, counts)
    run.log("monitor (inputs untouched): %d diff_trees, %d Differ API, %d patch_tree, %d format calls; %d violations so far"
            % (counts["diff_trees"], counts["differ_api"], counts["patch_tree"], counts["format"], len(viols)))
    monitor_history(run, rng, pairs[: (40 if quick else 800)] + pairs[-19:], viols, counts, "history")
    # labelled stream: namespaces declared below the root (the recorded finding lives here)
    nonroot = [(a, b, {}) for a, b in NONROOT_NS]
    monitor_history(run, rng, nonroot, viols, counts, "nonroot_stream")
    known_stream(run, viols, counts)
    monitor_reuse(rng, pairs[: (50 if quick else 1000)], viols, counts)
    monitor_reuse_objects(rng, pairs[: (50 if quick else 600)], viols, counts)
    # namespace-introducing pairs, in order, in one process: base / adversarial diffs / again
    monitor_history(run, rng, [(a, b, {}) for a, b in NS_INTRO], viols, counts, "history")
    corpus = [[a, b, o] for a, b, o in (pairs[: (30 if quick else 400)] + pairs[-19:])] + [[a, b, {}] for a, b in NS_INTRO + NS_MULTI + TEXT_SLIDE]
    monitor_processes(run, rng, corpus, viols, counts)
    run.log("monitor (history): %d in-process re-computations after adversarial diffs (%d differed), non-root-namespace stream %d (%d differed), "
            "%d XMLFormatter / %d Differ reuse comparisons; %d subprocess runs, %d comparisons (%d differed); known-finding stream: %d differences"
            % (counts["history"], counts["history_differences"], counts["nonroot_stream"], counts["nonroot_stream_differences"],
               counts["xmlformatter_reuse"], counts["differ_reuse"], counts["subprocess_runs"], counts["subprocess_comparisons"],
               counts["subprocess_differences"], counts["known_stream_differences"]))
    run.log("violations found by the monitors: %d" % len(viols))

    run.log("monitor (object reuse, model independent): %d Patcher, %d formatter, %d same-tree-object Differ comparisons"
            % (counts["patcher_reuse"], counts["formatter_reuse"], counts["differ_same_objects"]))
    nmon = sum(counts[k] for k in ("diff_trees", "differ_api", "patch_tree", "format", "history", "nonroot_stream",
                                   "xmlformatter_reuse", "differ_reuse", "subprocess_comparisons", "known_stream",
                                   "patcher_reuse", "formatter_reuse", "differ_same_objects"))
    nontrivial = len({json.dumps(d, sort_keys=True) for d in descr if d["kind"] == "differ-seq" and
                      any(isinstance(x, list) and x for x in d["impl"])})
    run.coverage.update({
        "evaluations": len(cases) + nmon,
        "distinct_nontrivial": nontrivial + len({(a, b) for a, b, _ in pairs if a != b}),
        "rule": "correspondence: seeded call sequences (4..14 calls: clear / set_trees / match / diff with both, one or no document) on ONE Differ per "
                "sequence over a pool of %d documents per option set (%d option sets), plus fixed sequences for every theorem of C06.v; one Patcher, "
                "one DiffFormatter, one XmlDiffFormatter per sequence of 8 calls; model tables from fresh instances.  monitors: seeded pairs (<= 7 nodes, "
                "namespaces, comments, tails) + attribute-heavy + prefix-clash documents.  non-trivial = a sequence with a non-empty script / a pair of "
                "different documents" % (11 if quick else 14, nsets),
        "correspondence_counts": {"sequences": len(cases), "differ_sequences": ndiffer, "differ_calls": sum(kinds.values()),
                                  "patcher_sequences": len(pc), "formatter_sequences": len(fc), "fresh_instance_calls_for_tables": fresh_calls + 2 * nitems,
                                  "disagreements": len(bad)},
        "monitor_counts": counts,
        "translator_selftest": {"mutants": len(MUTANTS), "rejected": nrej, "accepted": accepted, "not_applicable": stale, "control_accepted": control},
        "input_distribution": {"differ_ops": kinds, "option_sets": OPT_SETS[:nsets], "monitor_pairs": len(pairs)},
        "samples": [descr[len(FIXED_SEQS)], descr[ndiffer], {"pair": pairs[0]}],
    })
    run.assumptions = [
        "MONITORED, NOT PROVED (testing on this run): the lxml trees and the action list passed in are not mutated "
        "(snapshot = serialisation + per node tag/text/tail/attribute order/nsmap/prefix, repr of the action list, before and after every call)",
        "MONITORED, NOT PROVED (testing on this run): nothing flows through process-global state (lxml's register_namespace table, difflib "
        "SequenceMatcher caches): results recomputed after adversarial diffs in the same process and in fresh subprocesses with preludes",
        "MONITORED, NOT PROVED (testing on this run): hash-seed independence, fresh subprocesses under PYTHONHASHSEED 0,1,2,3, a seeded value and `random`; "
        "the proved part is the sorted() loops of update_node_attr (C06_iteration_order) and the syntactic check that class Differ never iterates a set otherwise",
        "modelling assumption validated by the correspondence: the matching phase and the diff generator are functions of (working copy, right tree, "
        "matching state) -- match_fn / script_fn are tables taken from fresh instances",
        "diff() is modelled as list(differ.diff(..)): interleaving partially consumed generators of one Differ is outside the model",
        "calls WITHOUT documents are history dependent by construction (C06_differ_repeat last clause, C06_differ_noarg_repeat_refuted, "
        "C06_differ_no_trees); the property is claimed for calls that pass the documents",
    ]
    run.notes.append("runtime half of C06 is testing: %d monitored calls/comparisons; object-level half is proved (Properties/C06.v) and tied by %d sequences" % (nmon, len(cases)))
    run.notes.append("refutation replayed on the implementation: set_trees(l,r); diff(); diff() -> second result %r; match(); match() on a new Differ -> %r"
                     % (descr[1]["impl"][2], descr[0]["impl"][:2]))

    def deeper():
        out = []
        r2 = random.Random(run.seed + 5)
        more = gen_pairs(r2, 300)
        c2 = {k: 0 for k in counts}
        monitor_mutation(r2, more, out, c2)
        monitor_reuse(r2, more, out, c2)
        monitor_reuse_objects(r2, more, out, c2)
        return out

    viols.sort(key=lambda v: len(json.dumps(v["replay"], default=str)))
    lib.conclude(run, ok, pinfo, corr, viols, deeper)


# ----------------------------------------------------------------------------


def replay(run, path):
    from xmldiff import main as M, formatting, diff
    d = json.load(open(path))
    kind = d.get("kind")
    if kind == "mutation":
        v = []
        c = {k: 0 for k in ("diff_trees", "differ_api", "patch_tree", "format")}
        monitor_mutation(random.Random(0), [(d["left"], d["right"], d["opts"])], v, c)
        for x in v:
            print("violation:", x["what"])
        print("input mutation reproduced" if v else "property holds on this input")
        return 1 if v else 0
    if kind == "history":
        r0 = run_worker({"corpus": [[d["left"], d["right"], d["opts"]]], "prelude": []}, "0")
        r1 = run_worker({"corpus": [[d["left"], d["right"], d["opts"]]], "prelude": d.get("prelude", [])}, "0")
        diffs = classify(d["left"], d["right"], r0["out"][0], r1["out"][0])
        for f, k, info in diffs:
            print("%s: %s %s" % (f, k, info))
        print("fresh process:        ", json.dumps(r0["out"][0])[:600])
        print("after diffing prelude:", json.dumps(r1["out"][0])[:600])
        print("history dependence reproduced" if diffs else "property holds on this input")
        return 1 if diffs else 0
    if kind == "patch-history":
        r0 = run_worker({"corpus": [], "prelude": [], "patch_only": [[d["script"], d["tree"]]]}, "0")
        r1 = run_worker({"corpus": [], "prelude": d["prelude"], "patch_only": [[d["script"], d["tree"]]]}, "0")
        print("fresh process:", r0["patch_only"], " after prelude:", r1["patch_only"])
        return 1 if r0["patch_only"] != r1["patch_only"] else 0
    if kind == "hashseed":
        seen = {}
        for hs in ["0", "1", "2", "3", str(d.get("hashseed") or "random"), "random", "random"]:
            r = run_worker({"corpus": [[d["left"], d["right"], d["opts"]]], "prelude": []}, hs)
            seen.setdefault(json.dumps(r.get("out")), []).append(hs)
        for k, v in seen.items():
            print("hash seeds %s -> %s" % (v, k[:500]))
        print("hash-seed dependence reproduced" if len(seen) > 1 else "property holds on this input")
        return 1 if len(seen) > 1 else 0
    if kind == "differ-reuse":
        dd = diff.Differ(**d["opts"])
        bad = 0
        for lx, rx in d["history"]:
            fresh = call(lambda: struct(M.diff_trees(X(lx), X(rx), diff_options=d["opts"])))
            again = call(lambda: struct(list(dd.diff(X(lx), X(rx)))))
            if fresh != again:
                bad += 1
                print("reused differ:", again, " new differ:", fresh)
        print("reuse dependence reproduced" if bad else "property holds on this input")
        return 1 if bad else 0
    if kind == "text-history":
        rec = compute(d["left"], d["right"], d["opts"])
        print("diff_texts:", rec["t_script"], "\nafter the xml formatter on the same strings:", rec["t_script_after_xml"])
        bad = rec["t_script"] != rec["t_script_after_xml"]
        print("history dependence reproduced" if bad else "property holds on this input")
        return 1 if bad else 0
    if kind == "object-reuse":
        from xmldiff import patch as P
        mk = {"Patcher": P.Patcher, "DiffFormatter": formatting.DiffFormatter, "XmlDiffFormatter": formatting.XmlDiffFormatter,
              "XMLFormatter": formatting.XMLFormatter}[d["object"]]
        shared, bad = mk(), 0
        for lx, rx in d["history"]:
            acts = call(lambda: list(M.diff_trees(X(lx), X(rx))))
            if is_exc(acts):
                continue
            if d["object"] == "Patcher":
                fresh = call(lambda: etree.tostring(P.Patcher().patch(list(acts), X(lx))).decode())
                again = call(lambda: etree.tostring(shared.patch(list(acts), X(lx))).decode())
            else:
                fresh = call(lambda: M.diff_trees(X(lx), X(rx), formatter=mk()))
                again = call(lambda: M.diff_trees(X(lx), X(rx), formatter=shared))
            if fresh != again:
                bad += 1
                print("reused %s:" % d["object"], again, "\nnew object:", fresh)
        print("reuse dependence reproduced" if bad else "property holds on this input")
        return 1 if bad else 0
    if kind == "differ-same-objects":
        hist = [h if len(h) == 4 else list(h) + [0] for h in d["history"]]
        bad = differ_object_history(d["docs"], d["opts"], hist)
        for k, again, fresh in bad:
            print("step", k, "reused differ:", again, " new differ:", fresh)
        print("reuse dependence reproduced" if bad else "property holds on this input")
        return 1 if bad else 0
    if kind == "xml-reuse":
        cfg = {k: tuple(v) if isinstance(v, list) else v for k, v in d["cfg"].items()}
        shared = formatting.XMLFormatter(**cfg)
        bad = 0
        for lx, rx, opts in d["history"]:
            fresh = call(lambda: M.diff_trees(X(lx), X(rx), diff_options=opts, formatter=formatting.XMLFormatter(**cfg)))
            again = call(lambda: M.diff_trees(X(lx), X(rx), diff_options=opts, formatter=shared))
            if fresh != again and not (is_exc(fresh) and is_exc(again)):
                bad += 1
                print("reused formatter:", again, "\nnew formatter:", fresh)
        print("reuse dependence reproduced" if bad else "property holds on this input")
        return 1 if bad else 0
    if kind == "translator-mutant":
        nrej, accepted, stale, control = translator_selftest()
        print("accepted mutants:", accepted, "control accepted:", control)
        return 1 if accepted else 0
    if kind is None and d.get("disagreeing_cases"):
        d = d["disagreeing_cases"][0]
        kind = d.get("kind")
    if kind in ("differ-seq", "differ-seq-mutation"):
        tb = DifferTables(d["opts"], d["pool"])
        trees = [X(p) for p in d["pool"]]
        before = [snap(t) for t in trees]
        r = run_differ_seq(tb, trees, [tuple(o) for o in d["ops"]])
        for o, x in zip(d["ops"], r):
            print(o, "->", x[1])
        if [snap(t) for t in trees] != before:
            print("a document passed to the calls was modified")
            return 1
        if kind == "differ-seq-mutation":
            print("property holds on this input")
            return 0
        pre = PRE + "Definition dtables : list tbl := [%s].\nDefinition ptables : list ptbl := [].\nDefinition ftables : list ftbl := [].\n" % tb.coq() + PRE_CHECK
        bad, log = lib.run_cases("C06replay", pre, ["CDiffer 0 %s" % lib.coq_list([x[0] for x in r])])
        print("model and implementation disagree on this sequence" if bad else "model and implementation agree on this sequence", log[-500:])
        return 1 if bad else 0
    if kind in ("patcher-seq", "diff-formatter-seq", "old-formatter-seq"):
        from xmldiff.patch import Patcher
        objs = {"patcher-seq": Patcher(), "diff-formatter-seq": formatting.DiffFormatter(), "old-formatter-seq": formatting.XmlDiffFormatter()}
        obj, bad = objs[kind], 0
        for c in d["calls"]:
            acts = unstruct(c["actions"])
            tr = lambda: None if c["tree"] is None else X(c["tree"])
            if kind == "patcher-seq":
                fresh, again = call(lambda: Patcher().patch(acts, tr())), call(lambda: obj.patch(acts, tr()))
                fresh, again = [x if is_exc(x) else infoset(x) for x in (fresh, again)]
            else:
                fresh, again = call(lambda: type(obj)().format(acts, tr())), call(lambda: obj.format(acts, tr()))
            if fresh != again:
                bad += 1
                print("reused object:", again, " new object:", fresh)
        print("reuse dependence reproduced" if bad else "the reused object agrees with new objects on this sequence "
              "(the recorded disagreement was between implementation and model tables)")
        return 1 if bad else 0
    print("replay names a broken tie, not an input:", d.get("broken") or d.get("what"))
    return 1


if __name__ == "__main__":
    if len(sys.argv) == 3 and sys.argv[1] == "--worker":
        worker(sys.argv[2])
