"""C02 -- the textual edit script survives the xmldiff -> xmlpatch pipeline."""
import itertools, json, random, re
from harness import lib, gen
from harness.lib import coq_str, coq_list

PRE = """From Coq Require Import List NArith ZArith Bool. Import ListNotations.
Require Import XV.TextFormat XV.Gen.TextTables.
Inductive case :=
| CDumps (s : str) (e : str) | CLoads (s : str) (e : jres) | CStrip (s e : str)
| CSplitlines (s : str) (e : list str) | CInt (s : str) (e : option Z) | CStrZ (z : Z) (e : str)
| CSplit (s : str) (e : list str) | CCleanup (s e : str)
| CFormat (acts : list gaction) (e : res str) | CParse (s : str) (e : res (list gaction)).
Definition err_eqb (a b : err) := match a, b with ETypeError, ETypeError | EValueError, EValueError
  | EAttributeError, EAttributeError | EIndexError, EIndexError => true | _, _ => false end.
Definition res_eqb {A} (f : A -> A -> bool) (a b : res A) := match a, b with
  | Ok x, Ok y => f x y | Err x, Err y => err_eqb x y | _, _ => false end.
Definition jres_match (model impl : jres) := match model, impl with
  | JOther, _ => true | JVal a, JVal b => pyval_eqb a b | JErr, JErr => true | _, _ => false end.
Definition oz_eqb (a b : option Z) := match a, b with None, None => true | Some x, Some y => Z.eqb x y | _, _ => false end.
Definition check (c : case) : bool := match c with
| CDumps s e => str_eqb (dumps_str s) e
| CLoads s e => jres_match (loads s) e
| CStrip s e => str_eqb (strip s) e
| CSplitlines s e => list_eqb str_eqb (splitlines s) e
| CInt s e => oz_eqb (int_of_str s) e
| CStrZ z e => str_eqb (str_of_Z z) e
| CSplit s e => list_eqb str_eqb (split_params s) e
| CCleanup s e => str_eqb (cleanup_whitespace s) e
| CFormat a e => res_eqb str_eqb (format tables a) e
| CParse s e => res_eqb (list_eqb gaction_eqb) (parse tables s) e
end.
"""

ERR = {"TypeError": "ETypeError", "ValueError": "EValueError", "AttributeError": "EAttributeError",
       "IndexError": "EIndexError"}


def err_name(ex):
    for cls in type(ex).__mro__:
        if cls.__name__ in ERR:
            return ERR[cls.__name__]
    return None


def coq_pyval(v):
    if v is None:
        return "PNone"
    if isinstance(v, bool):
        raise ValueError("unmodelled")
    if isinstance(v, int):
        return "(PInt (%d)%%Z)" % v
    if isinstance(v, str):
        return "(PStr %s)" % coq_str(v)
    raise ValueError("unmodelled")


def coq_action(a):
    return "(GA %s %s)" % (coq_str(type(a).__name__), coq_list([coq_pyval(v) for v in a]))


def impl_format(acts):
    from xmldiff.formatting import DiffFormatter
    try:
        return "Ok", DiffFormatter().format(acts, None)
    except Exception as ex:  # noqa
        return "Err", err_name(ex)


class Unmodelled(Exception):
    pass


def impl_parse(text):
    """list(DiffParser().parse(text)) or the exception class.  Cases in which
    CPython's int()/json.loads accept input outside the modelled fragment are
    flagged (returned as None) and skipped by the caller."""
    import xmldiff.patch as P
    from json import loads as real_loads
    flag = []

    def my_loads(s):
        v = real_loads(s)
        if not (v is None or isinstance(v, str)):
            flag.append(s)
        else:
            t = s.strip(" \t\n\r")
            if not (t[:1] in ('"', 'n')):
                flag.append(s)
        return v

    def my_int(s):
        v = int(s)
        if not re.fullmatch(r"[+-]?[0-9]+", s.strip()):
            flag.append(s)
        return v
    P.loads, P.int = my_loads, my_int
    try:
        try:
            r = list(P.DiffParser().parse(text))
            out = ("Ok", r)
        except Exception as ex:  # noqa
            out = ("Err", err_name(ex))
    finally:
        P.loads = real_loads
        del P.int
    if flag or (out[0] == "Err" and out[1] is None):
        return None
    return out


def res_term(r, okf):
    return "(Ok %s)" % okf(r[1]) if r[0] == "Ok" else "(Err %s)" % r[1]


def oracle_roundtrip(acts):
    """What C02 states, on the implementation: format then parse gives the same
    actions, one action per line."""
    from xmldiff.formatting import DiffFormatter
    from xmldiff.patch import DiffParser
    try:
        text = DiffFormatter().format(acts, None)
    except Exception as ex:  # noqa
        return "formatting raised %r" % ex
    try:
        back = list(DiffParser().parse(text))
    except Exception as ex:  # noqa
        return "parsing the formatted script raised %r" % ex
    if back != list(acts) or [type(a) for a in back] != [type(a) for a in acts]:
        return "parse(format(actions)) differs: %r" % (back,)
    if len(text.splitlines()) != len(acts):
        return "%d lines for %d actions" % (len(text.splitlines()), len(acts))
    # the 'diff' formatter in every configuration (the command line builds it with normalize=WS_BOTH unless -w)
    for kw in (dict(normalize=0), dict(normalize=2), dict(normalize=3), dict(normalize=3, pretty_print=True)):
        try:
            t2 = DiffFormatter(**kw).format(acts, None)
            b2 = list(DiffParser().parse(t2))
        except Exception as ex:  # noqa
            return "DiffFormatter(%r): %r" % (kw, ex)
        if b2 != list(acts):
            return "parse(DiffFormatter(%r).format(actions)) differs: %r" % (kw, b2)
    # the same with ONE formatter / parser object that has been used before, also on scripts it rejected
    sh = _shared()
    try:
        text2 = sh[0].format(acts, None)
        back2 = list(sh[1].parse(text2))
    except Exception as ex:  # noqa
        return "a DiffFormatter / DiffParser object used before raised %r on a script new objects round-trip" % ex
    if text2 != text or back2 != list(acts):
        return "a DiffFormatter / DiffParser object used before gives %r / %r, new objects %r / the actions" % (text2, back2, text)
    return None


_SHARED = []


def _shared():
    from xmldiff.formatting import DiffFormatter
    from xmldiff.patch import DiffParser
    if not _SHARED:
        _SHARED.extend([DiffFormatter(), DiffParser()])
    return _SHARED


def poison(text):
    """Feed the shared parser and the text-level entry point scripts that must be rejected because their LAST line is cut
    off (no closing bracket): a one-line script cut short -- so that the parser really reaches the unfinished end --, the
    whole script cut in the middle of an action, and a fixed one; whatever that leaves behind must not show in later calls."""
    from xmldiff import main
    first = text.split("\n")[0]
    cuts = [first.rstrip("] "), text[:max(1, len(text) * 2 // 3)].rstrip("]\n "), "[delete, /a/b[1", '[update-text, /a/b[1], "unfinished']
    for cut in cuts:
        for f in (lambda: list(_shared()[1].parse(cut)), lambda: main.patch_text(cut, "<a><b>t</b></a>")):
            try:
                f()
            except Exception:  # noqa
                pass


ENTITY_DOCS = [
    ('<!DOCTYPE r [<!ENTITY e "x">]><r><a>1 &e; 2</a>&e;<b/></r>', '<!DOCTYPE r [<!ENTITY e "x">]><r><a>1 &e; 3</a>&e;<c/><b k="&e;"/></r>'),
    ('<!DOCTYPE doc [<!ENTITY co "ACME"><!ENTITY yr "2026">]><doc><p>&co; &yr;</p><q/></doc>',
     '<!DOCTYPE doc [<!ENTITY co "ACME"><!ENTITY yr "2026">]><doc><q/><p>&co; and &co; &yr;</p></doc>'),
]


# Namespace names are written into the script as they are ({uri}name, and the uri of insert-namespace); a comma in
# one (legal in a URI: the tag: scheme of RFC 4151 has one in every name) used to be read as a field separator by
# DiffParser (found in session 3 by a sub-agent writing seeded changes; repaired in /repo: "fix: DiffParser splits a
# namespace URI at its commas").  Regression stream.
TAGURI = "tag:example.org,2005:x"
COMMA_URI_DOCS = [
    ('<a xmlns:p="%s"><p:b/></a>' % TAGURI, '<a xmlns:p="%s"><p:c/></a>' % TAGURI),                  # rename
    ('<a xmlns:p="%s"><p:b/></a>' % TAGURI, '<a xmlns:p="%s"><p:b p:k="1"/></a>' % TAGURI),          # insert-attribute
    ('<a xmlns:p="%s"><p:b/></a>' % TAGURI, '<a xmlns:p="%s"><p:b/><p:b>x</p:b></a>' % TAGURI),      # insert
    ('<a/>', '<a xmlns:p="%s"/>' % TAGURI),                                                           # insert-namespace
    ('<a xmlns:p="%s"><b p:k="v"/></a>' % TAGURI, '<a xmlns:p="%s"><b p:j="v"/></a>' % TAGURI),      # rename-attribute
    ('<a/>', '<a xmlns:p="urn:a,,b"/>'), ('<a/>', '<a xmlns:p="urn:a," xmlns:q=",x"><q:k/></a>'),                   # empty pieces of the re-joined uri
    ('<a xmlns:p="u,,v,"><p:b/></a>', '<a xmlns:p="u,,v,"><p:c p:k=","/></a>'),
    # not affected: the names do not reach the script
    ('<a xmlns:p="%s"><p:b>1</p:b></a>' % TAGURI, '<a xmlns:p="%s"><p:b>2</p:b></a>' % TAGURI),
    ('<a xmlns:p="%s"><p:b/><p:c/></a>' % TAGURI, '<a xmlns:p="%s"><p:c/><p:b/></a>' % TAGURI),
]


# prefixes that LOOK like lxml's automatic ones but are not (`ns`, `ns1x`, `xns0`): the right root declares them, an
# inserted element uses them and a later action addresses that element again by its prefixed path
PREFIX_DOCS = [
    ('<r><k/></r>', '<r xmlns:%s="urn:n"><k/><%s:a><%s:b>t</%s:b></%s:a></r>' % ((p_,) * 5)) for p_ in ("ns", "nsx", "xns0", "n", "NS1")
] + [
    ('<r xmlns:ns="urn:n"><ns:a/></r>', '<r xmlns:ns="urn:n"><ns:a><ns:b ns:k="1"/></ns:a><ns:c/></r>'),
]


def oracle_pipeline_text(l, r, what="documents with an internal DTD subset"):
    """the text-level pipeline on document STRINGS (declarations and all): xmlpatch(xmldiff(l, r), l) = r"""
    from xmldiff import main, formatting
    from lxml import etree
    try:
        d = main.diff_texts(l, r, formatter=formatting.DiffFormatter(normalize=formatting.WS_NONE))
        out = main.patch_text(d, l)
        if gen.canon(etree.fromstring(out)) != gen.canon(etree.fromstring(r)):
            return "patch_text(diff_texts(l, r), l) != r for %s: %r" % (what, out[:200])
    except Exception as ex:  # noqa
        return "pipeline raised %r on %s" % (ex, what)
    return None


def oracle_pipeline(L, R):
    from xmldiff import main, formatting
    from lxml import etree
    l, r = etree.tostring(L).decode(), etree.tostring(R).decode()
    try:
        d = main.diff_texts(l, r, formatter=formatting.DiffFormatter(normalize=formatting.WS_NONE))
        if d and len(d) % 3 == 0:
            poison(d)
        out = main.patch_text(d, l)
        if gen.canon(etree.fromstring(out)) != gen.canon(etree.fromstring(r)):
            return "patch_text(diff_texts(l, r), l) != r", l, r
    except Exception as ex:  # noqa
        return "pipeline raised %r" % ex, l, r
    return None


def main(run):
    rng = random.Random(run.seed)
    ok, pinfo = lib.proof_stage(run, "C02")
    run.log("proof stage:", "ok" if ok else "BROKEN %s" % pinfo.get("failed"))
    quick = run.tier == "quick"
    cases, descr, viols = [], [], []
    kinds = {}

    def add(kind, term, d):
        cases.append(term); descr.append(d); kinds[kind] = kinds.get(kind, 0) + 1

    # -- 1. unit functions on an exhaustive critical alphabet -------------------
    alpha = ['a', ',', '"', '\\', ' ', '\n', '\r', 'u', 'n', '0', '\x85', '\x1c', '{', '}'] if quick else \
        ['a', ',', '"', '\\', ' ', '\n', '\r', 'u', 'n', '0', '\x85', '\x1c', '{', '}', '\t', '[', ']', ' ', '-', '\x7f']
    maxlen = 3
    strs = [''.join(t) for n in range(maxlen + 1) for t in itertools.product(alpha, repeat=n)]
    strs += [gen.rand_str(rng, gen.CRIT, 12) for _ in range(300 if quick else 3000)]
    # fields the way the formatter writes them: blank, then a Clark name whose namespace part is arbitrary
    strs += ["".join(rng.choice([' ', '{', '}', ',', '"', 'a', ' {', ', ', '\\']) for _ in range(rng.randint(2, 9))) for _ in range(300 if quick else 3000)]
    from xmldiff.utils import cleanup_whitespace
    from xmldiff.patch import DiffParser
    for s in strs:
        add("dumps", "CDumps %s %s" % (coq_str(s), coq_str(json.dumps(s))), ("dumps", s))
        add("strip", "CStrip %s %s" % (coq_str(s), coq_str(s.strip())), ("strip", s))
        add("splitlines", "CSplitlines %s %s" % (coq_str(s), coq_list([coq_str(x) for x in s.splitlines()])), ("splitlines", s))
        if hasattr(DiffParser, "_split"):
            # (when the field splitter is gone the translator's pin reports it; the parse stream and the round-trip
            # oracle below still exercise whatever splits the fields now)
            add("split", "CSplit %s %s" % (coq_str(s), coq_list([coq_str(x) for x in DiffParser()._split(s)])), ("_split", s))
        add("cleanup", "CCleanup %s %s" % (coq_str(s), coq_str(cleanup_whitespace(s))), ("cleanup_whitespace", s))
    jsrc = [json.dumps(s) for s in strs[:4000]] + ['"' + s + '"' for s in strs[:4000]] + strs[:2500] + \
        ['null', ' null ', 'nul', 'nulls', '"\\ud83d\\ude00"', '"\\ud83d\\u0041"', '"\\ud83d"', '"\\uD83D\\uDE00"',
         '"\\u00E9"', '"\\u12"', '"\\x"', '"\\/"', '"a" x', ' "a"\t', '"\\ud83d\\ud83d\\ude00"']
    for s in jsrc:
        try:
            v = json.loads(s)
            e = "(JVal %s)" % coq_pyval(v) if (v is None or isinstance(v, str)) else "JOther"
        except ValueError:
            e = "JErr"
        add("loads", "CLoads %s %s" % (coq_str(s), e), ("loads", s))
    ints = ['12', '+12', '-0', ' 1', '', '-', '1.0', '0x1', '--1', '00012', ' 7 ', 'a', '1a', '99999999999999999999999', '-5 ', '+', '5\n']
    for s in ints:
        try:
            e = "(Some (%d)%%Z)" % int(s)
        except ValueError:
            e = "None"
        add("int", "CInt %s %s" % (coq_str(s), e), ("int", s))
    for z in [0, 1, 9, 10, 11, 99, 100, 101, 12345, -1, -10, 10**20, 2**64, 999, 1000] + [rng.randint(-10**6, 10**12) for _ in range(40)]:
        add("str", "CStrZ (%d)%%Z %s" % (z, coq_str(str(z))), ("str", z))

    # -- 2. formatter / parser on action lists ----------------------------------
    nwf = 250 if quick else 2500
    scripts = []
    for i in range(nwf):
        wf = rng.random() < 0.7
        acts = [gen.rand_action(rng, wf) for _ in range(rng.choice([0, 1, 1, 2, 3, 5]))]
        scripts.append((wf, acts))
    texts = []
    nrt = 0
    for wf, acts in scripts:
        try:
            term = coq_list([coq_action(a) for a in acts])
        except ValueError:
            continue
        r = impl_format(acts)
        if r[0] == "Err" and r[1] is None:
            continue
        add("format", "CFormat %s %s" % (term, res_term(r, coq_str)), ("format", [repr(a) for a in acts]))
        if r[0] == "Ok":
            texts.append(r[1])
        if wf:
            nrt += 1
            why = oracle_roundtrip(acts)
            if why:
                viols.append({"what": why, "replay": {"kind": "roundtrip", "actions": [[type(a).__name__] + list(a) for a in acts]}})
    # malformed stream for the parser
    mal = list(texts)
    for t in texts:
        if not t:
            continue
        for _ in range(2):
            k = rng.randrange(6)
            i = rng.randrange(len(t))
            if k == 0:
                mal.append(t[:i] + '\n' + t[i:])
            elif k == 1:
                mal.append(t[:i] + t[i + 1:])
            elif k == 2:
                mal.append(t[:i] + rng.choice([',', '"', '\\', ']', '[', ' ']) + t[i:])
            elif k == 3:
                mal.append(t[:i])
            elif k == 4:
                mal.append(t.replace(', ', ',', 1))
            else:
                mal.append(t + rng.choice(['\n', '\n\n', '\r\n[', ' ', '\n[x]']))
    mal += ["", "Not a diff", '[insert-comment, target,\n 0, "text"]', "[insert-comment, target,\n", "[]", "[", "]",
            "[delete]", "[delete, a, b]", "[frobnicate, x]", "[delete-namespace, p]\n[insert-namespace, p, urn:x]",
            '[update-text, /a[1], null]', '[update-text, /a[1], "a, b"]', '[move, /a[1], /b[1], x]', "\n[delete, a]",
            '[update-text, /a[1], "x\\"y, z"]', '[update-text, /a[1],"tight"]', "[delete, /a[1]]\x0c[delete, /b[1]]"]
    nskip = 0
    for t in mal:
        r = impl_parse(t)
        if r is None:
            nskip += 1
            continue
        try:
            term = res_term(r, lambda acts: coq_list([coq_action(a) for a in acts]))
        except ValueError:
            nskip += 1
            continue
        add("parse", "CParse %s %s" % (coq_str(t), term), ("parse", t))

    # -- 3. the pipeline on documents -------------------------------------------
    # documents with an internal DTD subset: general entities used in element content and attribute values
    from lxml import etree as _et
    for l_, r_ in ENTITY_DOCS:
        w = oracle_pipeline_text(l_, r_)
        if w:
            viols.append({"what": w, "replay": {"kind": "pipeline-text", "left": l_, "right": r_}})
    for l_, r_ in PREFIX_DOCS:
        w = oracle_pipeline_text(l_, r_, "documents whose right root declares a prefix of its own")
        if w:
            viols.append({"what": w, "replay": {"kind": "pipeline-text", "left": l_, "right": r_}})
    for l_, r_ in COMMA_URI_DOCS:
        w = oracle_pipeline_text(l_, r_, "documents whose namespace name contains a comma")
        if w:
            viols.append({"what": w, "replay": {"kind": "pipeline-text", "left": l_, "right": r_}})
    npipe = 150 if quick else 2000
    for _ in range(npipe):
        if rng.random() < .25:     # tag and attribute names that look like JSON literals / action keywords
            L, R = gen.gen_pair(rng, 6, ns=False, words=gen.WORDS, tags=['null', 'true', 'NaN', 'a', 'insert'], attrs=['null', 'false', 'Infinity', 'i'])
        else:
            L, R = gen.gen_pair(rng, 7, ns=rng.random() < .4, words=gen.WORDS)
        w = oracle_pipeline(L, R)
        if w:
            viols.append({"what": w[0], "replay": {"kind": "pipeline", "left": w[1], "right": w[2]}})

    bad, log = ([], "")
    if pinfo.get("build_ok"):
        bad, log = lib.run_cases("C02", PRE, cases, chunk=2500)
    run.log("correspondence: %d cases %s, %d disagreements (%d parser inputs outside the modelled fragment skipped); "
            "oracle: %d round-trips, %d pipelines, %d violations" % (len(cases), kinds, len(bad), nskip, nrt, npipe, len(viols)))
    for i in bad[:5]:
        run.log("  disagreement:", descr[i])
    corr = [{"name": "DiffFormatter/DiffParser/json/str helpers vs XV.TextFormat over Gen.TextTables", "cases": len(cases),
             "bad": bad, "log": log, "describe": lambda i: {"case": descr[i]}}]

    def deeper():
        out = []
        r2 = random.Random(run.seed + 7)
        for _ in range(20000):
            acts = [gen.rand_action(r2, True) for _ in range(r2.choice([1, 1, 2, 3]))]
            why = oracle_roundtrip(acts)
            if why:
                out.append({"what": why, "replay": {"kind": "roundtrip", "actions": [[type(a).__name__] + list(a) for a in acts]}})
                if len(out) >= 10:
                    break
        out.sort(key=lambda v: len(json.dumps(v["replay"])))
        return out

    run.coverage.update({
        "evaluations": len(cases) + nrt + npipe,
        "distinct_nontrivial": len(set(cases)),
        "rule": "unit functions on all strings up to length %d over %d critical characters plus seeded longer ones; "
                "seeded action lists (70%% well-formed over a critical value alphabet, 30%% ill-typed); parser fed formatter output "
                "and mutated/malformed scripts; distinct = distinct case terms" % (maxlen, len(alpha)),
        "input_distribution": kinds,
        "oracle_roundtrips": nrt, "oracle_pipelines": npipe, "skipped_unmodelled_parser_inputs": nskip,
        "samples": [repr(descr[i]) for i in (0, len(cases) // 2, len(cases) - 1)] + [repr(s[1][:2]) for s in scripts[:2]],
    })
    run.assumptions = ["CPython json.dumps/loads, str.strip/splitlines, int/str as modelled in Json.v/Str.v (validated by the exhaustive small-alphabet sweep on every run)",
                       "translator/xlate.py reads the formatter/parser tables correctly (its output is executed against the real formatter and parser on every run)"]
    lib.conclude(run, ok, pinfo, corr, viols, deeper)


def replay(run, path):
    d = json.load(open(path))
    if d.get("kind") == "roundtrip":
        from xmldiff import actions as A
        acts = [getattr(A, a[0])(*a[1:]) for a in d["actions"]]
        poison('[update-text, /a/b[1], "some text"]\n[delete, /a[1]]')     # the shared objects have a history in the check, too
        why = oracle_roundtrip(acts)
        print(why or "property holds on this input")
        return 1 if why else 0
    if d.get("kind") == "pipeline-text":
        w = oracle_pipeline_text(d["left"], d["right"])
        print(w or "property holds on this input")
        return 1 if w else 0
    if d.get("kind") == "pipeline":
        from lxml import etree
        w = oracle_pipeline(etree.fromstring(d["left"]), etree.fromstring(d["right"]))
        print(w[0] if w else "property holds on this input")
        return 1 if w else 0
    print("replay names a broken tie, not an input:", d.get("broken"))
    return 1
