"""C12 -- the LCS helper returns a valid, ordered, maximum-length common subsequence."""
import itertools, json, random
from harness import lib


def impl_lcs(n, m, rel):
    from xmldiff.utils import longest_common_subsequence as lcs

    def pred(x, y):
        # a legitimate predicate may itself use the helper (re-entrancy): a similarity defined through an
        # inner LCS.  Its value is still a function of (x, y) only.
        if (x + 2 * y) % 3 == 0:
            inner = lcs([1, 2, 3, 4, 5], [3, 1, 5, 2], lambda a, b: a == b)
            inner = list(inner) if inner is not None else None
            assert inner is None or len(inner) <= 4
        # any truthy / falsy answer is a legitimate answer of a predicate: a count, a margin, a bit mask
        return (3 + x + y) if rel[x][y] else 0
    try:
        a, b = list(range(n)), list(range(m))
        r = lcs(a, b, pred)
        # the caller goes on using its lists: what the helper hands back describes the sequences it was CALLED with
        a.reverse(); a.append(-1); b.clear()
        return None if r is None else [tuple(p) for p in r]
    except Exception as ex:  # noqa
        return "exc:" + type(ex).__name__


def dp_len(n, m, rel):
    dp = [[0] * (m + 1) for _ in range(n + 1)]
    for i in range(1, n + 1):
        for j in range(1, m + 1):
            dp[i][j] = max(dp[i - 1][j], dp[i][j - 1], dp[i - 1][j - 1] + (1 if rel[i - 1][j - 1] else 0))
    return dp[n][m]


def oracle(n, m, rel, res):
    """What the property states, evaluated on the implementation's answer."""
    if res is None or isinstance(res, str):
        return "helper returned %r" % (res,)
    for (i, j) in res:
        if not (0 <= i < n and 0 <= j < m):
            return "pair %r out of range" % ((i, j),)
        if not rel[i][j]:
            return "pair %r does not satisfy the predicate" % ((i, j),)
    for p, q in zip(res, res[1:]):
        if not (p[0] < q[0] and p[1] < q[1]):
            return "pairs %r, %r not strictly increasing" % (p, q)
    best = dp_len(n, m, rel)
    if len(res) != best:
        return "length %d but a common subsequence of length %d exists" % (len(res), best)
    return None


# ---------------------------------------------------------------------------------------------------------------
# LONG sequences (hundreds to a thousand items): the theorems hold for every length, the correspondence above runs on small
# ones; these are judged by the oracle only (the answers are too long to ship to Coq): anything that caps the search
# effort, recurses per matched pair or gives up "for performance" shows here.

PREDS = {"eq": lambda x, y: x == y, "succ": lambda x, y: y == x + 1, "near": lambda x, y: abs(x - y) <= 1 and x % 7 != 3}


def large_cases(rng, quick):
    L_, C_, R_ = [("L", i) for i in range(300)], list(range(300)), [("R", i) for i in range(300)]
    out = []
    # a long common block behind / in front of long unrelated blocks: > 256 insertions and deletions around 300 matches
    out.append(("eq", [hash(x) % 100000 + 10 ** 6 for x in L_] + C_, C_ + [hash(x) % 100000 + 2 * 10 ** 6 for x in R_]))
    # a thousand matches between a first and a last difference
    mid = list(range(1200))
    out.append(("eq", [-1] + mid + [-2], [-3] + mid + [-4]))
    out.append(("succ", list(range(0, 1100)), [5000] + list(range(1, 1101)) + [6000]))
    # many scattered differences in long sequences
    for _ in range(1 if quick else 4):
        a = [rng.randrange(50) for _ in range(rng.randint(250, 400))]
        b = list(a)
        for _ in range(rng.randint(100, 180)):
            k = rng.randrange(len(b))
            if rng.random() < .5:
                del b[k]
            else:
                b.insert(k, rng.randrange(50, 99))
        out.append((rng.choice(["eq", "near"]), a, b))
    return out


def oracle_large(kind, a, b):
    from xmldiff.utils import longest_common_subsequence as lcs
    pred = PREDS[kind]
    try:
        res = lcs(list(a), list(b), pred)
        res = None if res is None else [tuple(p) for p in res]
    except Exception as ex:  # noqa
        return "helper raised %s on sequences of %d and %d items" % (type(ex).__name__, len(a), len(b))
    if res is None:
        return "helper returned None"
    n, m = len(a), len(b)
    for (i, j) in res:
        if not (0 <= i < n and 0 <= j < m) or not pred(a[i], b[j]):
            return "pair %r out of range or not satisfying the predicate" % ((i, j),)
    for p_, q in zip(res, res[1:]):
        if not (p_[0] < q[0] and p_[1] < q[1]):
            return "pairs %r, %r not strictly increasing" % (p_, q)
    prev = [0] * (m + 1)
    for i in range(1, n + 1):
        cur = [0] * (m + 1)
        ai = a[i - 1]
        for j in range(1, m + 1):
            v = prev[j] if prev[j] >= cur[j - 1] else cur[j - 1]
            if pred(ai, b[j - 1]) and prev[j - 1] + 1 > v:
                v = prev[j - 1] + 1
            cur[j] = v
        prev = cur
    if len(res) != prev[m]:
        return "length %d but a common subsequence of length %d exists (sequences of %d and %d items)" % (len(res), prev[m], n, m)
    return None


def gen_cases(run, rng):
    cases = []
    lim = 3 if run.tier == "quick" else 4
    for n in range(0, lim + 1):
        for m in range(0, lim + 1):
            if n * m > (9 if run.tier == "quick" else 12):
                continue
            for bits in itertools.product([0, 1], repeat=n * m):
                cases.append((n, m, [list(bits[i * m:(i + 1) * m]) for i in range(n)]))
    nexh = len(cases)
    nrand = 600 if run.tier == "quick" else 6000
    for _ in range(nrand):
        kind = rng.choice(["random", "equality", "threshold", "dense", "diagonalish"])
        n, m = rng.randint(0, 14), rng.randint(0, 14)
        if kind == "random":
            p = rng.random()
            rel = [[int(rng.random() < p) for _ in range(m)] for _ in range(n)]
        elif kind == "equality":
            a = [rng.randint(0, 3) for _ in range(n)]; b = [rng.randint(0, 3) for _ in range(m)]
            rel = [[int(x == y) for y in b] for x in a]
        elif kind == "threshold":  # non-transitive similarity
            a = [rng.random() for _ in range(n)]; b = [rng.random() for _ in range(m)]
            rel = [[int(abs(x - y) < 0.3) for y in b] for x in a]
        elif kind == "dense":
            rel = [[int(rng.random() < 0.9) for _ in range(m)] for _ in range(n)]
        else:
            rel = [[int(i == j or rng.random() < 0.1) for j in range(m)] for i in range(n)]
        cases.append((n, m, rel))
    # a few long sequences: reversed / shuffled permutations (edit distance far beyond any small constant)
    for n in ([40, 70] if run.tier == "quick" else [40, 70, 90, 120]):
        for kind in ("reversed", "shuffled", "rotated"):
            a = list(range(n))
            b = list(reversed(a)) if kind == "reversed" else (a[n // 3:] + a[:n // 3] if kind == "rotated" else rng.sample(a, n))
            cases.append((n, n, [[int(x == y) for y in b] for x in a]))
    return cases, nexh


PRE = """From Coq Require Import List ZArith Bool. Import ListNotations.
Require Import XV.LCS. Local Open Scope Z_scope.
Definition case := (Z * Z * list (list Z) * option (list (Z*Z)))%type.
Definition rel_of (r: list (list Z)) (i j: Z) : bool := Z.eqb (nth (Z.to_nat j) (nth (Z.to_nat i) r []) 0) 1.
Definition pairs_eqb (x y : list (Z*Z)) : bool :=
  Nat.eqb (length x) (length y) && forallb (fun p => Z.eqb (fst (fst p)) (fst (snd p)) && Z.eqb (snd (fst p)) (snd (snd p))) (combine x y).
Definition check (c : case) : bool :=
  let '(n, m, r, e) := c in
  match lcs (rel_of r) n m, e with
  | None, None => true | Some x, Some y => pairs_eqb x y | _, _ => false end.
"""


def coq_case(n, m, rel, res):
    r = lib.coq_list([lib.coq_list([str(x) for x in row]) for row in rel])
    if res is None or isinstance(res, str):
        e = "None"
    else:
        e = "Some " + lib.coq_list(["(%d,%d)" % p for p in res])
    return "(%d, %d, %s, %s)" % (n, m, r, e)


def main(run):
    rng = random.Random(run.seed)
    ok, pinfo = lib.proof_stage(run, "C12")
    run.log("proof stage:", "ok" if ok else "BROKEN %s" % pinfo.get("failed"))
    cases, nexh = gen_cases(run, rng)
    results = [impl_lcs(*c) for c in cases]
    viols = []
    for c, r in zip(cases, results):
        why = oracle(*c, r)
        if why:
            viols.append({"what": why, "replay": {"n": c[0], "m": c[1], "rel": c[2], "impl_result": r}})
    viols.sort(key=lambda v: v["replay"]["n"] * v["replay"]["m"])
    nlarge = 0
    for kind, a, b in large_cases(random.Random(run.seed + 2), run.tier == "quick"):
        nlarge += 1
        why = oracle_large(kind, a, b)
        if why:
            viols.append({"what": why, "replay": {"kind": "large", "pred": kind, "a": a, "b": b, "n": len(a), "m": len(b)}})
    run.coverage["large_sequences_judged"] = nlarge
    bad, log = ([], "")
    if pinfo.get("build_ok"):
        bad, log = lib.run_cases("C12", PRE, [coq_case(*c, r) for c, r in zip(cases, results)], chunk=700)
    run.log("correspondence: %d cases, %d disagreements; oracle violations on impl: %d" % (len(cases), len(bad), len(viols)))
    corr = [{"name": "utils.longest_common_subsequence vs XV.LCS.lcs", "cases": len(cases), "bad": bad, "log": log,
             "describe": lambda i: {"n": cases[i][0], "m": cases[i][1], "rel": cases[i][2], "impl_result": results[i]}}]

    def deeper():
        out = []
        r2 = random.Random(run.seed + 1)
        for _ in range(40000):
            n, m = r2.randint(0, 9), r2.randint(0, 9)
            p = r2.random()
            rel = [[int(r2.random() < p) for _ in range(m)] for _ in range(n)]
            res = impl_lcs(n, m, rel)
            why = oracle(n, m, rel, res)
            if why:
                out.append({"what": why, "replay": {"n": n, "m": m, "rel": rel, "impl_result": res}})
                if len(out) > 20:
                    break
        out.sort(key=lambda v: v["replay"]["n"] * v["replay"]["m"])
        return out

    sizes = {}
    for c in cases:
        sizes[c[0] * c[1]] = sizes.get(c[0] * c[1], 0) + 1
    run.coverage.update({
        "evaluations": len(cases),
        "distinct_nontrivial": len({json.dumps(c) for c in cases if c[0] and c[1] and any(any(r) for r in c[2])}),
        "rule": "every 0/1 relation matrix with n,m <= %d (n*m <= %d) [%d, exhaustive], plus seeded random/equality/threshold/dense relations up to 14x14; non-trivial = both sequences non-empty and relation non-empty" % (3 if run.tier == "quick" else 4, 9 if run.tier == "quick" else 12, nexh),
        "exhaustive_small_scope": nexh,
        "input_distribution": {"cells(n*m)->count": dict(sorted(sizes.items())[:12])},
        "samples": [{"n": c[0], "m": c[1], "rel": ["".join(map(str, row)) for row in c[2]], "impl": r} for c, r in list(zip(cases, results))[nexh:nexh + 3]],
    })
    run.assumptions = ["the model abstracts the two sequences to their lengths and the predicate to a relation on indices (eqfn is called only on left[i], right[j])",
                       "Python slicing/zip/range as modelled in LCS.v"]
    lib.conclude(run, ok, pinfo, corr, viols, deeper)


def replay(run, path):
    d = json.load(open(path))
    if "n" not in d:
        print("replay names a broken tie, not an input:", d.get("broken")); return 1
    if d.get("kind") == "large":
        why = oracle_large(d["pred"], d["a"], d["b"])
        print("->", why or "property holds on this input")
        return 1 if why else 0
    res = impl_lcs(d["n"], d["m"], d["rel"])
    why = oracle(d["n"], d["m"], d["rel"], res)
    print("impl result:", res, "->", why or "property holds on this input")
    return 1 if why else 0
