"""C18 -- the legacy 'old' formatter (formatting.XmlDiffFormatter) is total on differ output.

Correspondence: XmlDiffFormatter().format(script, L) (output text, number of
bracketed entries, or exception class) against XV.OldFormat.old_format, on
 (a) scripts Differ yields for generated document pairs (several option sets,
     namespace / prefix-declaration variants, a shared default namespace),
 (b) mutated and hand-made scripts that make the handlers fail.
Oracle: the property itself, evaluated on the implementation."""
import json
import random
from collections import namedtuple
from copy import deepcopy
from lxml import etree
from harness import lib, gen, differ_props
from harness.lib import coq_str, coq_ostr, coq_list
from harness.treeenc import Enc, coq_forest, coq_nsmap, supported
from harness.patcher_corr import coq_gaction, mutate_script

PRE = """From Coq Require Import List NArith ZArith Bool. Import ListNotations.
Require Import XV.Str XV.Json XV.TextFormat XV.Forest XV.Path XV.PatcherDSL XV.RenderExec XV.OldFormat.
Inductive expect := EOk (s : str) (entries : nat) | EErr (e : oerr).
Definition case := (list (str * option str) * forest * list (option str * str) * list gaction * expect)%type.
Definition oerr_eqb (a b : oerr) := match a, b with OIndexError, OIndexError | OKeyError, OKeyError
 | OXPathEvalError, OXPathEvalError | OTypeError, OTypeError | OAttributeError, OAttributeError
 | OAssertionError, OAssertionError | OValueError, OValueError => true | _, _ => false end.
Definition check (c : case) : bool :=
  let '(pl, f, nsm, acts, e) := c in
  match old_format (pe_of pl) f 0 nsm acts, e with
  | OOk t, EOk s n => str_eqb t s && Nat.eqb (old_entry_count (pe_of pl) f 0 nsm acts) n
  | OErr x, EErr y => oerr_eqb x y
  | _, _ => false
  end.
"""

# the premises of C18_total, evaluated (boolean versions) on the identity-level script the
# implementation produced, together with the theorem's conclusion on the same input
PRE2 = """From Coq Require Import List NArith ZArith Bool PrimFloat. Import ListNotations.
Require Import XV.Str XV.Json XV.TextFormat XV.Forest XV.Matcher XV.Differ XV.DifferExec XV.Spec XV.WF XV.Path
 XV.PatcherDSL XV.Render XV.RenderExec XV.PathProofs XV.PatcherProofs XV.OldFormat XV.OldFormatProofs.
Definition case := (rcase * option str)%type.
Definition check (c : case) : bool :=
  let '((d, pl, g), e) := c in
  match dscript d, g, e with
  | Some s, Some gs, Some txt =>
      wf_forestb (dL d) 0 && script_okb (pe_of pl) 0 (old_env (dlns d)) (dL d) s
      && forallb old_ns_named1b s && forallb comment_text_present1b s
      && match run_spec 0 (dL d) s with Some _ => true | None => false end
      && check_render (d, pl, g)
      && match old_format (pe_of pl) (dL d) 0 (dlns d) gs with
         | OOk t => str_eqb t txt && Nat.leb (length s) (old_entry_count (pe_of pl) (dL d) 0 (dlns d) gs)
         | OErr _ => false
         end
  | _, _, _ => false
  end.
"""

ERRS = {"IndexError": "OIndexError", "XPathEvalError": "OXPathEvalError", "AssertionError": "OAssertionError",
        "KeyError": "OKeyError", "AttributeError": "OAttributeError", "TypeError": "OTypeError", "ValueError": "OValueError"}

DEFAULT_NS_KEY = "default-namespace-differs"


def xml(e):
    return etree.tostring(e).decode()


# ----------------------------------------------------------------------------
# the implementation

# OldFormat.v is written by hand after the source of XmlDiffFormatter: lock the shape
# (AST without docstrings, comments and positions) it was written against.  A different
# shape breaks the tie (fail closed) until the model has been re-read against the source.
EXPECTED_SHAPE = "7d845b2d2650afa823f8"


def formatter_shape():
    import ast, hashlib, inspect, textwrap
    from xmldiff import formatting
    tree = ast.parse(textwrap.dedent(inspect.getsource(formatting.XmlDiffFormatter)))
    for node in ast.walk(tree):
        if isinstance(node, (ast.FunctionDef, ast.ClassDef)) and node.body and isinstance(node.body[0], ast.Expr) \
                and isinstance(getattr(node.body[0], "value", None), ast.Constant) and isinstance(node.body[0].value.value, str):
            node.body = node.body[1:] or [ast.Pass()]
    return hashlib.sha256(ast.dump(tree, include_attributes=False).encode()).hexdigest()[:20]



def counting_formatter(**kw):
    """XmlDiffFormatter whose _format_action counts its calls: one call = one
    bracketed entry, however many newlines and brackets the payload contains."""
    from xmldiff.formatting import XmlDiffFormatter

    class Counting(XmlDiffFormatter):
        entries = 0

        def _format_action(self, action):
            self.entries += 1
            if action and isinstance(action[0], str):
                self.keywords[action[0]] = self.keywords.get(action[0], 0) + 1
            return XmlDiffFormatter._format_action(self, action)
    c = Counting(**kw)
    c.keywords = {}
    return c


# every way the formatter can be configured (the CLI passes normalize=WS_BOTH unless -w, and pretty_print)
FORMATTER_CONFIGS = [dict(normalize=0), dict(normalize=1), dict(normalize=2), dict(normalize=3),
                     dict(normalize=3, pretty_print=True), dict(normalize=0, pretty_print=False)]


def oracle_configs(Ls, Rs, opts, wrap=False):
    """The property under every formatter configuration: the text is produced, has an entry per action and -- the
    formatter ignores both options -- is the text of the default configuration."""
    from xmldiff import main
    try:
        L, R = parse(Ls, wrap), parse(Rs, wrap)
        n = len(main.diff_trees(L, R, diff_options=dict(opts)))
        ref = main.diff_trees(parse(Ls, wrap), parse(Rs, wrap), diff_options=dict(opts), formatter=counting_formatter())
    except Exception:  # noqa   (the default configuration is judged by oracle())
        return None
    for kw in FORMATTER_CONFIGS:
        f = counting_formatter(**kw)
        try:
            t = main.diff_trees(parse(Ls, wrap), parse(Rs, wrap), diff_options=dict(opts), formatter=f)
        except Exception as ex:  # noqa
            return "diff_trees(..., formatter=XmlDiffFormatter(%s)) raised %s: %s (script of %d actions)" % (
                ", ".join("%s=%r" % i for i in kw.items()), type(ex).__name__, ex, n)
        if not isinstance(t, str) or f.entries < n:
            return "XmlDiffFormatter(%r): %d bracketed entries for %d edit actions" % (kw, f.entries, n)
    return None


def classify(ex):
    for cls in type(ex).__mro__:
        if cls.__name__ in ERRS:
            return cls.__name__
    return "other:" + type(ex).__name__


def impl_format(L, script):
    """-> ("ok", text, entries) | ("err", class name)"""
    from xmldiff.formatting import XmlDiffFormatter
    try:
        f = counting_formatter()
        text = f.format(iter(script), L)
        plain = XmlDiffFormatter().format(iter(script), L)
        if plain != text:
            return ("err", "other:counting-formatter-differs")
        return ("ok", text, f.entries, f.keywords)
    except Exception as ex:  # noqa
        return ("err", classify(ex))


def parse(xs, wrap=False):
    """wrap: hand the document over as a NON-ROOT element of a larger document
    (diff_trees(doc[1], ...)): Differ and the formatter each deep-copy the element,
    which makes it the root of its own document."""
    if xs is None:
        return None
    if not wrap:
        return etree.fromstring(xs, etree.XMLParser(huge_tree=True))     # (replays of deeply nested documents)
    return etree.fromstring("<doc><pre><x/></pre>%s<post/><!--after--></doc>" % xs)[1]


BRACE_PAIRS = [
    ('<r><a>t</a></r>', '<r><a style="{color: red}" w="100%">t</a></r>'),
    ('<r><a x="{x}" y="%s">t</a></r>', '<r><a x2="{x}" y2="%s">t</a></r>'),
    ('<r><a x="{">t</a><b/></r>', '<r><b/><a y="{" z="}}">t {0} %(k)s \\n</a></r>'),
    ('<r><a>{0}</a></r>', '<r><a k="{0}{1}">{name}</a><c>%d</c></r>'),
]


def oracle(Ls, Rs, opts, wrap=False):
    """The property on the implementation.  None = holds; "skip:..." = the differ
    itself raises (C01's business); otherwise the reason it fails."""
    from xmldiff import main
    from xmldiff.formatting import XmlDiffFormatter
    if wrap:
        return oracle_wrapped(Ls, Rs, opts)
    try:
        n = len(main.diff_trees(etree.fromstring(Ls), etree.fromstring(Rs), diff_options=dict(opts)))
    except Exception as ex:  # noqa
        return "skip:diff raised " + type(ex).__name__
    try:
        f = counting_formatter()
        text = main.diff_trees(etree.fromstring(Ls), etree.fromstring(Rs), diff_options=dict(opts), formatter=f)
    except Exception as ex:  # noqa
        return "diff_trees(..., formatter=XmlDiffFormatter()) raised %s: %s (script of %d actions)" % (type(ex).__name__, ex, n)
    if not isinstance(text, str):
        return "formatter returned %r, not text" % type(text).__name__
    if f.entries < n:
        return "%d bracketed entries for %d edit actions" % (f.entries, n)
    try:
        plain = main.diff_trees(etree.fromstring(Ls), etree.fromstring(Rs), diff_options=dict(opts), formatter=XmlDiffFormatter())
    except Exception as ex:  # noqa
        return "diff_trees(..., formatter=XmlDiffFormatter()) raised %s: %s" % (type(ex).__name__, ex)
    if plain != text:
        return "two runs of the formatter give different text"
    # the other entry points: diff_texts (root elements, blank text removed) and
    # diff_files (ElementTree objects: format() takes the root of the copy)
    import io
    for name, call in (("diff_texts", lambda **kw: main.diff_texts(Ls, Rs, diff_options=dict(opts), **kw)),
                       ("diff_files", lambda **kw: main.diff_files(io.BytesIO(Ls.encode()), io.BytesIO(Rs.encode()),
                                                                   diff_options=dict(opts), **kw))):
        try:
            n2 = len(call())
        except Exception:  # noqa
            continue
        try:
            f2 = counting_formatter()
            t2 = call(formatter=f2)
        except Exception as ex:  # noqa
            return "%s(..., formatter=XmlDiffFormatter()) raised %s: %s (script of %d actions)" % (name, type(ex).__name__, ex, n2)
        if not isinstance(t2, str) or f2.entries < n2:
            return "%s: %d bracketed entries for %d edit actions" % (name, f2.entries, n2)
    return None


def oracle_wrapped(Ls, Rs, opts):
    from xmldiff import main
    try:
        n = len(main.diff_trees(parse(Ls, True), parse(Rs, True), diff_options=dict(opts)))
    except Exception as ex:  # noqa
        return "skip:diff raised " + type(ex).__name__
    try:
        f = counting_formatter()
        text = main.diff_trees(parse(Ls, True), parse(Rs, True), diff_options=dict(opts), formatter=f)
    except Exception as ex:  # noqa
        return "diff_trees(doc[1], doc2[1], formatter=XmlDiffFormatter()) on non-root elements raised %s: %s (script of %d actions)" \
               % (type(ex).__name__, ex, n)
    if not isinstance(text, str) or f.entries < n:
        return "non-root elements: %d bracketed entries for %d edit actions" % (f.entries, n)
    return None


# ----------------------------------------------------------------------------
# encoding a correspondence case


def prefix_policy(L, R, script):
    """URI -> prefix lxml prints: bindings of the left root, then those the right
    root contributes (Differ registers them globally), then InsertNamespace actions."""
    from harness.differ_corr import penv_of
    pe = penv_of(L.nsmap, R.nsmap if R is not None else {})
    for a in script:
        if type(a).__name__ == "InsertNamespace" and isinstance(a.prefix, str) and isinstance(a.uri, str):
            pe.setdefault(a.uri, a.prefix)
    for k, v in gen.NS.items():      # registered globally by register_prefixes()
        pe.setdefault(v, k)
    return pe


def register_prefixes():
    """Differ.diff registers the right root's prefixes process-wide (etree.register_namespace);
    lxml then prints a new element of such a namespace with that prefix.  Make this
    independent of which pairs happened to be diffed earlier in the process."""
    for k, v in gen.NS.items():
        etree.register_namespace(k, v)


def typed_ok(a):
    """fields are str / None / int (what pyval models); ints fit a C ssize_t"""
    for v in a:
        if isinstance(v, bool) or not (v is None or isinstance(v, (str, int))):
            return False
        if isinstance(v, int) and abs(v) >= 2 ** 62:
            return False
    return True


def build_case(Ls, Rs, script, label, wrap=False):
    """-> dict(term, desc, res) or None when the case is outside the modelled fragment."""
    L = parse(Ls, wrap)
    R = parse(Rs, wrap)
    if not supported(L) or not all(typed_ok(a) for a in script):
        return None
    if R is not None and L.nsmap.get(None) != R.nsmap.get(None):
        # the roots differ in the default namespace: outside the model's stated domain (the prefix lxml invents for a
        # created node of a namespace that only the right root declares as its default is not modelled; the differ's
        # own scripts for such pairs are the open finding default-namespace-differs, judged by the oracle)
        return None
    res = impl_format(L, script)
    if res[0] == "err" and res[1].startswith("other:"):
        return None
    pe = prefix_policy(L, R, script)
    pet = coq_list(["(%s, %s)" % (coq_str(u), coq_ostr(p)) for u, p in pe.items()])
    enc = Enc(L)
    e = "(EOk %s %d)" % (coq_str(res[1]), res[2]) if res[0] == "ok" else "(EErr %s)" % ERRS[res[1]]
    term = "(%s, %s, %s, %s, %s)" % (pet, coq_forest(enc), coq_nsmap(L.nsmap), coq_list([coq_gaction(a) for a in script]), e)
    desc = {"label": label, "wrap": wrap, "left": Ls, "right": Rs, "script": [[type(a).__name__] + list(a) for a in script],
            "impl": res[1] if res[0] == "err" else {"text": res[1], "entries": res[2]}}
    return {"term": term, "desc": desc, "res": res}


# ----------------------------------------------------------------------------
# inputs

WORDS = gen.WORDS[:8] + ["]\n[x", "a]", "[b, c]"]
DNS = "urn:d"


def with_default_ns(root):
    """the same document with every unqualified element put in a default namespace"""
    def q(t):
        return t if t.startswith("{") else "{%s}%s" % (DNS, t)
    nsmap = dict(root.nsmap)
    nsmap[None] = DNS

    def cp(e, parent):
        if e.tag is etree.Comment:
            n = etree.Comment(e.text)
            parent.append(n)
        else:
            n = etree.Element(q(e.tag), nsmap=nsmap) if parent is None else etree.SubElement(parent, q(e.tag))
            for k, v in e.attrib.items():
                n.set(k, v)
            n.text = e.text
            for c in e:
                cp(c, n)
        if parent is not None:
            n.tail = e.tail
        return n
    return cp(root, None)


def option_sets():
    return list(gen.OPTION_SETS) + differ_props.F_SETS + differ_props.UNIQ_SETS + differ_props.IGN_SETS[:2]


def gen_pairs(run, rng):
    """-> list of (label, Ls, Rs, opts); never a pair whose roots differ in the default namespace"""
    quick = run.tier == "quick"
    out = []
    sets = option_sets()
    for _ in range(260 if quick else 3000):
        ns = rng.random() < .4
        L, R = gen.gen_pair(rng, 8, ns=ns, words=WORDS if rng.random() < .5 else None)
        label = "ns" if ns else "plain"
        if ns and rng.random() < .5:
            L, R = differ_props.ns_variant(rng, L), differ_props.ns_variant(rng, R)
            label = "ns-variant"
        elif rng.random() < .12:
            L, R = with_default_ns(L), with_default_ns(R)
            label = "shared-default-ns"
        out.append((label, xml(L), xml(R), rng.choice(sets)))
    trees = gen.all_trees(3)
    for a in trees:
        for b in trees:
            out.append(("exhaustive", a, b, {}))
    return out


def _kid(kind, i):
    if kind == "!":
        return etree.Comment("c%d" % i)
    return etree.Element(kind)


def comment_pairs_exhaustive():
    """every child sequence of length <= 3 over {comment, a, b} below <r>, against the same
    sequence with one new element <n/> at each position (inserts after comments, comments as
    the previous sibling: utils.getpath prints comment()[k]) and against each rotation that
    moves the first child to a later position (moves within the same parent past comments)"""
    import itertools
    out = []
    for k in range(0, 4):
        for seq in itertools.product("!ab", repeat=k):
            def mk(order, extra=None):
                r = etree.Element("r")
                kids = [_kid(seq[j], j) for j in order]
                if extra is not None:
                    kids.insert(extra, etree.Element("n"))
                for c in kids:
                    r.append(c)
                return xml(r)
            base = mk(range(k))
            for pos in range(0, k + 1):
                out.append(("comments-exhaustive", base, mk(range(k), pos), {}))
            for to in range(1, k):
                order = list(range(1, k))
                order.insert(to, 0)
                out.append(("comments-exhaustive", base, mk(order), {}))
    return out


def gen_comment_pairs(rng, n):
    """comment-heavy parents; the right side inserts new elements at positions > 0, moves
    children to later positions, drops and adds comments"""
    out = []
    for _ in range(n):
        r = etree.Element(rng.choice("ab"))
        parents = [r]
        for i in range(rng.randint(2, 7)):
            par = rng.choice(parents)
            if rng.random() < .5:
                par.append(etree.Comment(rng.choice(["c1", "c2", "", "note"])))
            else:
                e = etree.SubElement(par, rng.choice("abc"))
                if rng.random() < .4:
                    e.set(rng.choice("ij"), rng.choice("12"))
                if rng.random() < .3:
                    e.tail = rng.choice(["t", "x y"])
                parents.append(e)
        R = deepcopy(r)
        for _ in range(rng.randint(1, 3)):
            elems = [e for e in R.iter() if isinstance(e.tag, str)]
            par = rng.choice(elems)
            op = rng.randrange(4)
            if op <= 1:      # insert at a position > 0 when possible
                par.insert(rng.randint(min(1, len(par)), len(par)), etree.Element(rng.choice(["n", "m", "a"])))
            elif op == 2 and len(par) >= 2:   # move a child to a later position
                i = rng.randrange(len(par) - 1)
                c = par[i]
                tail = c.tail
                par.remove(c)
                c.tail = tail
                par.insert(rng.randint(i + 1, len(par)), c)
            else:
                par.insert(rng.randint(0, len(par)), etree.Comment(rng.choice(["c1", "new"])))
        out.append(("comments", xml(r), xml(R), rng.choice([{}, {}, {"fast_match": True}, {"F": 0.9}, {"best_match": True}])))
    return out


def new_prefix_pairs():
    """small pairs whose right root declares a prefix the left root lacks (InsertNamespace first),
    followed by inserts at positions > 0, a move and an attribute rename below an element of that namespace"""
    out = []
    lefts = ['<r/>', '<r><k/></r>', '<r i="1"><k/><m/></r>', '<r xmlns:p="urn:p"><p:a/><k/></r>']
    rights = ['<r xmlns:q="urn:q"><q:b><k/><m/></q:b></r>',
              '<r xmlns:q="urn:q"><q:b><!--c--><k/></q:b><q:b/></r>',
              '<r xmlns:q="urn:q" xmlns:p="urn:p"><q:b j="1"><p:a/><k/><m/></q:b></r>',
              '<q:b xmlns:q="urn:q"><m/><k/><q:b/></q:b>']
    for a in lefts:
        for b in rights:
            out.append(("new-prefix", a, b, {}))
    return out


def gen_default_ns_pairs(rng, n):
    out = []
    for _ in range(n):
        L, R = gen.gen_pair(rng, 6, ns=rng.random() < .3)
        if rng.random() < .5:
            R = with_default_ns(R)
        else:
            L = with_default_ns(L)
        out.append(("default-ns-differs", xml(L), xml(R), {}))
    return out


Bogus = namedtuple("Bogus", "node")


def hand_scripts(rng, L):
    """scripts aimed at the handlers' failure points, on the tree L"""
    from xmldiff import actions as A
    from xmldiff.utils import getpath
    elems = [e for e in L.iter() if isinstance(e.tag, str)]
    nodes = list(L.iter())
    e = rng.choice(elems)
    n = rng.choice(nodes)
    movable = all(x is not e for x in n.iter())     # lxml refuses to move a node below itself (ValueError), not modelled
    p, q = getpath(e), getpath(n)
    k = len(e)
    out = []
    out.append([A.InsertNode(p, "z", k + 1)])                        # IndexError: child index
    out.append([A.InsertNode(p, "z", k), A.InsertNode(p, "y", k + 1)])  # second one sees the first
    out.append([A.InsertNode(p, "z", 0), A.InsertNode(p + "/z[1]", "y", 0), A.InsertNode(p + "/z[1]", "x", 1)])
    out.append([A.InsertNode(q, "z", 1)])                            # target may be a comment
    out.append([A.InsertNode("/nosuch[1]", "z", 2)])                 # IndexError: [0]
    out.append([A.InsertNode("/zz:a[1]", "z", 2)])                   # XPathEvalError
    out.append([A.InsertNode("/zz:a[1]", "z", 0)])                   # handler fine, patcher raises
    out.append([A.InsertNamespace("zz", "urn:zz"), A.InsertNode("/zz:a[1]", "z", 1)])
    out.append([A.InsertNode(p, "z", "1")])                          # TypeError: str - int
    out.append([A.InsertNode(p, None, 0)])
    out.append([A.InsertNode(None, "z", 1)])
    out.append([A.InsertNode(p, "{urn:q}z", 0), A.InsertNode(p, "w", 1)])
    out.append([A.RenameAttrib(p, "nosuch", "m")])                   # KeyError
    out.append([A.RenameAttrib(q, "i", "m")])
    out.append([A.RenameAttrib(p, None, "m")])                       # TypeError
    out.append([A.RenameAttrib(p + "/nosuch[1]", "i", "m")])
    if e.attrib:
        a0 = sorted(e.attrib)[0]
        out.append([A.RenameAttrib(p, a0, "m.1"), A.RenameAttrib(p, a0, "m2")])   # second: KeyError
        out.append([A.RenameAttrib(p, a0, "m"), A.RenameAttrib(p, "m", a0), A.UpdateAttrib(p, a0, "v\n]"), A.DeleteAttrib(p, a0)])
        out.append([A.RenameAttrib(p, a0, sorted(e.attrib)[-1])])    # handler fine, patcher asserts
    out.append([A.InsertAttrib(p, "n.w", "]\n[insert, /a[1], x"), A.DeleteAttrib(p, "n.w")])
    if movable:
        out.append([A.MoveNode(q, p, k + 2)])
        out.append([A.MoveNode(q, p, k + 1)])
        out.append([A.MoveNode(q, p, k)])
        out.append([A.MoveNode(q, p, 1)])
        out.append([A.MoveNode(q, p, 0)])
        out.append([A.MoveNode(q, "/nosuch[1]", 1)])
        out.append([A.MoveNode("/nosuch[1]", p, 1)])
        out.append([A.MoveNode(q, "/zz:t[1]", 3)])
        out.append([A.MoveNode(q, p, None)])
        out.append([A.MoveNode(q, None, 0)])
    if k >= 2:
        c0, c1 = getpath(e[0]), getpath(e[-1])
        for pos in range(0, k + 2):
            out.append([A.MoveNode(c0, p, pos)])
            out.append([A.MoveNode(c1, p, pos)])
        out.append([A.MoveNode(c0, p, k - 1), A.MoveNode(getpath(e[1]), p, k - 1)])
    out.append([A.InsertNamespace(None, "urn:n")])                   # TypeError at the join
    out.append([A.DeleteNamespace(None)])
    out.append([A.DeleteNamespace("p"), A.InsertNamespace("r", "urn:r"), A.UpdateTextIn(p, None), A.UpdateTextAfter(q, "t]\n[")])
    out.append([A.InsertNamespace(None, "urn:n"), A.DeleteNode(q)])
    out.append([A.InsertComment(p, 0, None)])                        # TypeError at the join
    out.append([A.InsertComment(p, k, "c]\n[d"), A.InsertComment(p, k + 1, "")])
    out.append([A.InsertComment(p, "0", "c")])
    out.append([A.UpdateTextIn(None, "x")])                          # TypeError: None + str
    out.append([A.UpdateTextAfter(5, "x")])
    out.append([A.UpdateAttrib(None, None, None)])
    out.append([A.DeleteAttrib(p, "nosuch")])                        # handler fine, patcher KeyError
    out.append([A.DeleteNode(None)])
    out.append([A.RenameNode(p, None)])
    out.append([A.RenameNode(p, "r"), A.InsertNode(p[:p.rfind("/")] + "/r[1]" if p.count("/") > 1 else "/r[1]", "s", 1)])
    out.append([Bogus(p)])                                           # AttributeError
    out.append([A.DeleteNode(q), Bogus(p)])
    # negative positions: only the handler's reading of them is modelled (Python indexing)
    out.append([A.InsertNode(p, "z", -(k + 3))])
    if movable:
        out.append([A.MoveNode(q, p, -(k + 3))])
    return out


def negative_position(script):
    return any(isinstance(getattr(a, "position", 0), int) and getattr(a, "position", 0) < 0 for a in script)


# ----------------------------------------------------------------------------


def main(run):
    from xmldiff import main as xm
    rng = random.Random(run.seed)
    register_prefixes()
    ok, pinfo = lib.proof_stage(run, "C18")
    run.log("proof stage:", "ok" if ok else "BROKEN %s" % pinfo.get("failed"))
    quick = run.tier == "quick"
    pairs = gen_pairs(run, rng)
    pairs += comment_pairs_exhaustive() + gen_comment_pairs(rng, 120 if quick else 1500) + new_prefix_pairs()
    dns_pairs = gen_default_ns_pairs(rng, 12 if quick else 100)
    # non-root elements: a sample of the main stream handed over as doc[1] of a larger document
    sub_pairs = [("sub-element",) + p[1:] for p in pairs if p[0] != "exhaustive"][::(3 if quick else 2)]
    sub_pairs += [("sub-element", a, b, {}) for a in gen.all_trees(2) for b in gen.all_trees(3)]

    built, viols = [], []
    stats = {"pairs": 0, "differ_raised": 0, "scripts_nonempty": 0, "actions": 0, "labels": {}, "impl_outcomes": {},
             "skipped_outside_fragment": 0, "action_histogram": {}, "entry_keywords": {}}
    hist = stats["action_histogram"]

    def add(Ls, Rs, script, label, wrap=False):
        c = build_case(Ls, Rs, script, label, wrap)
        if c is None:
            stats["skipped_outside_fragment"] += 1
            return
        if negative_position(script) and c["res"][0] == "ok":
            # the patcher model refuses negative positions; only handler failures are compared
            stats["skipped_outside_fragment"] += 1
            return
        built.append(c)
        stats["labels"][label] = stats["labels"].get(label, 0) + 1
        o = "ok" if c["res"][0] == "ok" else c["res"][1]
        if c["res"][0] == "ok":
            for k, v in c["res"][3].items():
                stats["entry_keywords"][k] = stats["entry_keywords"].get(k, 0) + v
        stats["impl_outcomes"][o] = stats["impl_outcomes"].get(o, 0) + 1

    # (1) the property on the implementation + correspondence on differ scripts
    nmut = 0
    for label, Ls, Rs, opts in pairs + dns_pairs + sub_pairs:
        wrap = label == "sub-element"
        stats["pairs"] += 1
        why = oracle(Ls, Rs, opts, wrap)
        if why and why.startswith("skip:"):
            stats["differ_raised"] += 1
            continue
        if not why and stats["pairs"] % 2 == 0:
            why = oracle_configs(Ls, Rs, opts, wrap)
            stats["configured_formatter_pairs"] = stats.get("configured_formatter_pairs", 0) + 1
        d = {"left": Ls, "right": Rs, "wrap": wrap, "opts": {k: (list(v) if isinstance(v, tuple) else v) for k, v in opts.items()}}
        if why:
            viols.append({"what": why, "replay": dict(d, finding_key=differ_props.finding_key(d, "C18", why))})
        script = xm.diff_trees(parse(Ls, wrap), parse(Rs, wrap), diff_options=dict(opts))
        stats["scripts_nonempty"] += bool(script)
        stats["actions"] += len(script)
        for a in script:
            hist[type(a).__name__] = hist.get(type(a).__name__, 0) + 1
        add(Ls, Rs, script, label, wrap)
        if wrap:
            continue
        # (2) mutated scripts (a third of the pairs)
        if script and label != "exhaustive" and rng.random() < .5:
            for _ in range(2):
                m = mutate_script(rng, script)
                if negative_position(m):
                    continue
                add(Ls, Rs, m, "mutated")
                nmut += 1
    # (2b) the premises of C18_total on the scripts the implementation produced
    prem, prem_desc = [], []
    from harness import differ_corr
    for label, Ls, Rs, opts in pairs:
        try:
            c = differ_corr.build_case(Ls, Rs, dict(opts))
        except Exception:  # noqa
            c = None
        if c is None or c["term"] is None or isinstance(c["raw"], str):
            stats["premise_cases_skipped"] = stats.get("premise_cases_skipped", 0) + 1
            continue
        r = impl_format(etree.fromstring(Ls), c["raw"])
        e = "(Some %s)" % coq_str(r[1]) if r[0] == "ok" else "None"
        prem.append("(%s, %s)" % (c["term"], e))
        prem_desc.append({"label": label, "left": Ls, "right": Rs, "opts": {k: (list(v) if isinstance(v, tuple) else v) for k, v in opts.items()},
                          "impl": r[1] if r[0] == "err" else {"text": r[1], "entries": r[2]}})
    # (3) hand-made scripts on generated trees
    for i in range(14 if quick else 120):
        ns = rng.random() < .4
        L = gen.gen_tree(rng, rng.randint(2, 8), ns=ns, words=WORDS)
        if i % 5 == 4:
            L = with_default_ns(L)
        for sc in hand_scripts(rng, L):
            add(xml(L), None, sc, "hand-made")

    viols.sort(key=lambda v: len(v["replay"]["left"]) + len(v["replay"]["right"]))
    bad, log = ([], "")
    if pinfo.get("build_ok"):
        bad, log = lib.run_cases("C18", PRE, [c["term"] for c in built], chunk=120)
    run.log("correspondence: %d cases %s, %d disagreements; oracle: %d pairs, %d violations" %
            (len(built), stats["labels"], len(bad), stats["pairs"], len(viols)))
    for i in bad[:5]:
        run.log("  disagreement:", json.dumps(built[i]["desc"])[:600])
    corr = [{"name": "formatting.XmlDiffFormatter.format vs XV.OldFormat.old_format (text, entry count or exception class)",
             "cases": len(built), "bad": bad, "log": log, "describe": lambda i: built[i]["desc"]}]
    # labelled stream of the open finding two-prefixes-one-uri-on-left-root (oracle only: outside the model's domain)
    for Ls, Rs in differ_props.KNOWN_STREAM:
        d = {"left": Ls, "right": Rs, "wrap": False, "opts": {}}
        if differ_props.finding_key(d, "C18", "") == "two-prefixes-one-uri-on-left-root":
            why = oracle(Ls, Rs, {}, False)
            if why and not why.startswith("skip:"):
                viols.append({"what": why, "replay": dict(d, finding_key="two-prefixes-one-uri-on-left-root")})
    # attribute values / texts with braces, percent signs and backslashes (anything that is pasted into a template)
    for Ls, Rs in BRACE_PAIRS:
        for o_ in ({}, {"fast_match": True}):
            why = oracle(Ls, Rs, o_, False) or oracle_configs(Ls, Rs, o_, False)
            if why and not why.startswith("skip:"):
                viols.append({"what": why, "replay": {"left": Ls, "right": Rs, "wrap": False, "opts": o_, "finding_key": None}})
    # deeply nested documents (oracle only)
    for Ls, Rs in differ_props.deep_pairs():
        try:
            n_ = len(xm.diff_trees(differ_props.parse_deep(Ls), differ_props.parse_deep(Rs)))
            f_ = counting_formatter()
            t_ = xm.diff_trees(differ_props.parse_deep(Ls), differ_props.parse_deep(Rs), formatter=f_)
            if not isinstance(t_, str) or f_.entries < n_:
                raise ValueError("%d bracketed entries for %d edit actions" % (f_.entries, n_))
        except Exception as ex:  # noqa
            viols.append({"what": "documents nested %d levels deep: diff_trees(..., formatter=XmlDiffFormatter()) failed: %s: %s"
                                  % (Ls.count("<a>"), type(ex).__name__, ex),
                          "replay": {"left": Ls, "right": Rs, "wrap": False, "opts": {}, "deep": True, "finding_key": None}})
    # labelled stream of the open finding processing-instruction-below-root (the differ raises; outside the model)
    from xmldiff.formatting import XmlDiffFormatter as _XDF
    for Ls, Rs in differ_props.PI_STREAM:
        try:
            xm.diff_trees(etree.fromstring(Ls), etree.fromstring(Rs), formatter=_XDF())
        except Exception as ex:  # noqa
            viols.append({"what": "diff_trees(..., formatter=XmlDiffFormatter()) raised %s: %s" % (type(ex).__name__, ex),
                          "replay": {"left": Ls, "right": Rs, "wrap": False, "opts": {}, "finding_key": "processing-instruction-below-root"}})
    bad2, log2 = ([], "")
    if pinfo.get("build_ok"):
        bad2, log2 = lib.run_cases("C18p", PRE2, prem, chunk=60)
    run.log("premises of C18_total hold (wf, script_ok, run_spec, render_script, prefix/comment side conditions) and its conclusion "
            "agrees with the implementation on %d differ scripts; %d failures" % (len(prem), len(bad2)))
    for i in bad2[:5]:
        run.log("  premise/conclusion failure:", json.dumps(prem_desc[i])[:600])
    corr.append({"name": "premises + conclusion of C18_total evaluated on the implementation's identity-level scripts",
                 "cases": len(prem), "bad": bad2, "log": log2, "describe": lambda i: prem_desc[i]})

    def deeper():
        out = []
        r2 = random.Random(run.seed + 18)

        class T:
            tier = "thorough"
        cand = gen_pairs(T(), r2)[:3000] + gen_comment_pairs(r2, 2000)
        cand += [("sub-element",) + p[1:] for p in cand[::3]]
        for label, Ls, Rs, opts in cand:
            wrap = label == "sub-element"
            why = oracle(Ls, Rs, opts, wrap) or oracle_configs(Ls, Rs, opts, wrap)
            if why and not why.startswith("skip:"):
                d = {"left": Ls, "right": Rs, "wrap": wrap, "opts": {k: (list(v) if isinstance(v, tuple) else v) for k, v in opts.items()}}
                out.append({"what": why, "replay": dict(d, finding_key=differ_props.finding_key(d, "C18", why))})
                if len(out) >= 10:
                    break
        out.sort(key=lambda v: len(v["replay"]["left"]) + len(v["replay"]["right"]))
        return out

    shape = formatter_shape()
    corr.append({"name": "source shape of formatting.XmlDiffFormatter (AST hash %s) vs the shape OldFormat.v was written against (%s)"
                         % (shape, EXPECTED_SHAPE), "cases": 1, "bad": [] if shape == EXPECTED_SHAPE else [0], "log": "",
                 "describe": lambda i: {"shape_found": shape, "shape_expected": EXPECTED_SHAPE}})
    nontriv = {c["term"] for c in built if c["desc"]["script"]}
    run.coverage.update({
        "evaluations": stats["pairs"] + len(built) + len(prem),
        "premise_cases": len(prem),
        "distinct_nontrivial": len(nontriv),
        "rule": "oracle on every generated pair (<= 8 nodes; tags, attributes, texts with newlines/brackets/commas, tails, comments, "
                "namespaces, prefix-declaration variants, a shared default namespace; %d option sets) plus all pairs of trees with <= 3 nodes "
                "over 2 tags, plus comment-heavy parents (every child sequence of length <= 3 over comment/a/b with an insert at every position and "
                "every move of the first child to a later position; seeded larger ones with inserts at positions > 0, moves, comment edits), plus a "
                "sample handed over as NON-ROOT elements of a larger document (diff_trees(doc[1], doc2[1], ...)), plus a separate labelled stream of %d pairs whose roots differ in the default namespace; correspondence on the "
                "differ's script of every pair, on %d mutated scripts and on hand-made scripts aimed at each handler's failure points; "
                "the premises and the conclusion of C18_total evaluated in Coq on the identity-level script of every main-stream pair (%d); "
                "non-trivial = distinct case with a non-empty script" % (len(option_sets()), len(dns_pairs), nmut, len(prem)),
        "exhaustive_small_scope": sum(1 for p in pairs if p[0] == "exhaustive"),
        "input_distribution": stats,
        "samples": [c["desc"] for c in (built[:2] + [c for c in built if c["desc"]["label"] == "hand-made"][:1])],
    })
    run.assumptions = [
        "lxml tree/xpath/getpath semantics as modelled in Forest.v / Path.v (one prefix per URI; Differ registers the right root's prefixes globally)",
        "the patcher step is PatcherDSL.handle_action over Gen/PatcherProg.v (translated from patch.py on this run)",
        "action fields are str/None/int; negative positions are compared only where the formatter's own handler raises "
        "(the patcher model does not cover list.insert with a negative index)",
        "after InsertNamespace(None, uri) the implementation carries on until its next xpath call or the final join (TypeError either way); "
        "the model raises TypeError at that action; no unknown action class follows such an action in the generated scripts",
    ]
    lib.conclude(run, ok, pinfo, corr, viols, deeper)


def replay(run, path):
    d = json.load(open(path))
    if "left" not in d or "opts" not in d:
        print("replay names a broken tie, not an input:", d.get("broken"))
        return 1
    opts = {k: (v if k != "uniqueattrs" else [tuple(x) if isinstance(x, list) else x for x in v]) for k, v in d["opts"].items()}
    why = oracle(d["left"], d["right"], opts, bool(d.get("wrap"))) or oracle_configs(d["left"], d["right"], opts, bool(d.get("wrap")))
    if why and why.startswith("skip:"):
        print("the differ itself fails on this input:", why)
        return 1
    print("violation: " + why if why else "property holds on this input")
    return 1 if why else 0
