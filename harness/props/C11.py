"""C11 -- placeholder substitution (PlaceholderMaker) is lossless and one-to-one.

Model: coq/theories/Placeholder.v, theorems: coq/theories/Properties/C11.v.
This module ties the model to /repo/xmldiff/formatting.py by running both on
the same scenarios (correspondence), and independently evaluates the property
itself on the implementation (oracle).  Testing validates the model only.
"""
import itertools, json, os, random
from copy import deepcopy
from harness import lib

DIFF_NS = "http://namespaces.shoobx.com/diff"
TAGS = ["p", "b", "i", "img", "span", "div"]
PUA_LO, PUA_HI = 0xE000, 0xF8FF
FINDING_PUA = "pua-char-in-document"   # key in /verif/known_findings.json

# ----------------------------------------------------------------------------
# trees as plain data: [tag, [[k, v]...], text|None, tail(str), [kids]]


# Comments and processing instructions are encoded as childless nodes with reserved tag names
# ("#comment", "#pi:<target>", text = content); the code treats them like any non-formatting child.
def build(t):
    from lxml import etree
    if t[0] == "#comment":
        return etree.Comment(t[2] or "")
    if t[0].startswith("#pi:"):
        return etree.ProcessingInstruction(t[0][4:], t[2] or "")
    e = etree.Element(t[0])
    for k, v in t[1]:
        e.attrib[k] = v
    if t[2] is not None:
        e.text = t[2]
    for k in t[4]:
        c = build(k)
        e.append(c)
        if k[3]:
            c.tail = k[3]
    return e


def build_root(t):
    e = build(t)
    if t[3]:
        e.tail = t[3]
    return e


def canon(e):
    from lxml import etree
    if e.tag is etree.Comment:
        return ["#comment", [], e.text, e.tail or "", []]
    if e.tag is etree.PI:
        return ["#pi:" + e.target, [], e.text, e.tail or "", []]
    return [e.tag, [[k, v] for k, v in e.attrib.items()], e.text, e.tail or "", [canon(c) for c in e]]


def norm(t):
    """tree_equiv normal form: absent and empty text identified."""
    return [t[0], t[1], t[2] or "", t[3] or "", [norm(k) for k in t[4]]]


def has_pua(t):
    def bad(s):
        return any(PUA_LO < ord(c) <= PUA_HI for c in (s or ""))
    return bad(t[2]) or bad(t[3]) or any(has_pua(k) for k in t[4])


def nodes(t):
    return 1 + sum(nodes(k) for k in t[4])


def table_of(m):
    return [[ord(ph), canon(en.element), en.ttype, None if en.close_ph is None else ord(en.close_ph)]
            for ph, en in m.placeholder2tag.items()]


def t2p_of(m):
    return [[k[1], None if k[2] is None else ord(k[2]), ord(v), k[0]] for k, v in m.tag2placeholder.items()]


EXC = {"IndexError": "EIndex", "AttributeError": "ENoParent", "RecursionError": "EFuel", "KeyError": "EKey"}


def excname(ex):
    return EXC.get(type(ex).__name__, "other:" + type(ex).__name__)


# ----------------------------------------------------------------------------
# running a scenario on the implementation
# scenario = {"tt": [...], "fmt": [...], "steps": [step...]}; a step is one of
#   ["do", tree]                -> result tree after do_tree (kept as document #n)
#   ["get", tree, ttype, close] -> placeholder
#   ["mark", ph, action, attrs] -> placeholder
#   ["wrap", text, action, attrs] -> string
#   ["undo", n]                 -> undo_tree on document #n as it is now
#   ["undoraw", tree]           -> undo_tree on a tree given literally
#   ["subst", n, seed]          -> mark/wrap some placeholders inside document #n (formatter-like), recorded as
#                                  explicit mark/wrap steps in the trace
#   ["split", text]             -> split_string(text) and is_placeholder of every character
#   ["table"]
# The trace (what the model is asked to reproduce) is a list of
#   ("op", opterm-data, result) / ("undo", tree_before, result) / ("table", p2t, ctr, t2p)


def run_impl(sc):
    from xmldiff.formatting import PlaceholderMaker
    m = PlaceholderMaker(text_tags=tuple(sc["tt"]), formatting_tags=tuple(sc["fmt"]))
    docs, trace = [], []
    for st in sc["steps"]:
        k = st[0]
        if k == "ctr":
            # a maker that has handed out many placeholders already: the next ones straddle the end of the private-use area
            m.placeholder = st[1]
        elif k == "do":
            e = build_root(st[1])
            m.do_tree(e)
            docs.append(e)
            trace.append(("op", ["do", st[1]], ["tree", canon(e)]))
        elif k == "get":
            e = build_root(st[1])
            ph = m.get_placeholder(e, st[2], None if st[3] is None else chr(st[3]))
            trace.append(("op", st, ["ph", ord(ph)]))
        elif k == "mark":
            try:
                ph = m.mark_diff(chr(st[1]), st[2], dict(st[3]) if st[3] is not None else None)
                trace.append(("op", st, ["ph", ord(ph)]))
            except Exception as ex:  # noqa
                trace.append(("op", st, ["err", excname(ex)]))
        elif k == "wrap":
            try:
                r = m.wrap_diff(st[1], st[2], dict(st[3]) if st[3] is not None else None)
                trace.append(("op", st, ["str", r]))
            except Exception as ex:  # noqa
                trace.append(("op", st, ["err", excname(ex)]))
        elif k == "subst":
            rng = random.Random(st[2])
            root = docs[st[1]]
            for el in root.iter():
                for attr in ("text", "tail"):
                    s = getattr(el, attr)
                    if not s or rng.random() < 0.4:
                        continue
                    out = ""
                    for seg in m.split_string(s):
                        if not seg:
                            continue
                        r = rng.random()
                        if m.is_placeholder(seg) and r < 0.5:
                            act = rng.choice(["insert", "delete"])
                            attrs = [] if rng.random() < 0.7 else [["old-text", "zz"]]
                            ph = m.mark_diff(seg, act, dict(attrs))
                            trace.append(("op", ["mark", ord(seg), act, attrs], ["ph", ord(ph)]))
                            out += ph
                        elif not m.is_placeholder(seg) and r < 0.5:
                            act = rng.choice(["insert", "delete", "replace"])
                            attrs = [] if act != "replace" else [["old-text", "q" + seg[:2]]]
                            w = m.wrap_diff(seg, act, dict(attrs))
                            trace.append(("op", ["wrap", seg, act, attrs], ["str", w]))
                            out += w
                        else:
                            out += seg
                    setattr(el, attr, out)
        elif k in ("undo", "undoraw"):
            e = docs[st[1]] if k == "undo" else build_root(st[1])
            before = canon(e)
            try:
                m.undo_tree(e)
                trace.append(("undo", before, ["ok", canon(e)]))
            except Exception as ex:  # noqa
                trace.append(("undo", before, ["err", excname(ex)]))
        elif k == "split":
            trace.append(("split", st[1], m.split_string(st[1]), [m.is_placeholder(c) for c in st[1]]))
        elif k == "table":
            trace.append(("table", table_of(m), m.placeholder, t2p_of(m)))
        if k == "ctr":
            trace.append(("ctr", st[1], None))
    return m, docs, trace


# ----------------------------------------------------------------------------
# the property itself, evaluated on the implementation


def oracle_tables(m):
    vals = list(m.tag2placeholder.values())
    if len(set(vals)) != len(vals):
        return "two different (element, role, close) keys share a placeholder"
    if set(vals) != set(m.placeholder2tag):
        return "placeholder2tag and tag2placeholder are not inverse (different placeholder sets)"
    for key, ph in m.tag2placeholder.items():
        en = m.placeholder2tag[ph]
        if en.ttype != key[1] or en.close_ph != key[2]:
            return "entry of placeholder U+%04X has role/close %r, its key says %r" % (ord(ph), (en.ttype, en.close_ph), key[1:])
    if m.placeholder != PUA_LO + len(m.placeholder2tag):
        return "counter %#x is not start + number of entries" % m.placeholder
    # an element that is identical (the text FOLLOWING it is not part of it) has one placeholder per role: the table is
    # keyed by the element's serialisation; what follows the last '>' of a key is text after the element
    seen = {}
    for (ser, ttype, close), ph in m.tag2placeholder.items():
        if not isinstance(ser, str) or ">" not in ser:
            continue
        key = (ser[:ser.rindex(">") + 1], ttype, close)
        if key in seen and seen[key] != ph:
            return "identical element %s (role %r) has two placeholders U+%04X and U+%04X (keys differ in the text after the element)" % (
                key[0], ttype, ord(seen[key]), ord(ph))
        seen[key] = ph
    return None


def oracle(sc):
    """Returns a description of a violation of C11 by the implementation, or None.
    Only scenarios flagged 'oracle' (PUA-free documents, do/undo steps only) are judged for the round trip."""
    try:
        m, docs, trace = run_impl(sc)
    except Exception as ex:  # noqa
        return "implementation raised %s: %s" % (type(ex).__name__, ex)
    why = oracle_tables(m) if sc["kind"] != "latectr" else None
    if why:
        return why
    # "replacing the tags inside text tags by placeholder characters": after do_tree no text tag has a child node left
    def unreplaced(t):
        if t[0] in sc["tt"] and t[4]:
            return t[0]
        for k in t[4]:
            r_ = unreplaced(k)
            if r_:
                return r_
        return None
    for tr in trace:
        if tr[0] == "op" and tr[1][0] == "do":
            u = unreplaced(tr[2][1])
            if u:
                return "after do_tree the text tag <%s> still has child nodes (its content was not replaced by placeholders): %s" % (
                    u, json.dumps(tr[2][1])[:300])
    if sc.get("oracle") == "roundtrip":
        origs = [st[1] for st in sc["steps"] if st[0] == "do"]
        undone = [tr for tr in trace if tr[0] == "undo"]
        for o, u in zip(origs, undone):
            if u[2][0] != "ok":
                return "undo_tree raised %s" % u[2][1]
            if norm(u[2][1]) != norm(o):
                return "round trip changed the document: %s -> %s" % (json.dumps(norm(o)), json.dumps(norm(u[2][1])))
    if sc.get("oracle") == "same":
        # sc["same"] = [(doc index, child index)...]: the same text element sits there in every document
        texts = []
        di = 0
        for tr in trace:
            if tr[0] == "op" and tr[1][0] == "do":
                for (d, c) in sc["same"]:
                    if d == di:
                        texts.append(tr[2][1][4][c][2])
                di += 1
        if len(set(texts)) > 1:
            return "identical element got different placeholder text in two documents: %r" % ([ascii(t) for t in texts],)
    return None


# ----------------------------------------------------------------------------
# generators

TEXTS = [None, None, "", "a", "b", "ab", " ", "x y", "\n", "1", "\ufb01x", "\U0001F600", "\uff21 b"]   # incl. characters ABOVE the placeholder range
ATTRS = [[], [], [], [["k", "1"]], [["k", "2"]], [["k", "1"], ["j", "2"]], [["j", "2"], ["k", "1"]], [["id", ""]]]


CPI_TEXTS = ["", "c", "soft", "a b", "x"]


def gen_cpi(rng, texts=TEXTS):
    """a comment or a processing instruction, with a tail"""
    tag = "#comment" if rng.random() < 0.5 else "#pi:" + rng.choice(["pagebreak", "q"])
    return [tag, [], rng.choice(CPI_TEXTS), rng.choice(texts) or "", []]


def gen_tree(rng, depth, tags=TAGS, width=3, texts=TEXTS, root=False, cpi=0.0):
    tag = rng.choice(tags)
    n = 0 if depth <= 0 else rng.choice([0, 0, 1, 1, 2, 2, 3][:width + 3])
    kids = [gen_cpi(rng, texts) if rng.random() < cpi else gen_tree(rng, depth - 1, tags, width, texts, cpi=cpi)
            for _ in range(n)]
    if cpi and depth > 0 and rng.random() < cpi:
        kids.insert(rng.randint(0, len(kids)), gen_cpi(rng, texts))
    return [tag, deepcopy(rng.choice(ATTRS)), rng.choice(texts), "" if root else (rng.choice(texts) or ""), kids]


def gen_tagsets(rng, tags=TAGS):
    mode = rng.random()
    if mode < 0.5:
        tt = [t for t in tags if rng.random() < 0.35] or ["p"]
        fmt = [t for t in tags if rng.random() < 0.4]
    elif mode < 0.8:
        tt, fmt = ["p", "div"], ["b", "i", "span"]
    elif mode < 0.9:
        tt, fmt = [t for t in tags if rng.random() < 0.6], [t for t in tags if rng.random() < 0.6]
    else:
        tt, fmt = [], ["b"]
    return tt, fmt


def tagsets_for(rng, t):
    """tag subsets under which (most of the time) something inside t is replaced"""
    tt, fmt = gen_tagsets(rng)
    with_kids = []
    def walk(x):
        if x[4]:
            with_kids.append(x[0])
        for k in x[4]:
            walk(k)
    walk(t)
    if with_kids and rng.random() < 0.8 and not (set(tt) & set(with_kids)):
        tt = tt + [rng.choice(with_kids)]
    return tt, fmt


def mutate(rng, t):
    """a document sharing most subtrees with t"""
    t = deepcopy(t)
    def walk(x):
        if x[0].startswith("#"):
            return
        r = rng.random()
        if r < 0.1:
            x[2] = rng.choice(TEXTS)
        elif r < 0.15:
            x[1] = deepcopy(rng.choice(ATTRS))
        elif r < 0.2 and x[4]:
            del x[4][rng.randrange(len(x[4]))]
        elif r < 0.25:
            x[4].insert(rng.randint(0, len(x[4])), gen_tree(rng, 1))
        for k in x[4]:
            walk(k)
    walk(t)
    return t


def all_shapes(n):
    """all ordered forests with n nodes, as nested lists of children"""
    if n == 0:
        return [[]]
    out = []
    for k in range(1, n + 1):           # first tree has k nodes
        for first in all_shapes(k - 1):
            for rest in all_shapes(n - k):
                out.append([first] + rest)
    return out


def exhaustive(maxn, tags, variants):
    scs = []
    for n in range(1, maxn + 1):
        for kids in all_shapes(n - 1):
            shape = kids
            cnt = n
            for lab in itertools.product(tags, repeat=cnt):
                for v in variants:
                    it = iter(lab)
                    idx = [0]
                    def mk(sh, root=False):
                        tag = next(it)
                        i = idx[0]; idx[0] += 1
                        text = None if v["text"] == "none" else ("t%d" % i if v["text"] == "distinct" else "x")
                        tail = "" if root or v["text"] == "none" else ("u%d" % i if v["text"] == "distinct" else "y")
                        return [tag, [], text, tail, [mk(s) for s in sh]]
                    tree = mk(shape, True)
                    scs.append({"kind": "exhaustive", "tt": v["tt"], "fmt": v["fmt"], "oracle": "roundtrip",
                                "steps": [["do", tree], ["table"], ["undo", 0]]})
    return scs


def gen_scenarios(run, rng):
    quick = run.tier == "quick"
    scs = []
    # (E) exhaustive small scope
    variants = [{"tt": ["p"], "fmt": ["b"], "text": "none"}, {"tt": ["p"], "fmt": ["b"], "text": "same"},
                {"tt": ["p", "b"], "fmt": ["b", "p"], "text": "same"}, {"tt": ["p", "x"], "fmt": ["b"], "text": "distinct"}]
    scs += exhaustive(4 if quick else 5, ["p", "b", "x"], variants if not quick else variants[:3])
    nexh = len(scs)
    nA, nB, nC, nD, nS = (500, 300, 300, 300, 200) if quick else (4000, 2500, 2500, 2500, 1500)
    # (L) a maker in long use: its counter stands just below U+F8FF, so this document's placeholders lie at the end of and
    # beyond the private-use area (what > 6393 distinct inline elements reach); round trip only, outside the model
    for _ in range(nA // 8):
        t = gen_tree(rng, rng.randint(2, 4), root=True)
        tt, fmt = tagsets_for(rng, t)
        scs.append({"kind": "latectr", "tt": tt, "fmt": fmt, "oracle": "roundtrip",
                    "steps": [["ctr", rng.choice([0xF8F6, 0xF8FA, 0xF8FD, 0xF8FF])], ["do", t], ["undo", 0]]})
    # (A) one document, fresh maker
    for _ in range(nA):
        t = gen_tree(rng, rng.randint(1, 4), root=True, cpi=rng.choice([0.0, 0.0, 0.25]))
        tt, fmt = tagsets_for(rng, t)
        scs.append({"kind": "single", "tt": tt, "fmt": fmt, "oracle": "roundtrip",
                    "steps": [["do", t], ["table"], ["undo", 0], ["table"]]})
    # (B) several documents through one maker, undone in random order
    for _ in range(nB):
        t1 = gen_tree(rng, rng.randint(1, 4), root=True, cpi=rng.choice([0.0, 0.0, 0.25]))
        tt, fmt = tagsets_for(rng, t1)
        ds = [t1, mutate(rng, t1)] + ([gen_tree(rng, 3, root=True)] if rng.random() < 0.5 else [])
        rng.shuffle(ds)
        steps = [["do", d] for d in ds] + [["table"]] + [["undo", i] for i in range(len(ds))]
        scs.append({"kind": "multi", "tt": tt, "fmt": fmt, "oracle": "roundtrip", "steps": steps})
    # (S) same text element in two documents with other work in between
    for _ in range(nS):
        tt, fmt = gen_tagsets(rng)
        tt = [t for t in tt if t != "r"] or ["p"]
        E = gen_tree(rng, rng.randint(1, 3))
        E[0] = rng.choice(tt)
        def host():
            pre = [gen_tree(rng, 2) for _ in range(rng.randint(0, 2))]
            post = [gen_tree(rng, 2) for _ in range(rng.randint(0, 2))]
            return ["r", [], rng.choice(TEXTS), "", pre + [deepcopy(E)] + post], len(pre)
        (d1, i1), (d2, i2) = host(), host()
        steps, same = [["do", d1]], [(0, i1)]
        nd = 1
        for _ in range(rng.randint(0, 2)):
            if rng.random() < 0.5:
                steps.append(["do", gen_tree(rng, 3, root=True)]); nd += 1
            else:
                steps.append(["get", gen_tree(rng, 1, root=True), rng.choice([0, 1, 2]), None])
        steps.append(["do", d2]); same.append((nd, i2))
        steps.append(["table"])
        scs.append({"kind": "same", "tt": tt, "fmt": fmt, "oracle": "same", "same": same, "steps": steps})
    # (M) comments and processing instructions inside text tags and inside formatting elements, followed by
    # text and inline elements (their position relative to later siblings must survive); mark_diff on such
    # a placeholder is outside the model, so they stay out of the history stream
    seed_doc = ["para", [], "Intro ", "", [["#pi:pagebreak", [], "soft", "then ", []],
                                            ["b", [], "bold", " tail.", []]]]
    scs.append({"kind": "cpi", "tt": ["para"], "fmt": ["b"], "oracle": "roundtrip",
                "steps": [["do", seed_doc], ["table"], ["undo", 0]]})
    for _ in range(nS):
        def inline(depth):
            r = rng.random()
            if r < 0.35:
                return gen_cpi(rng)
            if r < 0.7 and depth > 0:
                return [rng.choice(["b", "i"]), deepcopy(rng.choice(ATTRS)), rng.choice(TEXTS), rng.choice(TEXTS) or "",
                        [inline(depth - 1) for _ in range(rng.randint(0, 3))]]
            return [rng.choice(["img", "span", "b"]), deepcopy(rng.choice(ATTRS)), rng.choice(TEXTS), rng.choice(TEXTS) or "",
                    [gen_cpi(rng)] if rng.random() < 0.3 else []]
        para = ["p", [], rng.choice(TEXTS), "", [inline(2) for _ in range(rng.randint(1, 4))]]
        doc = para if rng.random() < 0.5 else ["r", [], None, "", [gen_cpi(rng), para, gen_tree(rng, 1, cpi=0.3)]]
        fmt = [t for t in ["b", "i", "span"] if rng.random() < 0.6]
        steps = [["do", doc]] + ([["do", mutate(rng, doc)]] if rng.random() < 0.3 else []) + [["table"]]
        steps += [["undo", i] for i in range(len(steps) - 1)]
        scs.append({"kind": "cpi", "tt": ["p"], "fmt": fmt, "oracle": "roundtrip", "steps": steps})
    # (T) detached text tags: a stored (T_SINGLE) subtree containing text tags with children, met again (hit)
    for _ in range(nS):
        inner_tag = rng.choice(["p", "div"])
        inner = [inner_tag, deepcopy(rng.choice(ATTRS)), rng.choice(TEXTS), rng.choice(TEXTS) or "",
                 [gen_tree(rng, rng.randint(0, 2)) for _ in range(rng.randint(1, 2))]]
        Xt = ["span", deepcopy(rng.choice(ATTRS)), rng.choice(TEXTS), "", [inner] + [gen_tree(rng, 1) for _ in range(rng.randint(0, 1))]]
        if rng.random() < 0.3:
            Xt = inner[:3] + [""] + inner[4:]
        tt = list({"p", inner_tag} | ({"span"} if rng.random() < 0.2 else set()))
        fmt = [t for t in ["b", "i", "span", "p"] if rng.random() < 0.35]
        def cp():
            c = deepcopy(Xt); c[3] = rng.choice(TEXTS) or ""; return c
        ks = [cp() for _ in range(rng.randint(1, 3))]
        for _ in range(rng.randint(0, 2)):
            ks.insert(rng.randint(0, len(ks)), gen_tree(rng, 1))
        doc = ["p", [], rng.choice(TEXTS), "", ks]
        if rng.random() < 0.3:
            doc = ["r", [], None, "", [doc, gen_tree(rng, 2)]]
        steps = []
        if rng.random() < 0.5:
            steps.append(["get", Xt, 2, None])
        if rng.random() < 0.3:
            steps.append(["do", ["p", [], None, "", [cp()]]])
        steps += [["do", doc], ["table"]] + [["undo", i] for i in range(len([x for x in steps if x[0] == "do"]) + 1)]
        scs.append({"kind": "detached", "tt": tt, "fmt": fmt, "oracle": "roundtrip", "steps": steps})
    # (C) histories: raw get_placeholder / mark_diff / wrap_diff / do_tree, formatter-like substitution, undo
    for _ in range(nC):
        tt, fmt = gen_tagsets(rng)
        steps, nd = [], 0
        for _ in range(rng.randint(2, 7)):
            r = rng.random()
            if r < 0.3:
                steps.append(["do", gen_tree(rng, rng.randint(1, 3), root=True)]); nd += 1
            elif r < 0.5:
                cl = rng.choice([None, None, 0xE001, 0xE007, 0xE008, 0xE00A])
                steps.append(["get", gen_tree(rng, rng.randint(0, 1), root=True), rng.choice([0, 1, 2]), cl])
            elif r < 0.7:
                ph = rng.choice([0xE001, 0xE002, 0xE004, 0xE007, 0xE008, 0xE009, 0xE00A, 0xE00C, 0xE020])
                attrs = rng.choice([None, [], [["old-text", "o"]], [["k", "9"], ["z", "1"]]])
                steps.append(["mark", ph, rng.choice(["insert", "delete", "replace"]), attrs])
            elif r < 0.85:
                attrs = rng.choice([None, [], [["old-text", "o"]], [["old-text", "p"]]])
                steps.append(["wrap", rng.choice(["", "a", "x y"]), rng.choice(["insert", "delete", "replace"]), attrs])
            elif nd:
                steps.append(["subst", rng.randrange(nd), rng.randrange(1 << 30)])
        steps.append(["table"])
        order = list(range(nd)); rng.shuffle(order)
        steps += [["undo", i] for i in order]
        scs.append({"kind": "history", "tt": tt, "fmt": fmt, "steps": steps})
    # (D) adversarial undo: placeholders (balanced or not) and PUA characters anywhere, incl. tails
    for _ in range(nD):
        tt, fmt = gen_tagsets(rng)
        pool = [chr(c) for c in (0xE001, 0xE002, 0xE003, 0xE007, 0xE008, 0xE009, 0xE00A, 0xE00B, 0xE00C, 0xE030)]
        def ptext():
            r = rng.random()
            if r < 0.4:
                return rng.choice(TEXTS)
            return "".join(rng.choice(pool + ["a", "b", " "]) for _ in range(rng.randint(1, 6)))
        def ptree(depth, root=False):
            n = 0 if depth <= 0 else rng.choice([0, 1, 2])
            return [rng.choice(TAGS), deepcopy(rng.choice(ATTRS)), ptext(), "" if root and rng.random() < 0.8 else (ptext() or ""),
                    [ptree(depth - 1) for _ in range(n)]]
        steps = []
        if rng.random() < 0.8:
            steps.append(["do", gen_tree(rng, 3, root=True)])
        if rng.random() < 0.5:
            # raw entries whose elements carry text / tail / children / placeholders themselves
            for _ in range(rng.randint(1, 3)):
                steps.append(["get", ptree(1, root=rng.random() < 0.5), rng.choice([0, 1, 2]), rng.choice([None, 0xE007, 0xE009])])
        if rng.random() < 0.5:
            steps.append(["do", ptree(2, True)])
        steps.append(["table"])
        for _ in range(rng.randint(0, 2)):
            steps.append(["split", ptext() or ""])
        steps.append(["undoraw", ptree(rng.randint(0, 2), True)])
        scs.append({"kind": "adversarial", "tt": tt, "fmt": fmt, "steps": steps})
    # the witness of C11_roundtrip_ph_inv_only_refuted, replayed on the implementation and compared with the model
    wb = ["b", [], None, "", [["i", [], None, "", []]]]
    scs.append({"kind": "history", "tt": ["p"], "fmt": ["b"], "witness": "C11_roundtrip_ph_inv_only_refuted",
                "steps": [["get", wb, 1, None], ["get", wb, 0, 0xE007], ["do", ["p", [], None, "", [wb]]], ["table"], ["undo", 0]]})
    # (P) known finding "pua-char-in-document": documents containing characters of the placeholder range.  A small
    # labelled stream that runs every time: the two witnesses of C11_roundtrip_any_document_refuted first, then a few
    # seeded ones.  Model and implementation are compared as for every scenario; the round-trip oracle's failures on
    # these (and only these) inputs are reported under the finding key.
    def pua_doc(ch):
        return ["r", [], None, "", [["p", [], "a" + ch + "b", "", []]]]
    pua = [pua_doc("\ue001"), pua_doc("\ue002"), ["p", [], "a\ue001b", "", []], ["p", [], "a\ue002b", "", []]]
    for _ in range(8):
        t = gen_tree(rng, 2, root=True)
        t[0] = "p"
        tgt = rng.choice([t] + t[4])
        ch = chr(rng.choice([0xE001, 0xE002, 0xE003, 0xE004, 0xE006, 0xE007, 0xE008]))
        if rng.random() < 0.7:
            tgt[2] = (tgt[2] or "") + ch + rng.choice(["", "z"])
        else:
            tgt[3] = (tgt[3] or "") + ch if tgt is not t else ""
            if tgt is t:
                tgt[2] = ch
        pua.append(t)
    for t in pua:
        scs.append({"kind": "pua", "tt": ["p"], "fmt": ["b"], "oracle": "roundtrip", "finding_key": FINDING_PUA,
                    "witness": "C11_roundtrip_any_document_refuted", "steps": [["do", t], ["table"], ["undo", 0]]})
    return scs, nexh


# ----------------------------------------------------------------------------
# the serialisation stream: XV.Serialize.serialize vs etree.tounicode, and the parser on the real string

NASTY = ["&", "<", ">", '"', "'", "\n", "\t", "\r", " ", "a", "b", ";", "#", "-", "?", "=", "/", "amp;", "&#13;", "]]>",
         "\xe9", "\u4e2d", "\U0001F600", "\x7f", "\x85", "\u2028", "\ue007"]
SER_NAMES = ["k", "j", "id", "old-text", "a.b", "a-b", "a_b", "\xe9", "x9"]
SER_TAGS = TAGS + ["a.b", "a-b", "a_b", "\xe9l", "x9"]


def nasty(rng, empty_ok=True):
    r = rng.random()
    if r < 0.12 and empty_ok:
        return None
    if r < 0.22:
        return ""
    return "".join(rng.choice(NASTY) for _ in range(rng.randint(1, 5)))


def gen_ser_cpi(rng):
    while True:
        txt = nasty(rng, False) or ""
        if rng.random() < 0.5:
            if "--" in txt or txt.endswith("-"):
                continue
            return ["#comment", [], txt, nasty(rng) or "", []]
        if "?>" in txt:
            continue
        return ["#pi:" + rng.choice(["pagebreak", "q", "a.b"]), [], txt, nasty(rng) or "", []]


def gen_ser_tree(rng, depth, root=False):
    if not root and rng.random() < 0.2:
        return gen_ser_cpi(rng)
    names = rng.sample(SER_NAMES, rng.choice([0, 0, 1, 2, 3]))
    attrs = [[n, nasty(rng, False) or ""] for n in names]
    n = 0 if depth <= 0 else rng.choice([0, 0, 1, 2, 3])
    return [rng.choice(SER_TAGS), attrs, nasty(rng), nasty(rng) or "", [gen_ser_tree(rng, depth - 1) for _ in range(n)]]


def gen_ser_cases(run, rng):
    """(prefix, tree, how) -- how: 'api' (built through the API) or ('parse', xml) (parsed, so that <?t?> occurs)"""
    n = 400 if run.tier == "quick" else 4000
    out = []
    # fixed corner cases: empty vs absent text, with and without children; PI forms; everything escaped at once
    for t in (["a", [], None, "", []], ["a", [], "", "", []], ["a", [], "", "", [["b", [], None, "", []]]],
              ["a", [], None, "", [["b", [], "", "x", []]]], ["a", [["k", "&<>\"'\n\t\r"]], "&<>\"'\n\t\r", "&<>\r", []],
              ["#pi:t", [], "", "", []], ["#pi:t", [], " x", "", []], ["#comment", [], "", "", []], ["#comment", [], "a - b", "t", []]):
        out.append(("ns0", t))
    for _ in range(n):
        t = gen_ser_tree(rng, rng.randint(0, 3), root=True)
        r = rng.random()
        if r < 0.25:
            # what mark_diff / wrap_diff make: diff:* attributes on the key element, or the maker's own elements
            k = rng.choice(["insert", "delete", "insert-formatting", "replace", "rename"])
            t[1].insert(rng.randint(0, len(t[1])), ["{%s}%s" % (DIFF_NS, k), rng.choice(["", "x", "a&b"])])
            if rng.random() < 0.3:
                t[1].append(["{%s}%s" % (DIFF_NS, "update-attr"), nasty(rng, False) or ""])
        elif r < 0.32:
            t[0] = "{%s}%s" % (DIFF_NS, rng.choice(["insert", "delete", "replace"]))
        out.append(("ns0", t))
    return out


SER_PRE = """From Coq Require Import List NArith Bool. Import ListNotations.
Require Import XV.Placeholder XV.Serialize. Local Open Scope N_scope.
Notation X := XNode.
Definition case := (str * xtree * str)%type.
Definition check (c : case) : bool :=
  let '(P, t, expected) := c in
  str_eqb (serialize P t) expected && key_ok t && prefix_ok P &&
  match parse P (pneed t) expected with Some u => xtree_eqb u (knorm t) | None => false end.
"""


def run_ser(run, rng, build_ok):
    from lxml import etree
    cases = gen_ser_cases(run, rng)
    # a few through the parser (a PI without content prints <?t?>, one with empty content <?t ?>)
    parsed = []
    for xml in ("<r><?q?>x<?q ?><?q  y ?><!----></r>", "<r a='1' b=\"&quot;'\">&amp;<b/>&#13;</r>", "<r><a></a><a/><a> </a></r>"):
        e = etree.fromstring(xml)
        parsed.append(("ns0", canon_ser(e), etree.tounicode(e)))
    rows = [(P, t, etree.tounicode(build_root(t))) for P, t in cases] + parsed
    # once everything else has run: register the prefix the formatter registers and check the other prefix
    return cases, rows


def canon_ser(e):
    """canon, but telling a PI without content (<?t?>) from one with empty content (<?t ?>)"""
    from lxml import etree
    if e.tag is etree.PI:
        body = etree.tounicode(e, with_tail=False)
        return ["#pi:" + e.target, [], None if body == "<?%s?>" % e.target else e.text, e.tail or "", []]
    if e.tag is etree.Comment:
        return ["#comment", [], e.text, e.tail or "", []]
    return [e.tag, [[k, v] for k, v in e.attrib.items()], e.text, e.tail or "", [canon_ser(c) for c in e]]


def ser_rows_diff_prefix(run, rng):
    """after etree.register_namespace('diff', ...) new diff:* names print with the prefix 'diff'"""
    from lxml import etree
    etree.register_namespace("diff", DIFF_NS)
    rows = []
    for _ in range(40 if run.tier == "quick" else 300):
        t = gen_ser_tree(rng, rng.randint(0, 2), root=True)
        if rng.random() < 0.7:
            t[1].append(["{%s}%s" % (DIFF_NS, rng.choice(["insert", "delete"])), ""])
        else:
            t[0] = "{%s}insert" % DIFF_NS
        rows.append(("diff", t, etree.tounicode(build_root(t))))
    return rows


# ----------------------------------------------------------------------------
# Gallina side

PRE = """From Coq Require Import List NArith Bool. Import ListNotations.
Require Import XV.Placeholder XV.Serialize. Local Open Scope N_scope.
Notation X := XNode.
Definition NS0 : str := [110;115;48].
Inductive step := SOp (o : op) (r : opres) | SUndo (t : xtree) (r : res xtree)
  | STable (tb : list (N * entry)) (c : N) (tk : list (ttype * option N * N)) (keys : list str)
  | SSplit (x : str) (r : list str) (isp : list bool).
Definition case := (list str * list str * list step)%type.
Definition err_eqb (a b : err) : bool :=
  match a, b with EFuel, EFuel | EIndex, EIndex | ENoParent, ENoParent | EKey, EKey => true | _, _ => false end.
Definition opres_eqb (a b : opres) : bool :=
  match a, b with
  | RPh x, RPh y => N.eqb x y | RStr x, RStr y => str_eqb x y | RTree x, RTree y => xtree_eqb x y
  | RErr x, RErr y => err_eqb x y | _, _ => false end.
Definition entry_eqb (a b : N * entry) : bool :=
  let '(c1, (e1, t1, l1)) := a in let '(c2, (e2, t2, l2)) := b in
  N.eqb c1 c2 && xtree_eqb e1 e2 && ttype_eqb t1 t2 && on_eqb l1 l2.
Fixpoint list_eqb {A} (f : A -> A -> bool) (x y : list A) : bool :=
  match x, y with [] , [] => true | a :: x', b :: y' => f a b && list_eqb f x' y' | _, _ => false end.
Definition tk_eqb (a b : ttype * option N * N) : bool :=
  let '(t1, l1, c1) := a in let '(t2, l2, c2) := b in ttype_eqb t1 t2 && on_eqb l1 l2 && N.eqb c1 c2.
Fixpoint run (tt fmt : list str) (s : state) (steps : list step) : bool :=
  match steps with
  | [] => true
  | SOp o r :: rest => opres_eqb (ph_step_res tt fmt s o) r && run tt fmt (ph_step tt fmt s o) rest
  | SUndo t r :: rest =>
    (match undo_tree s t, r with Ok a, Ok b => xtree_eqb a b | Err a, Err b => err_eqb a b | _, _ => false end)
    && run tt fmt s rest
  | STable tb c tk keys :: rest =>
    list_eqb entry_eqb (rev (p2t s)) tb && N.eqb (ctr s) c
    && list_eqb tk_eqb (map (fun kc => (snd (fst (fst kc)), snd (fst kc), snd kc)) (rev (t2p s))) tk
    (* the real dictionary keys are the serialisations of the model's key elements, all inside the fragment *)
    && list_eqb str_eqb (map (fun kc => serialize NS0 (fst (fst (fst kc)))) (rev (t2p s))) keys
    && forallb (fun kc => key_ok (fst (fst (fst kc)))) (t2p s)
    && run tt fmt s rest
  | SSplit x r isp :: rest =>
    list_eqb str_eqb (split_string s x) r && list_eqb Bool.eqb (map (is_ph s) x) isp && run tt fmt s rest
  end.
Definition check (c : case) : bool := let '(tg, fmt, steps) := c in run tg fmt ph_init steps.
"""


def cs(s):
    return "[" + ";".join(str(ord(c)) for c in s) + "]"


def cattrs(a):
    return "[" + ";".join("(%s,%s)" % (cs(k), cs(v)) for k, v in a) + "]"


def ctree(t):
    return "(X %s %s %s %s [%s])" % (cs(t[0]), cattrs(t[1]), "None" if t[2] is None else "(Some %s)" % cs(t[2]),
                                     cs(t[3] or ""), ";".join(ctree(k) for k in t[4]))


def con(x):
    return "None" if x is None else "(Some %d)" % x


TT = {0: "TOpen", 1: "TClose", 2: "TSingle"}
ACT = {"insert": "AIns", "delete": "ADel", "replace": "ARep"}


def cres(r):
    if r[0] == "ph":
        return "(RPh %d)" % r[1]
    if r[0] == "str":
        return "(RStr %s)" % cs(r[1])
    if r[0] == "tree":
        return "(RTree %s)" % ctree(r[1])
    return "(RErr %s)" % r[1]


def ctrace(tr):
    if tr[0] == "op":
        o = tr[1]
        if o[0] == "do":
            term = "(OpDo %s)" % ctree(o[1])
        elif o[0] == "get":
            term = "(OpGet %s %s %s)" % (ctree(o[1]), TT[o[2]], con(o[3]))
        elif o[0] == "mark":
            term = "(OpMark %d %s %s)" % (o[1], cs(o[2]), cattrs(o[3] or []))
        else:
            term = "(OpWrap %s %s %s)" % (cs(o[1]), ACT[o[2]], cattrs(o[3] or []))
        return "SOp %s %s" % (term, cres(tr[2]))
    if tr[0] == "undo":
        r = tr[2]
        return "SUndo %s %s" % (ctree(tr[1]), "(Ok %s)" % ctree(r[1]) if r[0] == "ok" else "(Err %s)" % r[1])
    if tr[0] == "split":
        return "SSplit %s [%s] [%s]" % (cs(tr[1]), ";".join(cs(x) for x in tr[2]), ";".join("true" if b else "false" for b in tr[3]))
    tb = "[" + ";".join("(%d,(%s,%s,%s))" % (e[0], ctree(e[1]), TT[e[2]], con(e[3])) for e in tr[1]) + "]"
    tk = "[" + ";".join("(%s,%s,%d)" % (TT[e[0]], con(e[1]), e[2]) for e in tr[3]) + "]"
    keys = "[" + ";".join(cs(e[3]) for e in tr[3]) + "]"
    return "STable %s %d %s %s" % (tb, tr[2], tk, keys)


def coq_case(sc, trace):
    return "([%s], [%s], [%s])" % (";".join(cs(t) for t in sc["tt"]), ";".join(cs(t) for t in sc["fmt"]),
                                   ";\n ".join(ctrace(t) for t in trace))


def modelable(trace):
    """Exceptions other than the four modelled kinds (e.g. chr() out of range) are outside the model."""
    for tr in trace:
        if tr[0] == "ctr":
            return False
        r = tr[2] if tr[0] in ("op", "undo") else None
        if r and r[0] == "err" and r[1].startswith("other:"):
            return False
    return True


# ----------------------------------------------------------------------------


def main(run):
    rng = random.Random(run.seed)
    ok, pinfo = lib.proof_stage(run, "C11")
    run.log("proof stage:", "ok" if ok else "BROKEN %s" % pinfo.get("failed"))
    scs, nexh = gen_scenarios(run, rng)
    traces, viols, known, skipped = [], [], [], 0
    for sc in scs:
        try:
            _, _, tr = run_impl(sc)
        except Exception as ex:  # noqa
            tr = None
            viols.append({"what": "implementation raised %s: %s" % (type(ex).__name__, ex), "replay": {"scenario": sc}})
        traces.append(tr)
        if sc.get("oracle") or sc["kind"] in ("history",):
            why = oracle(sc)
            if why and sc.get("finding_key") and all(has_pua(st[1]) for st in sc["steps"] if st[0] == "do"):
                # the document itself contains placeholder-range characters: the known finding, not a new one
                # (lib prints KNOWN-FINDING while the entry in known_findings.json is open, VIOLATION otherwise)
                known.append({"what": why, "replay": {"scenario": sc, "finding_key": sc["finding_key"]}})
            elif why:
                viols.append({"what": why, "replay": {"scenario": sc}})
    # the maker inside a reused XMLFormatter (prepare() on trees parsed once)
    from harness import xmlfmt_corr
    chains = [list(c) for c in xmlfmt_corr.CHAIN_FIXED] + [xmlfmt_corr.gen_chain(rng) for _ in range(80 if run.tier == "quick" else 800)]
    nchain = 0
    for revs in chains:
        if any("<!--" in r for r in revs):
            continue
        for cfg in xmlfmt_corr.CHAIN_CFGS[:3]:
            nchain += 1
            why = formatter_chain_oracle(revs, cfg)
            if why:
                viols.append({"what": why, "replay": {"kind": "formatter-chain", "revisions": revs,
                                                      "cfg": {k: (list(v) if isinstance(v, tuple) else v) for k, v in cfg.items()}}})
    run.coverage["formatter_chains"] = nchain
    viols.sort(key=lambda v: len(json.dumps(v["replay"])))
    for v in known[:1]:
        run.violation(v["what"], v["replay"])
    run.coverage["known_finding_stream"] = {"key": FINDING_PUA, "inputs": sum(1 for sc in scs if sc["kind"] == "pua"),
                                            "round_trip_failures_on_impl": len(known)}
    idx = [i for i, tr in enumerate(traces) if tr is not None and modelable(tr)]
    skipped = len(scs) - len(idx)
    # serialisation stream (the prefix registration is process-global, hence after every maker run above)
    _, ser_rows = run_ser(run, rng, pinfo.get("build_ok"))
    ser_rows += ser_rows_diff_prefix(run, rng)
    ser_bad, ser_log = [], ""
    bad, log = [], ""
    if pinfo.get("build_ok"):
        # a name of our own, so that concurrent runs (other tiers) do not overwrite each other's case files
        cname = "C11%s%d" % (run.tier[0], os.getpid())
        try:
            bad, log = lib.run_cases(cname, PRE, [coq_case(scs[i], traces[i]) for i in idx], chunk=max(60, len(idx) // 48 + 1))
            ser_bad, ser_log = lib.run_cases(cname + "s", SER_PRE, ["(%s, %s, %s)" % (cs(P), ctree(t), cs(x)) for P, t, x in ser_rows],
                                             chunk=max(40, len(ser_rows) // 16 + 1))
        finally:
            for f in os.listdir(lib.CASES):
                if f.startswith(cname + "_") or f.startswith("." + cname + "_") or f.startswith(cname + "s_") or f.startswith("." + cname + "s_"):
                    try:
                        os.unlink(os.path.join(lib.CASES, f))
                    except OSError:
                        pass
    bad = [idx[b] for b in bad] if all(b < len(idx) for b in bad) else bad
    run.log("correspondence: %d scenarios (%d outside the model), %d disagreements; oracle violations on impl: %d"
            % (len(idx), skipped, len(bad), len(viols)))
    nsteps = sum(len(traces[i]) for i in idx)
    corr = [{"name": "formatting.PlaceholderMaker (do_tree, tables, undo_tree, get_placeholder, mark_diff, wrap_diff) vs XV.Placeholder",
             "cases": len(idx), "bad": bad, "log": log,
             "describe": lambda i: {"scenario": scs[i], "impl_trace": traces[i]}},
            {"name": "etree.tounicode vs XV.Serialize.serialize (and XV.Serialize.parse on the real string)",
             "cases": len(ser_rows), "bad": ser_bad, "log": ser_log,
             "describe": lambda i: {"prefix": ser_rows[i][0], "tree": ser_rows[i][1], "tounicode": ser_rows[i][2]}}]
    run.log("serialisation: %d subtrees, %d disagreements" % (len(ser_rows), len(ser_bad)))

    def deeper():
        out = []
        r2 = random.Random(run.seed + 1)
        for _ in range(20000):
            tt, fmt = gen_tagsets(r2)
            t1 = gen_tree(r2, r2.randint(1, 4), root=True)
            ds = [t1] + ([mutate(r2, t1)] if r2.random() < 0.5 else [])
            sc = {"kind": "multi", "tt": tt, "fmt": fmt, "oracle": "roundtrip",
                  "steps": [["do", d] for d in ds] + [["undo", i] for i in range(len(ds))]}
            why = oracle(sc)
            if why:
                out.append({"what": why, "replay": {"scenario": sc}})
                if len(out) > 20:
                    break
        out.sort(key=lambda v: len(json.dumps(v["replay"])))
        return out

    kinds, sizes = {}, {}
    for sc in scs:
        kinds[sc["kind"]] = kinds.get(sc["kind"], 0) + 1
        n = sum(nodes(st[1]) for st in sc["steps"] if st[0] == "do")
        sizes[min(n, 40) // 5 * 5] = sizes.get(min(n, 40) // 5 * 5, 0) + 1
    nontriv = set()
    for i in idx:
        tr = traces[i]
        if any(t[0] == "table" and len(t[1]) > 6 for t in tr):
            nontriv.add(json.dumps(scs[i], sort_keys=True))
    run.coverage.update({
        "evaluations": len(idx),
        "steps_compared": nsteps,
        "distinct_nontrivial": len(nontriv),
        "rule": "every labelled ordered tree with <= %d nodes over tags {p,b,x} x %d tag/text variants [%d, exhaustive]; plus seeded "
                "mixed-content documents (tags %s, attributes in both orders, None/''/whitespace texts and tails, depth <= 4; comments and processing instructions with tails "
                "inside text tags and formatting elements) with random text_tags/formatting_tags subsets on fresh makers, makers that processed other (related) documents, histories of raw "
                "get_placeholder/mark_diff/wrap_diff/do_tree calls with formatter-like substitution, and adversarial undo inputs "
                "(unbalanced placeholders, PUA characters in texts and tails); compared exactly: tree after do_tree, placeholder2tag "
                "(element, role, close) in insertion order, tag2placeholder (role, close, placeholder), counter, tree or exception "
                "kind after undo_tree; non-trivial = at least one placeholder beyond the six built-in ones was allocated"
                % (4 if run.tier == "quick" else 5, 3 if run.tier == "quick" else 4, nexh, TAGS),
        "exhaustive_small_scope": nexh,
        "outside_model": skipped,
        "input_distribution": {"kind->count": kinds, "document nodes (bucket of 5)->count": dict(sorted(sizes.items()))},
        "samples": [{"scenario": scs[i], "impl_trace": json.loads(json.dumps(traces[i]))} for i in idx[nexh:nexh + 2]],
    })
    run.assumptions = [
        "etree.tounicode is modelled by XV.Serialize.serialize on the fragment key_ok (no namespaces except the maker's own diff namespace on the key element, prefix ns0/diff; XML names; comments without '--', PIs without '?>'); compared with lxml on every run, incl. the real tag2placeholder keys of every scenario; its injectivity up to knorm is PROVED (Properties/C11_serial.v), not assumed",
        "documents use no namespaces (in particular not the diff namespace); chr() range (U+10FFFF) not reached",
        "comments / processing instructions are childless nodes with reserved tag names (#comment, #pi:<target>, text = content), never listed in text_tags / formatting_tags; mark_diff on their placeholders is not modelled",
        "table elements are compared by the value they have when do_tree returns (live objects are mutated during do_tree; nothing reads them meanwhile)",
        "Python's recursion limit is modelled by fuel: undo_tree runs with at least UNDO_DEPTH = 400 levels; C11_roundtrip carries the guard xheight T < UNDO_DEPTH, C11_roundtrip_any_fuel covers every depth",
        "documents contain no private-use characters of the placeholder range (no_pua); without it the round trip is false of the code (C11_roundtrip_any_document_refuted, replayed each run)",
    ]
    lib.conclude(run, ok, pinfo, corr, viols, deeper)


def formatter_chain_oracle(revs, cfg):
    """The maker as XMLFormatter uses it: ONE formatter, prepare() called for (v1, v2), (v1, v3), ... on trees parsed
    once.  After every prepare(): an inline element that is identical in the two documents has the same placeholder
    text in both, and restoring every tree seen so far (on copies) gives the original documents (comments removed)."""
    from copy import deepcopy
    from lxml import etree
    from xmldiff import formatting as F
    f = F.XMLFormatter(**cfg)
    trees = [etree.fromstring(r) for r in revs]

    def canon_x(e):
        return (e.tag, tuple(sorted(e.attrib.items())), e.text or "", tuple((canon_x(c), c.tail or "") for c in e if isinstance(c.tag, str)))

    origs = []
    for r in revs:
        o = etree.fromstring(r)
        origs.append(canon_x(o))
    for k in range(1, len(trees)):
        try:
            f.prepare(trees[0], trees[k])
        except Exception as ex:  # noqa
            return "XMLFormatter.prepare raised %s: %s" % (type(ex).__name__, ex)
        for i in [0] + list(range(1, k + 1)):
            c = deepcopy(trees[i])
            try:
                f.placeholderer.undo_tree(c)
            except Exception as ex:  # noqa
                return "undo_tree on revision %d (substituted by an earlier prepare() of the same formatter) raised %s: %s" % (i + 1, type(ex).__name__, ex)
            if canon_x(c) != origs[i]:
                return "restoring revision %d after %d prepare() calls on one formatter gives %s, the document was %s" % (
                    i + 1, k, etree.tostring(c).decode()[:300], revs[i][:300])
    return None


def replay(run, path):
    d = json.load(open(path))
    if d.get("kind") == "formatter-chain":
        why = formatter_chain_oracle(d["revisions"], {k: (tuple(v) if isinstance(v, list) else v) for k, v in d["cfg"].items()})
        print("->", why or "property holds on this input")
        return 1 if why else 0
    sc = d.get("scenario")
    if not sc:
        print("replay names a broken tie, not an input:", d.get("broken")); return 1
    try:
        m, docs, trace = run_impl(sc)
        for tr in trace:
            print(ascii(tr)[:400])
    except Exception as ex:  # noqa
        print("implementation raised", type(ex).__name__, ex)
    why = oracle(sc)
    print("->", why or "property holds on this input")
    if why and d.get("finding_key"):
        print("(known finding %s)" % d["finding_key"])
    return 1 if why else 0
