"""C16 -- the character-level text diff (diff_match_patch.diff_main, diff_cleanupSemantic) and the
formatter's re-balancing of placeholders (_realign_placeholders, _join_delete_insert) preserve both texts.

Model: coq/theories/DMP.v; theorems: coq/theories/Properties/C16.v.
Correspondence: the model is evaluated (vm_compute) on the same inputs as the implementation and the
segment lists are compared exactly after each of the four stages.  Independently an oracle checks the
property itself on what the implementation returned."""
import itertools, json, random, time as _time
from harness import lib

DEL, INS, EQ, REP = -1, 1, 0, 2
OPN = {DEL: "D", INS: "I", EQ: "E"}
ERRMAP = {"IndexError": "IndexError", "AssertionError": "AssertionError", "RecursionError": "OutOfFuel",
          "UnboundLocalError": "UnboundLocalError", "TypeError": "TypeError"}


# ----------------------------------------------------------------------------
# the implementation under a scripted clock

class FakeTime:
    """Stands in for the `time` module inside xmldiff.diff_match_patch.  The first reading fixes the
    deadline (0 + Diff_Timeout = 1.0); the i-th later reading is past the deadline iff the script says so."""

    def __init__(self, script, dflt):
        self.script, self.dflt, self.n = script, dflt, -1

    def time(self):
        self.n += 1
        if self.n == 0:
            return 0.0
        i = self.n - 1
        late = self.script[i] if i < len(self.script) else self.dflt
        return 5.0 if late else 0.25


def exc_name(ex):
    return "exc:" + type(ex).__name__


def impl_full(a, b, script, dflt):
    """-> (diff_main result | 'exc:..', cleanupSemantic result | 'exc:..' | None, clock readings)"""
    import xmldiff.diff_match_patch as M
    dmp = M.diff_match_patch()
    ft = FakeTime(script, dflt)
    M.time = ft
    try:
        try:
            d = dmp.diff_main(a, b)
        except Exception as ex:  # noqa
            return exc_name(ex), None, ft.n
        d1 = [tuple(x) for x in d]
        try:
            dmp.diff_cleanupSemantic(d)
        except Exception as ex:  # noqa
            return d1, exc_name(ex), ft.n
        return d1, [tuple(x) for x in d], ft.n
    finally:
        M.time = _time


def impl_sem(d):
    import xmldiff.diff_match_patch as M
    dmp = M.diff_match_patch()
    d = list(d)
    try:
        dmp.diff_cleanupSemantic(d)
    except Exception as ex:  # noqa
        return exc_name(ex)
    return [tuple(x) for x in d]


def impl_merge(d):
    import xmldiff.diff_match_patch as M
    dmp = M.diff_match_patch()
    d = list(d)
    try:
        dmp.diff_cleanupMerge(d)
    except Exception as ex:  # noqa
        return exc_name(ex)
    return [tuple(x) for x in d]


_FMT = None


def formatter():
    """A real XMLFormatter whose PlaceholderMaker knows, besides the three diff tags it creates itself,
    two formatting tags (open/close pairs) and two singletons."""
    global _FMT
    if _FMT is None:
        from lxml import etree
        from xmldiff import formatting as F
        fm = F.XMLFormatter(text_tags=("p",), formatting_tags=("b", "i"))
        pm = fm.placeholderer
        tags = {}
        for t in ("b", "i"):
            el = etree.Element(t)
            c = pm.get_placeholder(el, F.T_CLOSE, None)
            o = pm.get_placeholder(el, F.T_OPEN, c)
            tags[t] = (o, c)
        singles = [pm.get_placeholder(etree.Element(t), F.T_SINGLE, None) for t in ("br", "img")]
        table = []
        for ph, ent in pm.placeholder2tag.items():
            table.append((ord(ph), {F.T_OPEN: "T_OPEN", F.T_CLOSE: "T_CLOSE", F.T_SINGLE: "T_SINGLE"}[ent.ttype],
                          None if ent.close_ph is None else ord(ent.close_ph)))
        _FMT = (fm, table, tags, singles)
    return _FMT


_impl_realign_n = [0]


def impl_realign(d):
    fm = formatter()[0]
    # the re-balancing does not depend on how the formatter is configured: the same answer under every normalize value
    # and with use_replace (the model knows one answer)
    k = len(d) + sum(len(t) + ord(t[0]) for _, t in d if t)      # a function of the case, so that a replay repeats it
    fm.normalize = (0, 1, 2, 3)[k % 4]
    fm.use_replace = bool(k % 3 == 0)
    try:
        r = fm._realign_placeholders(list(d))
    except Exception as ex:  # noqa
        return exc_name(ex), None
    finally:
        fm.normalize, fm.use_replace = 0, False
    r = [tuple(x) for x in r]
    try:
        j = fm._join_delete_insert(list(r))
    except Exception as ex:  # noqa
        return r, exc_name(ex)
    return r, [tuple(x) for x in j]


# ----------------------------------------------------------------------------
# the property, evaluated on what the implementation returned

def t1(d):
    return "".join(x[1] for x in d if x[0] != INS)


def t2(d):
    return "".join(x[1] for x in d if x[0] != DEL)


def oracle_diff(a, b, d, stage):
    if isinstance(d, str):
        return "%s raised %s" % (stage, d[4:])
    if t1(d) != a:
        return "%s: equal+delete segments give %r, not the first string %r" % (stage, t1(d), a)
    if t2(d) != b:
        return "%s: equal+insert segments give %r, not the second string %r" % (stage, t2(d), b)
    if any(x[1] == "" for x in d):
        return "%s: empty segment in %r" % (stage, d)
    if any(x[0] not in (DEL, INS, EQ) for x in d):
        return "%s: unknown operation in %r" % (stage, d)
    return None


def erase_oc(s):
    tbl = {c: t for c, t, _ in formatter()[1]}
    return "".join(c for c in s if tbl.get(ord(c)) not in ("T_OPEN", "T_CLOSE"))


def erase_close(s):
    tbl = {c: t for c, t, _ in formatter()[1]}
    return "".join(c for c in s if tbl.get(ord(c)) != "T_CLOSE")


def jt1(j):
    return "".join((x[2] if x[0] == REP else x[1]) for x in j if x[0] != INS)


def jt2(j):
    return "".join(x[1] for x in j if x[0] != DEL)


def oracle_realign(d, r, j):
    """None | message.  Exceptions are not reconstruction failures (they are counted, not reported)."""
    if isinstance(r, str):
        return None
    for nm, f in (("old", t1), ("new", t2)):
        if erase_oc(f(r)) != erase_oc(f(d)):
            return "_realign_placeholders changed the %s text beyond open/close placeholders: %r -> %r" % (nm, f(d), f(r))
        if erase_close(f(r)) != erase_close(f(d)):
            return "_realign_placeholders moved something other than a close placeholder (%s text): %r -> %r" % (nm, f(d), f(r))
    if any(x[1] == "" for x in r):
        return "_realign_placeholders produced an empty segment: %r" % (r,)
    if isinstance(j, str) or j is None:
        return None
    if jt1(j) != t1(r) or jt2(j) != t2(r):
        return "_join_delete_insert changed a text: %r -> %r" % (r, j)
    return None


# ----------------------------------------------------------------------------
# Gallina encodings

PRE = """From Coq Require Import List ZArith NArith Bool. Import ListNotations.
Require Import XV.DMP.
Notation D := DELETE. Notation I := INSERT. Notation E := EQUAL.
Notation T := true. Notation F := false.
Inductive expect (A : Type) := EOk (a : A) | EErr (e : error).
Arguments EOk {A} a. Arguments EErr {A} e.
Inductive case :=
| CFull (script : list bool) (dflt : bool) (alnum space : list N) (a b : str) (em es : expect (list seg))
| CSem (alnum space : list N) (d : list seg) (e : expect (list seg))
| CMerge (d : list seg) (e : expect (list seg))
| CRealign (tbl : list (N * (ttype * option N))) (d : list seg) (er : expect (list seg)) (ej : expect (list jseg))
| CBis (script : list bool) (dflt : bool) (a b : str).
Definition op_eqb (x y : op) := Z.eqb (op_code x) (op_code y).
Definition seg_eqb (x y : seg) := op_eqb (fst x) (fst y) && str_eqb (snd x) (snd y).
Definition jseg_eqb (x y : jseg) := match x, y with
  | JS o t, JS o' t' => op_eqb o o' && str_eqb t t'
  | JR n o, JR n' o' => str_eqb n n' && str_eqb o o'
  | _, _ => false end.
Fixpoint list_eqb {A} (f : A -> A -> bool) (x y : list A) := match x, y with
  | [], [] => true | a :: x', b :: y' => f a b && list_eqb f x' y' | _, _ => false end.
Definition err_eqb (x y : error) := match x, y with
  | OutOfFuel, OutOfFuel | IndexError, IndexError | AssertionError, AssertionError
  | UnboundLocalError, UnboundLocalError | TypeError, TypeError | Unsupported, Unsupported => true
  | _, _ => false end.
Definition agree {A} (f : A -> A -> bool) (r : result A) (e : expect A) := match r, e with
  | Ok x, EOk y => f x y | Err x, EErr y => err_eqb x y | _, _ => false end.
Definition cc_of (alnum space : list N) : charcls :=
  {| isalnum := fun c => existsb (N.eqb c) alnum; isspace := fun c => existsb (N.eqb c) space |}.
Definition clock_of (script : list bool) (dflt : bool) : nat -> bool := fun i => nth i script dflt.
Fixpoint lookup (tbl : list (N * (ttype * option N))) (c : N) := match tbl with
  | [] => None | (k, v) :: r => if N.eqb k c then Some v else lookup r c end.
(* the hypothesis of C16_no_error_partial (XV.DMPTotalMain.bisect_safe), as a boolean test on one input *)
Local Open Scope Z_scope.
Definition heads_differ (a b : str) := match a, b with x :: _, y :: _ => negb (N.eqb x y) | _, _ => true end.
Definition bis_pre (a b : str) : bool :=
  (2 <=? zlen a) && (2 <=? zlen b) && heads_differ a b && heads_differ (rev a) (rev b) &&
  (find (if zlen a >? zlen b then b else a) (if zlen a >? zlen b then a else b) =? -1).
Definition bis_ok (clock : nat -> bool) (a b : str) : bool :=
  match bisect_core a b clock 0 with
  | Ok (KFound x y, _) => (0 <=? x) && (x <=? zlen a) && (0 <=? y) && (y <=? zlen b) && (0 <? x + y) && (x + y <? zlen a + zlen b)
  | Ok (KNone, _) => true
  | Err _ => false
  end.
Local Close Scope Z_scope.
Definition check (c : case) : bool := match c with
  | CBis script dflt a b => negb (bis_pre a b) || bis_ok (clock_of script dflt) a b
  | CFull script dflt alnum space a b em es =>
      agree (list_eqb seg_eqb) (diff_main (cc_of alnum space) (clock_of script dflt) a b) em &&
      match em with EOk d => agree (list_eqb seg_eqb) (diff_cleanupSemantic (cc_of alnum space) d) es | EErr _ => true end
  | CSem alnum space d e => agree (list_eqb seg_eqb) (diff_cleanupSemantic (cc_of alnum space) d) e
  | CMerge d e => agree (list_eqb seg_eqb) (cleanupMerge d) e
  | CRealign tbl d er ej =>
      agree (list_eqb seg_eqb) (realign (lookup tbl) d) er &&
      match er with EOk r => agree (list_eqb jseg_eqb) (join_delete_insert r) ej | EErr _ => true end
  end.
"""


def cstr(s):
    return "[" + ";".join("%d" % ord(c) for c in s) + "]%N"


def cseg(d):
    return "[" + ";".join("(%s,%s)" % (OPN[o], cstr(t)) for o, t in d) + "]"


def cjseg(j):
    out = []
    for x in j:
        if x[0] == REP:
            out.append("JR %s %s" % (cstr(x[1]), cstr(x[2])))
        else:
            out.append("JS %s %s" % (OPN[x[0]], cstr(x[1])))
    return "[" + ";".join(out) + "]"


def cexp(r, enc):
    if isinstance(r, str):
        return "(EErr %s)" % ERRMAP.get(r[4:], "Unsupported")
    return "(EOk %s)" % enc(r)


def cbools(bs):
    return "[" + ";".join("T" if x else "F" for x in bs) + "]"


def classes(*strings):
    cs = set("".join(strings))
    al = sorted(ord(c) for c in cs if c.isalnum())
    sp = sorted(ord(c) for c in cs if c.isspace())
    return ("[" + ";".join(map(str, al)) + "]%N", "[" + ";".join(map(str, sp)) + "]%N")


def ctable():
    return "[" + ";".join("(%d%%N,(%s,%s))" % (c, t, "None" if cl is None else "Some %d%%N" % cl)
                          for c, t, cl in formatter()[1]) + "]"


# ----------------------------------------------------------------------------
# inputs

WORDS = ["the", "cat", "a", "mat", "sat", "on", "hat", "that", "at", "The", "xml", "diff", ".", ",", "is", "it"]
LINES = ["alpha beta\n", "gamma\n", "\n", "delta epsilon zeta\n", "eta theta\n", "iota\n", "kappa lambda\n",
         "mu nu xi omicron\n", "pi\r\n", "rho sigma tau\n", "x\n", "upsilon phi chi psi omega\n"]


def rand_text(rng, kind):
    if kind == "letters":
        al = rng.choice(["ab", "ab ", "abc", "ab\n", "abc. \n"])
        return "".join(rng.choice(al) for _ in range(rng.randint(0, 24)))
    if kind == "words":
        return " ".join(rng.choice(WORDS) for _ in range(rng.randint(0, 12)))
    if kind == "repeats":
        u = "".join(rng.choice("ab ") for _ in range(rng.randint(1, 4)))
        return (u * rng.randint(1, 12))[: rng.randint(0, 40)]
    if kind == "unicode":
        al = "aé  中.\n b" + "e\u0301o\u0308"      # incl. combining marks (decomposed accents)
        return "".join(rng.choice(al) for _ in range(rng.randint(0, 16)))
    raise ValueError(kind)


def mutate(rng, s, n=3):
    s = list(s)
    for _ in range(rng.randint(0, n)):
        k = rng.choice(["del", "ins", "sub", "dup", "move"])
        i = rng.randint(0, len(s))
        j = min(len(s), i + rng.randint(0, 6))
        if k == "del":
            del s[i:j]
        elif k == "ins":
            s[i:i] = list(rng.choice(WORDS + [" ", "\n", "ab"]))
        elif k == "sub" and i < len(s):
            s[i] = rng.choice("abx \n")
        elif k == "dup":
            s[i:i] = s[i:j]
        elif k == "move":
            blk = s[i:j]
            del s[i:j]
            p = rng.randint(0, len(s))
            s[p:p] = blk
    return "".join(s)


def rand_long(rng):
    """texts > 100 characters with line breaks, so that diff_lineMode runs"""
    la = [rng.choice(LINES) for _ in range(rng.randint(12, 22))]
    lb = list(la)
    for _ in range(rng.randint(1, 5)):
        k = rng.choice(["del", "ins", "sub", "edit", "swap"])
        i = rng.randint(0, len(lb))
        if k == "del" and lb:
            del lb[i:i + rng.randint(1, 3)]
        elif k == "ins":
            lb[i:i] = [rng.choice(LINES) for _ in range(rng.randint(1, 3))]
        elif k == "sub" and i < len(lb):
            lb[i] = rng.choice(LINES)
        elif k == "edit" and i < len(lb):
            lb[i] = mutate(rng, lb[i], 2)
        elif k == "swap" and i + 1 < len(lb):
            lb[i], lb[i + 1] = lb[i + 1], lb[i]
    a, b = "".join(la), "".join(lb)
    if rng.random() < 0.3:
        a = a.rstrip("\n")
    if rng.random() < 0.2:
        a, b = b, a
    if rng.random() < 0.3:   # no common prefix/suffix, force the middle to be long
        a, b = "<" + a + ">", "[" + b + "]"
    return a, b


def rand_clock(rng):
    k = rng.choice(["never", "never", "always", "after", "after", "random"])
    if k == "never":
        return [], False
    if k == "always":
        return [], True
    if k == "after":
        return [False] * rng.randint(1, 12), True
    return [rng.random() < 0.3 for _ in range(rng.randint(1, 30))], rng.random() < 0.5


def rand_segs(rng, allow_empty=True):
    al = rng.choice(["ab", "ab ", "abc \n"])
    d = []
    for _ in range(rng.randint(0, 7)):
        lo = 0 if (allow_empty and rng.random() < 0.15) else 1
        d.append((rng.choice([DEL, INS, EQ]), "".join(rng.choice(al) for _ in range(rng.randint(lo, 5)))))
    return d


def rand_ph_text(rng, balanced):
    fm, table, tags, singles = formatter()
    pm = fm.placeholderer
    opens = [tags["b"], tags["i"], pm.diff_tags["insert"], pm.diff_tags["delete"]]
    if balanced:
        def gen(depth):
            out = ""
            for _ in range(rng.randint(0, 3)):
                r = rng.random()
                if r < 0.4:
                    out += "".join(rng.choice("a ") for _ in range(rng.randint(1, 3)))
                elif r < 0.55:
                    out += rng.choice(singles)
                elif depth < 3:
                    o, c = rng.choice(opens)
                    out += o + gen(depth + 1) + c
            return out
        return gen(0)
    al = ["a", " ", "a"] + singles[:1] + [x for oc in opens[:3] for x in oc]
    return "".join(rng.choice(al) for _ in range(rng.randint(0, 9)))


def gen_cases(run, rng):
    """-> list of dict(kind, ...inputs...)"""
    quick = run.tier == "quick"
    cases = []
    la, lb = (5, 4) if quick else (6, 5)
    al = "ab "
    strs = ["".join(p) for k in range(la + 1) for p in itertools.product(al, repeat=k)]
    for a in strs:
        for b in strs:
            if len(b) <= lb:
                cases.append({"kind": "full", "a": a, "b": b, "script": [], "dflt": False, "grp": "exhaustive"})
    nexh = len(cases)
    # regression: line mode used to leave an empty DELETE behind (repaired in /repo: "fix: diff_cleanupSemantic
    # must not leave empty edits behind")
    cases.append({"kind": "full", "a": "x\n" * 48 + "1\n2\n3\nz", "b": "y\n" * 48 + "1\n2\n3\nz\nw",
                  "script": [], "dflt": False, "grp": "long"})
    cases.append({"kind": "sem", "d": [(DEL, "abc"), (INS, "abcd")], "grp": "sem"})
    cases.append({"kind": "sem", "d": [(DEL, "xabc"), (INS, "abc")], "grp": "sem"})
    n = 1500 if quick else 12000
    for _ in range(n):
        kind = rng.choice(["letters", "words", "repeats", "letters", "unicode"])
        a = rand_text(rng, kind)
        b = mutate(rng, a) if rng.random() < 0.6 else rand_text(rng, kind)
        script, dflt = rand_clock(rng)
        cases.append({"kind": "full", "a": a, "b": b, "script": script, "dflt": dflt, "grp": kind})
    for _ in range(40 if quick else 400):
        a, b = rand_long(rng)
        script, dflt = rand_clock(rng)
        cases.append({"kind": "full", "a": a, "b": b, "script": script, "dflt": dflt, "grp": "long"})
    # small exhaustive under an expired clock (every bisect bails out at once)
    for a in strs:
        for b in strs:
            if len(a) <= 3 and len(b) <= 3:
                cases.append({"kind": "full", "a": a, "b": b, "script": [], "dflt": True, "grp": "exhaustive-timeout"})
    # the open obligation of C16_no_error_partial (bisect_safe), tested on the model: every pair over {a,b}
    bl = 6 if quick else 8
    bstrs = ["".join(p) for k in range(2, bl + 1) for p in itertools.product("ab", repeat=k)]
    for a in bstrs:
        for b in bstrs:
            if a[0] != b[0] and a[-1] != b[-1] and a not in b and b not in a:
                cases.append({"kind": "bis", "a": a, "b": b, "script": [], "dflt": False, "grp": "bisect_safe"})
    for _ in range(300 if quick else 3000):
        kind = rng.choice(["letters", "words", "repeats"])
        a = rand_text(rng, kind)
        b = mutate(rng, a) if rng.random() < 0.6 else rand_text(rng, kind)
        script, dflt = rand_clock(rng)
        cases.append({"kind": "bis", "a": "<" + a + ">", "b": "[" + b + "]", "script": script, "dflt": dflt, "grp": "bisect_safe"})
    for _ in range(600 if quick else 5000):
        cases.append({"kind": "sem", "d": rand_segs(rng), "grp": "sem"})
    for _ in range(600 if quick else 5000):
        cases.append({"kind": "merge", "d": rand_segs(rng), "grp": "merge"})
    for _ in range(1200 if quick else 10000):
        r = rng.random()
        if r < 0.45:      # what the formatter does: diff two placeholder texts, clean up, re-balance
            a = rand_ph_text(rng, True)
            b = mutate_ph(rng, a) if rng.random() < 0.7 else rand_ph_text(rng, True)
            d, s, _ = impl_full(a, b, [], False)
            d = s if isinstance(s, list) else (d if isinstance(d, list) else [])
            grp = "realign-balanced"
        elif r < 0.75:
            a, b = rand_ph_text(rng, False), rand_ph_text(rng, False)
            d, s, _ = impl_full(a, b, [], False)
            d = s if isinstance(s, list) else (d if isinstance(d, list) else [])
            grp = "realign-unbalanced"
        else:             # arbitrary segment lists
            d = [(rng.choice([DEL, INS, EQ]), rand_ph_text(rng, False)) for _ in range(rng.randint(0, 5))]
            grp = "realign-arbitrary"
        cases.append({"kind": "realign", "d": d, "grp": grp})
    return cases, nexh


def mutate_ph(rng, s):
    fm, table, tags, singles = formatter()
    s = list(s)
    for _ in range(rng.randint(1, 3)):
        i = rng.randint(0, len(s))
        k = rng.choice(["del", "ins", "wrap", "txt"])
        if k == "del" and i < len(s):
            del s[i]
        elif k == "ins":
            s[i:i] = [rng.choice(singles + ["a", " "])]
        elif k == "wrap":
            j = min(len(s), i + rng.randint(0, 3))
            o, c = rng.choice([tags["b"], tags["i"]])
            s[j:j] = [c]
            s[i:i] = [o]
        else:
            s[i:i] = list(rng.choice(["a", "aa", " a"]))
    return "".join(s)


def run_impl(c):
    k = c["kind"]
    if k == "full":
        m, s, ticks = impl_full(c["a"], c["b"], c["script"], c["dflt"])
        c["main"], c["sem"], c["ticks"] = m, s, ticks
    elif k == "bis":
        pass      # a test of the model only (the hypothesis of C16_no_error_partial)
    elif k == "sem":
        c["out"] = impl_sem(c["d"])
    elif k == "merge":
        c["out"] = impl_merge(c["d"])
    else:
        c["realigned"], c["joined"] = impl_realign(c["d"])
    return c


def coq_case(c):
    k = c["kind"]
    if k == "full":
        al, sp = classes(c["a"], c["b"])
        es = c["sem"] if c["sem"] is not None else "exc:Unsupported"
        return "CFull %s %s %s %s %s %s %s %s" % (cbools(c["script"]), "T" if c["dflt"] else "F", al, sp,
                                                 cstr(c["a"]), cstr(c["b"]), cexp(c["main"], cseg), cexp(es, cseg))
    if k == "bis":
        return "CBis %s %s %s %s" % (cbools(c["script"]), "T" if c["dflt"] else "F", cstr(c["a"]), cstr(c["b"]))
    if k == "sem":
        al, sp = classes(*[t for _, t in c["d"]])
        return "CSem %s %s %s %s" % (al, sp, cseg(c["d"]), cexp(c["out"], cseg))
    if k == "merge":
        return "CMerge %s %s" % (cseg(c["d"]), cexp(c["out"], cseg))
    ej = c["joined"] if c["joined"] is not None else "exc:Unsupported"
    return "CRealign TBL %s %s %s" % (cseg(c["d"]), cexp(c["realigned"], cseg), cexp(ej, cjseg))


def oracle(c):
    k = c["kind"]
    if k == "full":
        why = oracle_diff(c["a"], c["b"], c["main"], "diff_main")
        if not why and c["sem"] is not None:
            why = oracle_diff(c["a"], c["b"], c["sem"], "diff_main + diff_cleanupSemantic")
        return why
    if k == "bis":
        return None
    if k in ("sem", "merge"):
        # arbitrary lists: the reconstructions must be kept (emptiness is only claimed for diff_main's output)
        o = c["out"]
        if isinstance(o, str):
            return "%s raised %s on %r" % (k, o[4:], c["d"])
        if t1(o) != t1(c["d"]) or t2(o) != t2(c["d"]):
            return "diff_cleanup%s changed a text: %r -> %r" % ("Semantic" if k == "sem" else "Merge", c["d"], o)
        # C16_semantic: never an empty segment; C16_merge: none introduced
        if any(x[1] == "" for x in o) and (k == "sem" or not any(x[1] == "" for x in c["d"])):
            return "diff_cleanup%s left an empty segment: %r -> %r" % ("Semantic" if k == "sem" else "Merge", c["d"], o)
        return None
    return oracle_realign(c["d"], c["realigned"], c["joined"])


def describe(c):
    return {k: v for k, v in c.items()}


def huge_case(nlines, seed):
    la = ["line %d of the first text\n" % i for i in range(nlines)]
    lb = list(la)
    r3 = random.Random(seed + nlines)
    for _ in range(12):
        k = r3.randrange(len(lb))
        lb[k] = "changed %d\n" % k
    lb[0] = "a new first line\n"
    lb[-1] = "a new last line\n"
    return {"kind": "full", "a": "".join(la), "b": "".join(lb), "script": [], "dflt": False, "grp": "huge"}


MY_VOS = ["theories/%s.vo" % f for f in ("DMP", "DMPBase", "DMPCommon", "DMPMerge", "DMPSemantic", "DMPMain",
                                         "DMPRealign", "DMPTotal", "DMPTotalMerge", "DMPTotalSem", "DMPTotalMain")]


def proof_stage(run):
    """lib.proof_stage, but building only the files C16 depends on (so that a file of another property that
    is being edited concurrently cannot break this check); everything else is as in lib.proof_stage."""
    import os
    vos = [v for v in MY_VOS if os.path.exists(os.path.join(lib.COQ, v[:-1]))]
    b = lib.build(targets=vos)
    info = {"build_ok": b.ok}
    if not b.ok:
        info.update({"failed": b.failed_file, "stage": b.stage, "log": b.log[-3000:]})
        return False, info
    hits = [h for h in lib.grep_forbidden() if h.split(":")[0] in [v[:-1] for v in vos] + ["theories/Properties/C16.v"]]
    if hits:
        info.update({"failed": "forbidden-constructs", "log": "\n".join(hits)})
        return False, info
    r = lib.check_property_file("C16")
    info["theorems"] = r["theorems"]
    info["checker_cmd"] = "cd coq && make -j16 " + " ".join(vos) + " && " + r["cmd"]
    if not r["ok"]:
        info.update({"failed": "Properties/C16.v", "log": r["log"]})
        return False, info
    if run.tier == "thorough":
        ok, out = lib.coqchk("C16")
        info["coqchk"] = out[-1500:]
        if not ok:
            info.update({"failed": "coqchk", "log": out})
            return False, info
    return True, info


def main(run):
    rng = random.Random(run.seed)
    ok, pinfo = proof_stage(run)
    run.log("proof stage:", "ok" if ok else "BROKEN %s" % pinfo.get("failed"))
    cases, nexh = gen_cases(run, rng)
    for c in cases:
        run_impl(c)
    run.log("implementation evaluated on %d cases" % len(cases))
    viols = []
    for c in cases:
        why = oracle(c)
        if why:
            rp = describe(c)
            viols.append({"what": why, "replay": rp})
    # VERY many lines (oracle only: the answers are too long for the model): more distinct lines than the line-to-
    # character encoding of diff_linesToChars has "comfortable" code points for (surrogates, > 0xFFFF)
    nhuge = 0
    for nlines in ((64000,) if run.tier == "quick" else (64000, 70000, 120000)):
        c = run_impl(huge_case(nlines, run.seed))
        nhuge += 1
        why = oracle(c)
        if why:
            viols.append({"what": why[:400], "replay": {"kind": "huge", "nlines": nlines, "seed": run.seed}})
    run.coverage["huge_line_texts_judged"] = nhuge
    viols.sort(key=lambda v: len(json.dumps(v["replay"], default=str)))
    bad, log = [], ""
    if pinfo.get("build_ok"):
        pre = PRE + "Definition TBL := %s.\n" % ctable()
        # long inputs are slow in the model: give them small chunks of their own
        order = sorted(range(len(cases)), key=lambda i: 0 if cases[i].get("grp") != "long" else 1)
        nlong = sum(1 for c in cases if c.get("grp") == "long")
        short_idx, long_idx = order[:len(cases) - nlong], order[len(cases) - nlong:]
        ch = max(200, -(-len(short_idx) // (lib.NCPU * 2)))
        b1, l1 = lib.run_cases("C16", pre, [coq_case(cases[i]) for i in short_idx], chunk=ch)
        b2, l2 = lib.run_cases("C16L", pre, [coq_case(cases[i]) for i in long_idx],
                               chunk=max(1, -(-len(long_idx) // lib.NCPU)), timeout=1200)
        bad = sorted([short_idx[i] for i in b1] + [long_idx[i] for i in b2])
        log = l1 + l2
    model_err_impl_ok = 0
    run.log("correspondence: %d cases, %d disagreements; oracle violations on impl: %d" % (len(cases), len(bad), len(viols)))
    groups = {}
    for c in cases:
        groups[c["grp"]] = groups.get(c["grp"], 0) + 1
    corr = []
    for name, kinds in (("diff_main + diff_cleanupSemantic vs XV.DMP.diff_main / diff_cleanupSemantic", ("full",)),
                        ("diff_cleanupSemantic on arbitrary segment lists", ("sem",)),
                        ("diff_cleanupMerge on arbitrary segment lists", ("merge",)),
                        ("_realign_placeholders + _join_delete_insert vs XV.DMP.realign / join_delete_insert", ("realign",)),
                        ("model only: bisect_safe (hypothesis of C16_no_error_partial) on XV.DMP.bisect_core", ("bis",))):
        idx = [i for i, c in enumerate(cases) if c["kind"] in kinds]
        corr.append({"name": name, "cases": len(idx), "bad": [i for i in bad if cases[i]["kind"] in kinds], "log": log,
                     "describe": lambda i: describe(cases[i])})
        log = ""

    def deeper():
        out = []
        r2 = random.Random(run.seed + 1)
        for _ in range(60000):
            kind = r2.choice(["letters", "words", "repeats"])
            a = rand_text(r2, kind)
            b = mutate(r2, a) if r2.random() < 0.6 else rand_text(r2, kind)
            script, dflt = rand_clock(r2)
            c = run_impl({"kind": "full", "a": a, "b": b, "script": script, "dflt": dflt, "grp": kind})
            why = oracle(c)
            if why:
                out.append({"what": why, "replay": describe(c)})
                if len(out) > 20:
                    break
        out.sort(key=lambda v: len(v["replay"]["a"]) + len(v["replay"]["b"]))
        return out

    full = [c for c in cases if c["kind"] == "full"]
    re_cases = [c for c in cases if c["kind"] == "realign"]
    nontrivial = {(c["a"], c["b"], tuple(c["script"]), c["dflt"]) for c in full
                  if c["a"] and c["b"] and c["a"] != c["b"]}
    lens = {}
    for c in full:
        k = min(9, (len(c["a"]) + len(c["b"])) // 10)
        lens["%d-%d" % (k * 10, k * 10 + 9) if k < 9 else "90+"] = lens.get("%d-%d" % (k * 10, k * 10 + 9) if k < 9 else "90+", 0) + 1
    run.coverage.update({
        "evaluations": len(cases),
        "distinct_nontrivial": len(nontrivial) + len({json.dumps(c["d"]) for c in cases if c["kind"] in ("sem", "merge", "realign") and c["d"]}),
        "rule": "every pair of strings over {a,b,space} with lengths <= %d/%d under a clock that never expires [%d, exhaustive] and all pairs "
                "<= 3/3 under an expired clock; seeded random letters/words/repeats/unicode pairs (one a mutation of the other in 60%%) and "
                "texts > 100 characters built from lines (line mode), each under a scripted clock (never / always / expires after k tests / random); "
                "random segment lists (with empty segments and adjacent equalities) for diff_cleanupSemantic and diff_cleanupMerge; "
                "placeholder texts (balanced, mutated, unbalanced, arbitrary) through a real PlaceholderMaker for the re-balancing step; "
                "additionally the open hypothesis bisect_safe of C16_no_error_partial is tested on the model (all admissible pairs over {a,b} of lengths 2..%d, seeded longer ones under scripted clocks). "
                "non-trivial = both strings non-empty and different / segment list non-empty" % ((5, 4, nexh, 6) if run.tier == "quick" else (6, 5, nexh, 8)),
        "exhaustive_small_scope": nexh,
        "input_distribution": {"group->count": groups, "len(a)+len(b)->count (full cases)": lens,
                               "clock tests answered (total)": sum(c.get("ticks", 0) for c in full),
                               "cases with a forced timeout": sum(1 for c in full if c["dflt"] or any(c["script"])),
                               "line-mode cases": groups.get("long", 0),
                               "realign exceptions (impl)": {e: sum(1 for c in re_cases if c["realigned"] == e)
                                                             for e in {c["realigned"] for c in re_cases if isinstance(c["realigned"], str)}},
                               "join exceptions (impl)": sum(1 for c in re_cases if isinstance(c["joined"], str))},
        "samples": [{k: v for k, v in c.items() if k in ("a", "b", "script", "dflt", "main", "sem")}
                    for c in full[nexh:nexh + 3]] + [describe(c) for c in re_cases[:2]],
    })
    run.assumptions = [
        "Python str/list indexing, slicing, find/startswith/endswith, list.insert/del/slice assignment as written out in DMP.v",
        "str.isalnum/isspace are parameters of the model (they only steer the cosmetic scoring); the harness passes the actual classification of the characters in each case",
        "Diff_Timeout = 1.0 and checklines = True as XMLFormatter._make_diff_tags leaves them; the wall clock is an arbitrary oracle (scripted in the harness)",
        "the placeholder table is an arbitrary function code point -> (type, close placeholder); C16_realign assumes the close placeholder of an OPEN entry is registered as CLOSE (PlaceholderMaker.get_placeholder guarantees it)",
        "C16_no_error_partial: diff_main's totality is proved relative to `bisect_safe` (diff_bisect's middle-snake search returns and never reports a corner of the grid as split point); on every run the correspondence reports any input on which the model returns an error (out of fuel / index) while the implementation succeeds",
    ]
    lib.conclude(run, ok, pinfo, corr, viols, deeper)
    # the bisect_safe cases exercise the model only (they test the hypothesis of C16_no_error_partial)
    nbis = sum(1 for c in cases if c["kind"] == "bis")
    run.coverage["traces_validated_against_impl"] -= nbis
    run.coverage["model_only_hypothesis_checks"] = {"bisect_safe": nbis}


def replay(run, path):
    d = json.load(open(path))
    if "kind" not in d:
        print("replay names a broken tie, not an input:", d.get("broken"))
        return 1
    c = {k: v for k, v in d.items()}
    if d.get("kind") == "huge":
        c = huge_case(d["nlines"], d["seed"])
    if "d" in c:
        c["d"] = [tuple(x) for x in c["d"]]
    run_impl(c)
    why = oracle(c)
    print("impl result:", {k: c.get(k) for k in ("main", "sem", "out", "realigned", "joined") if k in c})
    print("->", why or "property holds on this input")
    return 1 if why else 0
