"""C04 -- decided over the differ model and the generated patcher; see harness/differ_props.py and DESIGN.md section 6."""
from harness import differ_props, patcher_corr


def extra(run, rng, pinfo):
    if not pinfo.get("build_ok"):
        return []
    return [patcher_corr.run_corr("C04" + "p", rng, 120 if run.tier == "quick" else 1200)]


def main(run):
    differ_props.main(run, "C04", extra_corr=extra)


def replay(run, path):
    return differ_props.replay(run, path, "C04")
