"""C14 -- ignorable white space is ignored exactly when tag-whitespace normalisation is on.

Model: coq/theories/Whitespace.v (documents as item trees, libxml2's blank-text rule, re-indentation,
layered documents) and the whitespace switch of coq/theories/Cli.v interpreted over the generated
tables Gen/Flags.v, Gen/CliPlumbing.v.  Theorems: coq/theories/Properties/C14.v.

Correspondence (every case is evaluated by the Gallina model with vm_compute):
  * strip_item      vs  lxml with etree.XMLParser(remove_blank_text=True), on generated documents
                        (layered ones, their re-indentations, and arbitrary mixed content);
  * reindent_item   vs  the harness's own re-indenter (on lxml trees), parsed without stripping;
  * layered         vs  the harness's predicate;
  * strip(cleanup_whitespace(s))  vs  utils.cleanup_whitespace(s).strip();
  * remove_blank    vs  the remove_blank_text keyword main._diff really passes to etree.XMLParser for
                        every formatter kind x normalize argument, and for the command line (-w or not,
                        every -f), observed by wrapping main.etree.XMLParser.
Oracle on the implementation (what the property states), through main.diff_texts, main.diff_files and
main.diff_command: empty script / markup-free xml output exactly when the property says so; with
normalisation off the script is non-empty, consists of text updates only and round-trips through
main.patch_text.
"""
import contextlib, io, json, os, random, shutil, tempfile
from harness import lib
from harness.lib import coq_str, coq_list

DIFF_NS = "http://namespaces.shoobx.com/diff"

# ----------------------------------------------------------------------------
# documents as item trees: ('T', s) | ('C', s) | ('E', tag, [(k, v)], [items])

BL = ' \t\n\r'


def blank(s):
    return all(c in BL for c in s)


def esc(s):
    return s.replace('&', '&amp;').replace('<', '&lt;').replace('>', '&gt;')


def ser(x):
    if x[0] == 'T':
        return esc(x[1])
    if x[0] == 'C':
        return '<!--%s-->' % x[1]
    at = ''.join(' %s="%s"' % (k, esc(v).replace('"', '&quot;')) for k, v in x[2])
    if not x[3]:
        return '<%s%s/>' % (x[1], at)
    return '<%s%s>%s</%s>' % (x[1], at, ''.join(ser(y) for y in x[3]), x[1])


def of_lxml(e):
    from lxml import etree
    if e.tag is etree.Comment:
        return ('C', e.text or '')
    c = []
    if e.text:
        c.append(('T', e.text))
    for ch in e:
        c.append(of_lxml(ch))
        if ch.tail:
            c.append(('T', ch.tail))
    return ('E', e.tag, sorted(e.attrib.items()), c)


def norm_attrs(x):
    if x[0] != 'E':
        return x
    return ('E', x[1], sorted(x[2]), [norm_attrs(y) for y in x[3]])


def coq_item(x):
    if x[0] == 'T':
        return "IText %s" % coq_str(x[1])
    if x[0] == 'C':
        return "IComment %s" % coq_str(x[1])
    return "IElem %s %s %s" % (coq_str(x[1]), coq_list(["(%s, %s)" % (coq_str(k), coq_str(v)) for k, v in sorted(x[2])]),
                               coq_list(["(%s)" % coq_item(y) for y in x[3]]))


def is_layered(x):
    if x[0] != 'E':
        return True
    c = x[3]
    if any(y[0] != 'T' for y in c):
        ok = all(y[0] != 'T' or blank(y[1]) for y in c) and not any(a[0] == 'T' and b[0] == 'T' for a, b in zip(c, c[1:]))
    else:
        ok = len(c) <= 1
    return ok and all(is_layered(y) for y in c)


def has_structure(x):
    return x[0] == 'E' and any(y[0] != 'T' for y in x[3])


WORDS = ['x', 'hello world', ' lead', 'trail ', 'a  b', ' ', '\n', 'é€', 'q&r', '<lt', '\t', 'x\ny']


def gen_compact(rng, depth=0, maxdepth=3):
    """a layered document without ignorable white space"""
    tag = rng.choice(['a', 'b', 'c', 'doc', 'p'])
    attrs = [(k, rng.choice(['1', 'v w', ''])) for k in rng.sample(['i', 'j', 'k'], rng.choice([0, 0, 1, 2]))]
    r = rng.random()
    if depth < maxdepth and r < (0.9 if depth == 0 else 0.45):
        kids = []
        for _ in range(rng.randint(1, 4)):
            if rng.random() < 0.15:
                kids.append(('C', rng.choice(['c', ' note ', ''])))
            else:
                kids.append(gen_compact(rng, depth + 1, maxdepth))
        return ('E', tag, attrs, kids)
    if r < 0.8:
        return ('E', tag, attrs, [('T', rng.choice(WORDS))])
    return ('E', tag, attrs, [])


def gen_mixed(rng, depth=0):
    """arbitrary content (runs maximal and non-empty), to validate the blank-text rule broadly"""
    tag = rng.choice(['a', 'b'])
    c = []
    for _ in range(rng.choice([0, 1, 1, 2, 3, 4, 5])):
        k = rng.random()
        if k < .45 and not (c and c[-1][0] == 'T'):
            c.append(('T', ''.join(rng.choice([' ', '\n', '\t', ' ', 'x', '\n', ' ']) for _ in range(rng.randint(1, 3)))))
        elif k < .55:
            c.append(('C', 'c'))
        elif depth < 3:
            c.append(gen_mixed(rng, depth + 1))
    return ('E', tag, [], c)


SCHEMES = [(False, 0), (False, 1), (False, 2), (False, 4), (True, 1), (True, 2)]


def indent_str(s, d):
    return '\n' + ('\t' if s[0] else ' ') * (s[1] * d)


def reindent_lxml(root, s):
    """the harness's re-indenter: works on an lxml tree parsed WITHOUT stripping; every element that has
    child nodes gets text/tails replaced by newline + indentation (existing runs there are blank by layeredness)"""
    def go(e, d):
        from lxml import etree
        kids = list(e)
        if e.tag is etree.Comment or not kids:
            return
        e.text = indent_str(s, d + 1)
        for k in kids:
            k.tail = indent_str(s, d + 1)
            go(k, d + 1)
        kids[-1].tail = indent_str(s, d)
    go(root, 0)
    return root


def parse_plain(text):
    from lxml import etree
    return etree.fromstring(text, etree.XMLParser(remove_blank_text=False))


def parse_strip(text):
    from lxml import etree
    return etree.fromstring(text, etree.XMLParser(remove_blank_text=True))


# ----------------------------------------------------------------------------
# Gallina side

PRE = """From Coq Require Import List NArith ZArith Bool. Import ListNotations.
Require Import XV.Str XV.Cli XV.Whitespace XV.Gen.Flags XV.Gen.CliPlumbing.
Inductive case :=
| CStrip (x e : item) | CReindent (tabs : bool) (w : nat) (x e : item) | CLayered (x : item) (e : bool)
| CCleanup (s e : str) | CSwitch (k : fkind) (n : option N) (e : bool)
| CCli (keep : bool) (key : str) (norm : N) (e : bool) | CTextFlag (n : N) (e : bool).
Definition obool_eqb (a : option bool) (b : bool) := match a with Some x => Bool.eqb x b | None => false end.
Definition check (c : case) : bool := match c with
| CStrip x e => item_eqb (strip_blank x) e
| CReindent t w x e => item_eqb (reindent {| sc_tabs := t; sc_width := w |} x) e
| CLayered x e => Bool.eqb (layered x) e
| CCleanup s e => match ws_text_normal flags (Some s) with Some r => str_eqb r e | None => false end
| CSwitch k n e => obool_eqb (remove_blank flags k n) e
| CCli keep key norm e =>
    match ws_value flags (if keep then dcm_norm_then (ct_diff_cmd cli) else dcm_norm_else (ct_diff_cmd cli)),
          assoc key (ft_formatters flags) with
    | Some n, Some cls => N.eqb n norm && obool_eqb (remove_blank_class flags (Some cls) (Some n)) e
    | _, _ => false
    end
| CTextFlag n e => obool_eqb (ws_text_on flags n) e
end.
"""

FK = {None: "FNone", "DiffFormatter": "FDiff", "XmlDiffFormatter": "FOld", "XMLFormatter": "FXml"}
NORMS = ['default', 0, 1, 2, 3]


def make_formatter(kind, n):
    from xmldiff import formatting
    if kind is None:
        return None
    cls = getattr(formatting, kind)
    return cls() if n == 'default' else cls(normalize=n)


@contextlib.contextmanager
def recording_parser():
    """wrap main.etree.XMLParser to see which remove_blank_text main._diff asks for"""
    from xmldiff import main
    real = main.etree
    seen = []

    class Proxy:
        def __getattr__(self, name):
            return getattr(real, name)

        def XMLParser(self, *a, **kw):
            seen.append(dict(kw, _nargs=len(a)))
            return real.XMLParser(*a, **kw)
    main.etree = Proxy()
    try:
        yield seen
    finally:
        main.etree = real


def observe_switch(kind, n):
    from xmldiff import main
    with recording_parser() as seen:
        main.diff_texts('<a/>', '<a/>', formatter=make_formatter(kind, n))
    if len(seen) != 1 or set(seen[0]) != {'remove_blank_text', '_nargs'} or seen[0]['_nargs']:
        return None
    return bool(seen[0]['remove_blank_text'])


def run_cli(argv):
    """main.diff_command(argv) in process -> (stdout, status or 'exit:N' or 'exc:..')"""
    from xmldiff import main
    out, err = io.StringIO(), io.StringIO()
    with contextlib.redirect_stdout(out), contextlib.redirect_stderr(err):
        try:
            st = main.diff_command(argv)
        except SystemExit as ex:
            st = "exit:%s" % ex.code
        except Exception as ex:  # noqa
            st = "exc:%r" % ex
    return out.getvalue(), st


def observe_cli_switch(keep, key, f1, f2):
    from xmldiff import main
    captured = []
    real = main.diff_files

    def spy(*a, **kw):
        captured.append(kw.get('formatter'))
        return real(*a, **kw)
    main.diff_files = spy
    try:
        with recording_parser() as seen:
            run_cli((['-w'] if keep else []) + ['-f', key, f1, f2])
    finally:
        main.diff_files = real
    if len(seen) != 1 or len(captured) != 1:
        return None
    return int(getattr(captured[0], "normalize", -1)), bool(seen[0].get("remove_blank_text"))


# ----------------------------------------------------------------------------
# the oracle

def markup_free(xml_text):
    from lxml import etree
    if 'diff:' in xml_text or DIFF_NS in xml_text:
        return False
    t = etree.fromstring(xml_text)
    for e in t.iter():
        if isinstance(e.tag, str) and e.tag.startswith('{%s}' % DIFF_NS):
            return False
        if any(k.startswith('{%s}' % DIFF_NS) for k in e.attrib):
            return False
    return True


def effective(kind, n):
    if kind is None:
        return 1
    if n != 'default':
        return n
    return 0 if kind == 'XMLFormatter' else 1


def oracle(l, r, kind, n, via, tmp=None):
    """l: a layered document, r: a re-indentation of it (XML text).  Returns None or a description of
    how the implementation departs from the property."""
    from xmldiff import main, formatting, actions
    from harness import gen
    eff = effective(kind, n)
    strip = kind is None or bool(eff & 1)
    differs = gen.canon(parse_plain(l)) != gen.canon(parse_plain(r))
    try:
        if via == 'texts':
            res = main.diff_texts(l, r, formatter=make_formatter(kind, n))
        elif via == 'files':
            a, b = os.path.join(tmp, 'l.xml'), os.path.join(tmp, 'r.xml')
            open(a, 'w', encoding='utf8').write(l)
            open(b, 'w', encoding='utf8').write(r)
            res = main.diff_files(a, b, formatter=make_formatter(kind, n))
        elif via in ('streams', 'textstreams', 'bytes'):
            # open binary streams, text-mode streams (already decoded), byte strings
            if via == 'bytes':
                res = main.diff_texts(l.encode('utf8'), r.encode('utf8'), formatter=make_formatter(kind, n))
            else:
                mk = (lambda x: io.BytesIO(x.encode('utf8'))) if via == 'streams' else io.StringIO
                res = main.diff_files(mk(l), mk(r), formatter=make_formatter(kind, n))
        elif via == 'cli':
            # only the normalize values the CLI can produce: -w (0) or not (3)
            a, b = os.path.join(tmp, 'l.xml'), os.path.join(tmp, 'r.xml')
            open(a, 'w', encoding='utf8').write(l)
            open(b, 'w', encoding='utf8').write(r)
            key = {'DiffFormatter': 'diff', 'XmlDiffFormatter': 'old', 'XMLFormatter': 'xml'}[kind]
            out, st = run_cli((['-w'] if n == 0 else []) + ['-f', key, a, b])
            if st is not None or not out.endswith('\n'):
                return "diff_command: status %r, output %r" % (st, out[:80])
            res = out[:-1]
        else:
            raise ValueError(via)
    except Exception as ex:  # noqa
        return "raised %r" % ex
    if kind is None:
        if res != []:
            return "no formatter (blank text stripped) but the script is %r" % (res[:3],)
        return None
    if kind == 'XMLFormatter':
        free = markup_free(res)
        if eff & 3:
            if not free:
                return "normalize=%s: the xml output has diff markup: %r" % (eff, res[:200])
        elif differs and free:
            return "normalize=WS_NONE and the documents differ in white space, yet the xml output shows no change"
        return None
    # diff / old: text scripts
    if strip:
        if res != '':
            return "normalize=%s includes WS_TAGS but the script is not empty: %r" % (eff, res[:200])
        return None
    if not differs:
        return None if res == '' else "identical documents, script %r" % res[:100]
    if res == '':
        return "normalize=%s (no WS_TAGS), documents differ in white space, script is empty" % eff
    lines = res.split('\n')
    if kind == 'DiffFormatter':
        if not all(x.startswith('[update-text, ') or x.startswith('[update-text-after, ') for x in lines):
            return "script has non-text actions: %r" % [x for x in lines if not x.startswith('[update-text')][:3]
        try:
            back = main.patch_text(res, l)
        except Exception as ex:  # noqa
            return "patch_text raised %r on the script" % ex
        if gen.canon(parse_plain(back)) != gen.canon(parse_plain(r)):
            return "the script does not round-trip: patch_text gives %r" % back[:200]
    else:
        if not all(x.startswith('[update, ') and '/text()[' in x for x in lines):
            return "old-format script has non-text actions: %r" % lines[:3]
    return None


XML_VARIANTS = [("use_replace", {"use_replace": True}), ("use_replace+text_tags", {"use_replace": True, "text_tags": "leaf"}),
                ("text_tags", {"text_tags": "leaf"})]


def leaf_only_tags(text):
    """tags that occur only on elements without child nodes (safe to declare as text tags in a layered document:
    no ignorable white space ever sits inside such an element)"""
    root = parse_plain(text)
    leaf, inner = set(), set()
    for e in root.iter():
        if isinstance(e.tag, str):
            (inner if len(e) else leaf).add(e.tag)
    return tuple(sorted(leaf - inner))


def oracle_xml_variants(l, r, n, name, cfg):
    """XMLFormatter(normalize=n, use_replace=True / text_tags=..): the run completes, and the output is markup-free
    whenever n includes WS_TAGS or WS_TEXT"""
    from xmldiff import main, formatting
    kw = dict(cfg)
    if kw.get("text_tags") == "leaf":
        kw["text_tags"] = leaf_only_tags(l)
        if not kw["text_tags"]:
            return None
    try:
        res = main.diff_texts(l, r, formatter=formatting.XMLFormatter(normalize=n, **kw))
    except Exception as ex:  # noqa
        return "XMLFormatter(normalize=%s, %s) raised %r" % (n, ", ".join("%s=%r" % x for x in kw.items()), ex)
    if n & 3 and not markup_free(res):
        return "XMLFormatter(normalize=%s, %s): the output has diff markup: %r" % (n, ", ".join("%s=%r" % x for x in kw.items()), res[:200])
    # and the converse: with normalisation OFF a re-indentation that changes white space is shown, whatever else is configured
    from harness import gen
    if n == 0 and markup_free(res) and gen.canon(parse_plain(l)) != gen.canon(parse_plain(r)):
        return "XMLFormatter(normalize=WS_NONE, %s): the documents differ in white space, yet the output shows no change" % (
            ", ".join("%s=%r" % x for x in kw.items()))
    return None


def oracle_cli_check(l, r, key, keep, tmp, extra=()):
    """--check on a document and its re-indentation: status 1 exactly with -w (and a real white space difference)"""
    from harness import gen
    a, b = os.path.join(tmp, 'l.xml'), os.path.join(tmp, 'r.xml')
    open(a, 'w', encoding='utf8').write(l)
    open(b, 'w', encoding='utf8').write(r)
    out, st = run_cli(['--check'] + list(extra) + (['--keep-whitespace'] if keep else []) + ['--formatter', key, a, b])
    differs = gen.canon(parse_plain(l)) != gen.canon(parse_plain(r))
    want = 1 if (keep and differs) else None
    if st != want:
        return "--check%s%s --formatter %s on a re-indented document returned %r, expected %r (white space %s)" % (
            "".join(" " + x for x in extra), " --keep-whitespace" if keep else "", key, st, want, "kept: the documents differ" if want else "ignored")
    if key == 'xml' and (want is None) != markup_free(out):
        return "--check --formatter xml: status %r but the printed document %s diff markup" % (st, "has no" if want else "has")
    return None


def oracle_actions(l, r):
    """with normalisation off, on parsed trees: text actions only, and patch_tree round-trips"""
    from xmldiff import main, actions
    from harness import gen
    L, R = parse_plain(l), parse_plain(r)
    try:
        # whatever the matching options: a re-indentation changes white-space-only texts and tails, nothing else
        for o in ({"F": 0.9}, {"F": 1.0, "fast_match": True}, {"F": 0.75, "best_match": True}, {"ratio_mode": "accurate", "F": 0.95}):
            acts_o = main.diff_trees(parse_plain(l), parse_plain(r), diff_options=dict(o))
            bad = [a for a in acts_o if not isinstance(a, (actions.UpdateTextIn, actions.UpdateTextAfter))]
            if bad:
                return "diff_trees(diff_options=%r) on unstripped trees: non-text actions %r" % (o, bad[:3])
        acts = main.diff_trees(L, R)
        bad = [a for a in acts if not isinstance(a, (actions.UpdateTextIn, actions.UpdateTextAfter))]
        if bad:
            return "diff_trees on unstripped trees: non-text actions %r" % bad[:3]
        if gen.canon(L) != gen.canon(R) and not acts:
            return "diff_trees on unstripped trees that differ: empty script"
        out = main.patch_tree(acts, parse_plain(l))
        if gen.canon(out) != gen.canon(R):
            return "patch_tree does not reproduce the re-indented tree"
    except Exception as ex:  # noqa
        return "raised %r" % ex
    return None


# ----------------------------------------------------------------------------

def main(run):
    from xmldiff import utils
    rng = random.Random(run.seed)
    ok, pinfo = lib.proof_stage(run, "C14")
    run.log("proof stage:", "ok" if ok else "BROKEN %s" % pinfo.get("failed"))
    quick = run.tier == "quick"
    cases, descr, viols, kinds = [], [], [], {}

    def add(kind, term, d):
        cases.append(term); descr.append(d); kinds[kind] = kinds.get(kind, 0) + 1

    tmp = tempfile.mkdtemp(prefix="c14-")
    try:
        # -- the switch -------------------------------------------------------------
        nswitch_bad = 0
        for kind in FK:
            for n in NORMS:
                rb = observe_switch(kind, n)
                if rb is None:
                    nswitch_bad += 1
                    viols.append({"what": "main._diff does not create exactly one XMLParser(remove_blank_text=..)",
                                  "replay": {"kind": "switch", "formatter": kind, "normalize": n}})
                    continue
                nn = "None" if n == 'default' else "(Some %d%%N)" % n
                add("switch", "CSwitch %s %s %s" % (FK[kind], nn, "true" if rb else "false"), ("switch", kind, n, rb))
                want = kind is None or bool(effective(kind, n) & 1)
                if rb != want:
                    viols.append({"what": "remove_blank_text=%s for formatter %s normalize=%s; the property says %s" % (rb, kind, n, want),
                                  "replay": {"kind": "switch", "formatter": kind, "normalize": n}})
        a, b = os.path.join(tmp, 'a.xml'), os.path.join(tmp, 'b.xml')
        open(a, 'w').write('<a/>'); open(b, 'w').write('<a/>')
        for keep in (False, True):
            for key in ('diff', 'xml', 'old'):
                o = observe_cli_switch(keep, key, a, b)
                if o is None:
                    viols.append({"what": "diff_command does not make one diff_files call with one parser",
                                  "replay": {"kind": "cli-switch", "keep": keep, "key": key}})
                    continue
                add("cli-switch", "CCli %s %s %d%%N %s" % ("true" if keep else "false", coq_str(key), o[0], "true" if o[1] else "false"),
                    ("cli", keep, key, o))
                if o[1] != (not keep):
                    viols.append({"what": "-w=%s -f %s: remove_blank_text=%s" % (keep, key, o[1]),
                                  "replay": {"kind": "cli-switch", "keep": keep, "key": key}})
        from xmldiff import formatting
        for n in range(4):
            add("text-flag", "CTextFlag %d%%N %s" % (n, "true" if bool(n & formatting.WS_TEXT) else "false"), ("textflag", n))

        # -- documents ----------------------------------------------------------------
        ndocs = 60 if quick else 500
        docs = []
        for i in range(ndocs):
            t0 = gen_compact(rng, 0, rng.choice([1, 2, 3, 3]))
            docs.append(t0)
        fixed = [('E', 'r', [], []), ('E', 'r', [], [('T', ' ')]), ('E', 'r', [], [('E', 'a', [], [])]),
                 ('E', 'r', [], [('C', 'c')]), ('E', 'r', [], [('E', 'a', [], [('T', '\n')]), ('C', ''), ('E', 'b', [], [])])]
        docs = fixed + docs
        pairs = []   # (original text, re-indented text, scheme)
        for t0 in docs:
            s1 = rng.choice(SCHEMES + [None, None])
            l = ser(t0)
            if s1 is not None:
                from lxml import etree
                l = etree.tostring(reindent_lxml(parse_plain(l), s1), encoding='unicode')
            for s2 in rng.sample(SCHEMES, 2 if quick else 3):
                from lxml import etree
                r = etree.tostring(reindent_lxml(parse_plain(l), s2), encoding='unicode')
                pairs.append((l, r, s2))
        # correspondence on documents
        for l, r, s2 in pairs:
            xl = of_lxml(parse_plain(l))
            xr = of_lxml(parse_plain(r))
            add("reindent", "CReindent %s %d (%s) (%s)" % ("true" if s2[0] else "false", s2[1], coq_item(xl), coq_item(xr)),
                ("reindent", l, s2))
            for txt, x in ((l, xl), (r, xr)):
                add("strip", "CStrip (%s) (%s)" % (coq_item(x), coq_item(of_lxml(parse_strip(txt)))), ("strip", txt))
            add("layered", "CLayered (%s) %s" % (coq_item(xl), "true" if is_layered(xl) else "false"), ("layered", l))
            if not is_layered(xl):
                viols.append({"what": "harness generated a non-layered document", "replay": {"kind": "internal", "doc": l}})
        nmixed = 1500 if quick else 20000
        for _ in range(nmixed):
            x = gen_mixed(rng)
            txt = ser(x)
            add("strip", "CStrip (%s) (%s)" % (coq_item(x), coq_item(of_lxml(parse_strip(txt)))), ("strip", txt))
            if rng.random() < 0.2:
                add("layered", "CLayered (%s) %s" % (coq_item(x), "true" if is_layered(x) else "false"), ("layered", txt))
        for s in [''.join(rng.choice([' ', '\n', '\t', '\r', 'x', ' ', '\x0b', 'é']) for _ in range(rng.randint(0, 6)))
                  for _ in range(300 if quick else 3000)] + ['', ' ', '\n  ', '\n\t\t', ' a  b ', '\xa0', ' ']:
            add("cleanup", "CCleanup %s %s" % (coq_str(s), coq_str(utils.cleanup_whitespace(s or "").strip())), ("cleanup", s))

        # -- the oracle on the implementation --------------------------------------------
        combos = [(None, 'default')] + [(k, n) for k in ('DiffFormatter', 'XmlDiffFormatter', 'XMLFormatter') for n in NORMS]
        nor, nfiles, ncli, nact, nvar = 0, 0, 0, 0, 0
        for i, (l, r, s2) in enumerate(pairs):
            for kind, n in combos:
                w = oracle(l, r, kind, n, 'texts')
                nor += 1
                if w:
                    viols.append({"what": "diff_texts: " + w, "replay": {"kind": "oracle", "via": "texts", "left": l, "right": r,
                                                                        "formatter": kind, "normalize": n}})
            if i % (4 if quick else 2) == 0:
                for kind, n in rng.sample(combos, 4):
                    for via in ('files', rng.choice(('streams', 'textstreams', 'bytes'))):
                        w = oracle(l, r, kind, n, via, tmp)
                        nfiles += 1
                        if w:
                            viols.append({"what": "%s: %s" % (via, w), "replay": {"kind": "oracle", "via": via, "left": l, "right": r,
                                                                                 "formatter": kind, "normalize": n}})
                for kind in ('DiffFormatter', 'XmlDiffFormatter', 'XMLFormatter'):
                    for n in (0, 3):
                        w = oracle(l, r, kind, n, 'cli', tmp)
                        ncli += 1
                        if w:
                            viols.append({"what": "diff_command: " + w, "replay": {"kind": "oracle", "via": "cli", "left": l, "right": r,
                                                                                  "formatter": kind, "normalize": n}})
            for n in (0, 1, 2, 3):
                for name, cfg in XML_VARIANTS:
                    w = oracle_xml_variants(l, r, n, name, cfg)
                    nvar += 1
                    if w:
                        viols.append({"what": "diff_texts: " + w, "replay": {"kind": "xml-variant", "left": l, "right": r, "normalize": n,
                                                                            "variant": name}})
            if i % (4 if quick else 2) == 0:
                for key in ('diff', 'xml', 'old'):
                    for keep in (False, True):
                        # the white space switch does not depend on the other options: every third time with
                        # --pretty-print / -F / --fast-match as well
                        extra = [(), ("--pretty-print",), ("-F", "0.6", "--fast-match")][(ncli // 6) % 3]
                        w = oracle_cli_check(l, r, key, keep, tmp, extra)
                        ncli += 1
                        if w:
                            viols.append({"what": "diff_command: " + w, "replay": {"kind": "cli-check", "left": l, "right": r, "key": key,
                                                                                  "keep": keep, "extra": list(extra)}})
            w = oracle_actions(l, r)
            nact += 1
            if w:
                viols.append({"what": w, "replay": {"kind": "actions", "left": l, "right": r}})
    finally:
        shutil.rmtree(tmp, ignore_errors=True)

    viols.sort(key=lambda v: len(json.dumps(v["replay"])))
    bad, log = ([], "")
    if pinfo.get("build_ok"):
        bad, log = lib.run_cases("C14", PRE, cases, chunk=600)
    run.log("correspondence: %d cases %s, %d disagreements; oracle: %d diff_texts, %d XMLFormatter variants (use_replace/text_tags), %d diff_files, %d diff_command, %d tree-level; %d violations"
            % (len(cases), kinds, len(bad), nor, nvar, nfiles, ncli, nact, len(viols)))
    for i in bad[:5]:
        run.log("  disagreement:", repr(descr[i])[:300])
    corr = [{"name": "lxml remove_blank_text / re-indentation / cleanup_whitespace().strip() / the XMLParser flag of main._diff "
                     "vs XV.Whitespace + XV.Cli over Gen.Flags, Gen.CliPlumbing", "cases": len(cases), "bad": bad, "log": log,
             "describe": lambda i: {"case": descr[i]}}]

    def deeper():
        out = []
        r2 = random.Random(run.seed + 14)
        for _ in range(3000):
            t0 = gen_compact(r2, 0, 3)
            from lxml import etree
            l = ser(t0)
            r = etree.tostring(reindent_lxml(parse_plain(l), r2.choice(SCHEMES)), encoding='unicode')
            for kind, n in combos:
                w = oracle(l, r, kind, n, 'texts')
                if w:
                    out.append({"what": w, "replay": {"kind": "oracle", "via": "texts", "left": l, "right": r, "formatter": kind, "normalize": n}})
            if len(out) > 10:
                break
        out.sort(key=lambda v: len(json.dumps(v["replay"])))
        return out

    sizes = {}
    for l, _, _ in pairs:
        k = l.count('<') // 2
        sizes[k] = sizes.get(k, 0) + 1
    run.coverage.update({
        "evaluations": len(cases) + nor + nvar + nfiles + ncli + nact,
        "distinct_nontrivial": len({p[0] + "\0" + p[1] for p in pairs if p[0] != p[1]}) + len(set(cases)),
        "rule": "seeded layered documents (depth <= 3, 1-4 children, comments, attributes, text from a list with blank/leading/trailing "
                "white space), compact or indented with one scheme, re-indented with 2-3 of the schemes %s; every (formatter kind x "
                "normalize) combination [16] per pair through diff_texts, a quarter through diff_files and diff_command (temp files); "
                "blank-text rule additionally on seeded arbitrary mixed-content documents; non-trivial = the two texts differ" % (SCHEMES,),
        "input_distribution": {"cases": kinds, "markup-count/2 -> documents": dict(sorted(sizes.items())[:15])},
        "oracle": {"diff_texts": nor, "xml_formatter_variants": nvar, "diff_files": nfiles, "diff_command": ncli, "tree_level": nact},
        "samples": [{"left": p[0], "right": p[1]} for p in pairs[5:8]],
    })
    run.assumptions = [
        "libxml2's XML_PARSE_NOBLANKS heuristic (areBlanks) as modelled in Whitespace.v: validated against lxml on every run, not verified",
        "documents without DTD, xml:space, CDATA sections, entity/character references inside white space runs",
        "the Differ is not re-proved here: 'equal stripped documents => empty script' is C03, 'diff_main(s, s) has no edit' is C16",
        "translator/xl_main.py reads main.py/formatting.py correctly (its tables are executed against the implementation on every run)"]
    run.level = "partial proof"
    run.notes.append("partial: (1) the libxml2 blank-text rule is a validated model, not verified code; (2) 'with WS_NONE the script consists of "
                     "text updates only and round-trips' is established by the oracle on the implementation (diff_texts/diff_trees/patch_text), "
                     "not by a theorem about the Differ (DESIGN's C14_only_text_actions is not proved); (3) 'equal stripped documents => empty "
                     "script' is C03's theorem and 'diff_main(s, s) has no edit' is C16's -- referenced, not re-proved")
    lib.conclude(run, ok, pinfo, corr, viols, deeper)


def replay(run, path):
    d = json.load(open(path))
    k = d.get("kind")
    if k == "oracle":
        tmp = tempfile.mkdtemp(prefix="c14-")
        try:
            n = d["normalize"]
            w = oracle(d["left"], d["right"], d["formatter"], n, d["via"], tmp)
        finally:
            shutil.rmtree(tmp, ignore_errors=True)
        print(w or "property holds on this input")
        return 1 if w else 0
    if k == "xml-variant":
        w = oracle_xml_variants(d["left"], d["right"], d["normalize"], d["variant"], dict(XML_VARIANTS)[d["variant"]])
        print(w or "property holds on this input")
        return 1 if w else 0
    if k == "cli-check":
        tmp = tempfile.mkdtemp(prefix="c14-")
        try:
            w = oracle_cli_check(d["left"], d["right"], d["key"], d["keep"], tmp, tuple(d.get("extra", ())))
        finally:
            shutil.rmtree(tmp, ignore_errors=True)
        print(w or "property holds on this input")
        return 1 if w else 0
    if k == "actions":
        w = oracle_actions(d["left"], d["right"])
        print(w or "property holds on this input")
        return 1 if w else 0
    if k == "switch":
        rb = observe_switch(d["formatter"], d["normalize"])
        want = d["formatter"] is None or bool(effective(d["formatter"], d["normalize"]) & 1)
        print("remove_blank_text =", rb, "; the property says", want)
        return 0 if rb == want else 1
    if k == "cli-switch":
        tmp = tempfile.mkdtemp(prefix="c14-")
        try:
            a, b = os.path.join(tmp, 'a.xml'), os.path.join(tmp, 'b.xml')
            open(a, 'w').write('<a/>'); open(b, 'w').write('<a/>')
            o = observe_cli_switch(d["keep"], d["key"], a, b)
        finally:
            shutil.rmtree(tmp, ignore_errors=True)
        print("(normalize, remove_blank_text) =", o)
        return 0 if o is not None and o[1] == (not d["keep"]) else 1
    print("replay names a broken tie, not an input:", d.get("broken"))
    return 1
