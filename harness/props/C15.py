"""C15 -- command line and API entry points agree, and --check reports differences.

Model: coq/theories/Cli.v (argparse fragment, diff_command / patch_command, the list parsers,
validate_F) interpreted over the generated tables Gen/CliPlumbing.v, Gen/Flags.v.
Theorems: coq/theories/Properties/C15.v.

Correspondence (every case is evaluated by the Gallina model with vm_compute):
  * parse_args                 vs  make_diff_parser()/make_patch_parser().parse_args(argv): Namespace or exit status;
  * diff_command_plan / _run   vs  main.diff_command(argv) run in process with main.diff_files, main.FORMATTERS and
                                   main.formatting.DiffFormatter wrapped so that every call (files, diff_options,
                                   formatter class and the keyword arguments it was constructed with) and every result
                                   is recorded: the model must predict exactly those calls, and from their results the
                                   printed text and the exit status;
  * patch_command_plan         vs  main.patch_command(argv) with main.patch_file wrapped;
  * validate_F, _parse_uniqueattrs, _parse_ignored_attrs  vs  the functions of main.py.
Oracle on the implementation (what the property states):
  * the command prints exactly what main.diff_files returns when called afresh with the recorded options;
  * file names, open binary streams, bytes, str and parsed trees give identical results;
  * --check: status 1 iff the documents differ (canonical trees, modulo ignored attributes, after the white space
    treatment selected by -w), nothing otherwise, for all three formatters;
  * patch_command == patch_file (names, streams, --diff-encoding) == patch_text;
  * a handful of commands are run as real subprocesses and compared with the in-process run.
"""
import contextlib, io, itertools, json, os, random, shutil, subprocess, sys, tempfile
from decimal import Decimal
from harness import lib, gen
from harness.lib import coq_str, coq_list

# ----------------------------------------------------------------------------
# Gallina side

PRE = """From Coq Require Import List NArith ZArith Bool. Import ListNotations.
Require Import XV.Str XV.Cli XV.Gen.Flags XV.Gen.CliPlumbing.
Inductive pres := RUsage | RExit0 | RArgs (ns : list (str * argval)).
Inductive vres := VOk (lit : str) | VRejected (msg : str) | VNotFloat.
Inductive case :=
| CParse (patch : bool) (argv : list str) (e : pres)
| CRun (argv : list str) (calls : list (df_call * str)) (out : str) (status : option Z)
| CExit (argv : list str) (status : Z)
| CCall1 (argv : list str) (c : df_call)
| CPatchRun (argv : list str) (callee : str) (args : list argval)
| CValidate (s : str) (e : vres)
| CUniq (v : option str) (e : list uattr)
| CIgn (v : option str) (e : list str).

(* decimal literals denote the same number *)
Definition dec_val (s : str) : option (Z * nat) :=
  match parse_decimal s with
  | Some (neg, ip, fp) => let m := Z.of_N (digits_N (ip ++ fp)) in Some (if neg then (- m)%Z else m, length fp)
  | None => None
  end.
Definition dec_eq (a b : str) : bool :=
  match dec_val a, dec_val b with
  | Some (x, p), Some (y, q) => Z.eqb (x * 10 ^ Z.of_nat q) (y * 10 ^ Z.of_nat p)
  | _, _ => false
  end.
Definition av_match (m i : argval) : bool :=
  match m, i with AVFloat a, AVFloat b => dec_eq a b | _, _ => argval_eqb m i end.
Definition assoc_match {A} (f : A -> A -> bool) (m i : list (str * A)) : bool :=
  Nat.eqb (length m) (length i)
  && forallb (fun p : str * A => match assoc (fst p) m with Some v => f v (snd p) | None => false end) i.
Definition optval_match (m i : optval) : bool :=
  match m, i with
  | OVal a, OVal b => av_match a b
  | OUniq a, OUniq b => leqb uattr_eqb a b
  | OIgn a, OIgn b => leqb str_eqb a b
  | _, _ => false
  end.
Definition kwval_match (m i : kwval) : bool :=
  match m, i with KN a, KN b => N.eqb a b | KA a, KA b => av_match a b | _, _ => false end.
Definition callarg_match (m i : callarg) : bool :=
  match m, i with
  | CAOpts a, CAOpts b => assoc_match optval_match a b
  | CAFmt a, CAFmt b => str_eqb (fs_class a) (fs_class b) && assoc_match kwval_match (fs_kwargs a) (fs_kwargs b)
  | _, _ => false
  end.
Definition call_match (m i : df_call) : bool :=
  str_eqb (c_callee m) (c_callee i) && leqb av_match (c_args m) (c_args i)
  && assoc_match callarg_match (c_kwargs m) (c_kwargs i).
Definition oz_eqb (a b : option Z) := match a, b with None, None => true | Some x, Some y => Z.eqb x y | _, _ => false end.

Definition check (c : case) : bool := match c with
| CParse patch argv e =>
    match parse_args (pctx_of flags cli) (if patch then ct_patch_opts cli else ct_diff_opts cli) argv, e with
    | PUsage, RUsage => true
    | PExit0, RExit0 => true
    | PArgs m, RArgs i => assoc_match av_match m i
    | _, _ => false
    end
| CRun argv calls out status =>
    match diff_command_plan flags cli argv with
    | PlanRun c1 chk c2 =>
        let planned := c1 :: match c2 with Some c => [c] | None => [] end in
        leqb call_match planned (map fst calls)
        && match diff_command_run flags cli
                   (fun c => match find (fun p : df_call * str => call_match c (fst p)) calls with
                             | Some p => snd p | None => [0%N] end) argv with
           | Some r => str_eqb (cr_stdout r) out && oz_eqb (cr_status r) status
           | None => false
           end
    | _ => false
    end
| CCall1 argv c =>
    match diff_command_plan flags cli argv with PlanRun c1 _ _ => call_match c1 c | _ => false end
| CExit argv st =>
    match diff_command_plan flags cli argv with
    | PlanUsage => Z.eqb st 2
    | PlanExit0 => Z.eqb st 0
    | _ => false
    end
| CPatchRun argv callee args =>
    match patch_command_plan flags cli argv with
    | PPRun c a => str_eqb c callee && leqb av_match a args && patch_prints cli
    | _ => false
    end
| CValidate s e =>
    match validate_F_with (ct_validate cli) s, e with
    | FOk _ _, VOk lit => dec_eq s lit
    | FRejected m, VRejected m' => str_eqb m m'
    | FNotFloat, VNotFloat => true
    | _, _ => false
    end
| CUniq v e => leqb uattr_eqb (parse_uniqueattrs v) e
| CIgn v e => leqb str_eqb (parse_ignored_attrs v) e
end.
"""


def coq_bool(b):
    return "true" if b else "false"


def coq_argv(argv):
    return coq_list([coq_str(a) for a in argv])


def dec_str(f):
    """the float f as a plain decimal literal (shortest repr, no exponent)"""
    return format(Decimal(repr(float(f))), 'f')


def coq_av(v):
    if v is None:
        return "AVNone"
    if isinstance(v, bool):
        return "(AVBool %s)" % coq_bool(v)
    if isinstance(v, float):
        return "(AVFloat %s)" % coq_str(dec_str(v))
    if isinstance(v, str):
        return "(AVStr %s)" % coq_str(v)
    raise ValueError("unmodelled namespace value %r" % (v,))


def coq_ns(ns):
    return coq_list(["(%s, %s)" % (coq_str(k), coq_av(v)) for k, v in sorted(vars(ns).items())])


def coq_ostr(s):
    return "None" if s is None else "(Some %s)" % coq_str(s)


def coq_uattrs(l):
    if not isinstance(l, list):
        raise ValueError("unmodelled uniqueattrs value %r" % (l,))
    out = []
    for u in l:
        if isinstance(u, str):
            out.append("UPlain %s" % coq_str(u))
        elif isinstance(u, list) and len(u) == 2:
            out.append("UPair %s %s" % (coq_str(u[0]), coq_str(u[1])))
        else:
            raise ValueError("unmodelled uniqueattrs element %r" % (u,))
    return coq_list(out)


def coq_opts(d):
    items = []
    for k, v in d.items():
        if k == "uniqueattrs":
            items.append("(%s, OUniq %s)" % (coq_str(k), coq_uattrs(v)))
        elif k == "ignored_attrs":
            if not isinstance(v, list):
                raise ValueError("unmodelled ignored_attrs value %r" % (v,))
            items.append("(%s, OIgn %s)" % (coq_str(k), coq_list([coq_str(x) for x in v])))
        else:
            items.append("(%s, OVal %s)" % (coq_str(k), coq_av(v)))
    return coq_list(items)


def coq_fmt(cls, kwargs):
    kws = []
    for k, v in kwargs.items():
        if isinstance(v, bool):
            kws.append("(%s, KA %s)" % (coq_str(k), coq_av(v)))
        elif isinstance(v, int):
            kws.append("(%s, KN %d%%N)" % (coq_str(k), v))
        else:
            raise ValueError("unmodelled formatter keyword %r" % ((k, v),))
    return "{| fs_class := %s; fs_kwargs := %s |}" % (coq_str(cls), coq_list(kws))


def coq_call(c):
    kw = []
    for k, v in c["kwargs"].items():
        if k == "diff_options":
            kw.append("(%s, CAOpts %s)" % (coq_str(k), coq_opts(v)))
        elif k == "formatter":
            kw.append("(%s, CAFmt %s)" % (coq_str(k), coq_fmt(v["class"], v["kwargs"])))
        else:
            raise ValueError("unmodelled keyword %s" % k)
    return "{| c_callee := %s; c_args := %s; c_kwargs := %s |}" % (
        coq_str(c["callee"]), coq_list([coq_av(a) for a in c["args"]]), coq_list(kw))


# ----------------------------------------------------------------------------
# running the implementation with its collaborators recorded

class Recorder:
    """Wraps main.diff_files / main.patch_file, main.FORMATTERS and main.formatting so that every API call made by a
    command and the way its formatter was constructed are recorded (objects are kept alive: ids are keys)."""

    def __enter__(self):
        from xmldiff import main
        self.main = main
        self.calls, self.made, self.keep = [], {}, []
        self.saved = (main.diff_files, main.patch_file, main.FORMATTERS, main.formatting)
        rec = self

        def factory(cls):
            def make(*a, **kw):
                obj = cls(*a, **kw)
                rec.keep.append(obj)
                rec.made[id(obj)] = {"class": cls.__name__, "kwargs": dict(kw), "nargs": len(a)}
                return obj
            return make
        real_formatting = main.formatting

        class FProxy:
            def __getattr__(self, name):
                v = getattr(real_formatting, name)
                if isinstance(v, type) and name.endswith("Formatter"):
                    return factory(v)
                return v
        real_df, real_pf = main.diff_files, main.patch_file

        def df(*a, **kw):
            c = {"callee": "diff_files", "args": list(a),
                 "kwargs": {k: (rec.made.get(id(v)) if k == "formatter" else v) for k, v in kw.items()}}
            rec.calls.append(c)
            try:
                c["result"] = real_df(*a, **kw)
            except Exception as ex:  # noqa
                c["raised"] = type(ex).__name__
                raise
            return c["result"]

        def pf(*a, **kw):
            r = real_pf(*a, **kw)
            rec.calls.append({"callee": "patch_file", "args": list(a), "kwargs": dict(kw), "result": r})
            return r
        main.diff_files, main.patch_file = df, pf
        main.FORMATTERS = {k: factory(v) for k, v in main.FORMATTERS.items()}
        main.formatting = FProxy()
        return self

    def __exit__(self, *exc):
        m = self.main
        m.diff_files, m.patch_file, m.FORMATTERS, m.formatting = self.saved
        return False


def run_command(fn_name, argv):
    """-> dict(stdout, status (None | int | 'exit:N' | 'exc:..'), calls)"""
    from xmldiff import main
    out, err = io.StringIO(), io.StringIO()
    with Recorder() as rec:
        with contextlib.redirect_stdout(out), contextlib.redirect_stderr(err):
            try:
                st = getattr(main, fn_name)(list(argv))
            except SystemExit as ex:
                st = "exit:%s" % ex.code
            except Exception as ex:  # noqa
                st = "exc:%r" % ex
    return {"stdout": out.getvalue(), "status": st, "calls": rec.calls, "stderr": err.getvalue()}


def parse_only(patch, argv):
    from xmldiff import main
    p = main.make_patch_parser() if patch else main.make_diff_parser()
    out, err = io.StringIO(), io.StringIO()
    with contextlib.redirect_stdout(out), contextlib.redirect_stderr(err):
        try:
            return p.parse_args(list(argv))
        except SystemExit as ex:
            return "exit:%s" % ex.code


# ----------------------------------------------------------------------------
# the oracle

def fresh_formatter(spec):
    from xmldiff import formatting
    return getattr(formatting, spec["class"])(**spec["kwargs"])


def canon_ign(e, ignored, top=True):
    from lxml import etree
    if e.tag is etree.Comment:
        return ('#comment', (), e.text or '', '' if top else (e.tail or ''), ())
    return (e.tag, tuple(sorted((k, v) for k, v in e.attrib.items() if k not in ignored)), e.text or '',
            '' if top else (e.tail or ''), tuple(canon_ign(c, ignored, False) for c in e))


def documents_differ(f1, f2, rb, ignored):
    from lxml import etree
    p = etree.XMLParser(remove_blank_text=rb)
    return canon_ign(etree.parse(f1, p).getroot(), ignored) != canon_ign(etree.parse(f2, p).getroot(), ignored)


def oracle_command(argv, res):
    """`res` = run_command('diff_command', argv) for an argv that ran.  The property: stdout is what diff_files returns
    for the options given; with --check status 1 iff the documents differ."""
    from xmldiff import main
    if not res["calls"]:
        return "no diff_files call"
    c = res["calls"][0]
    try:
        again = main.diff_files(*c["args"], diff_options=c["kwargs"]["diff_options"],
                                formatter=fresh_formatter(c["kwargs"]["formatter"]))
    except Exception as ex:  # noqa
        return "diff_files raised %r for the recorded options" % ex
    if res["stdout"] != str(again) + "\n":
        return "the command printed %r, diff_files returns %r" % (res["stdout"][:120], str(again)[:120])
    check = "--check" in argv
    if not check:
        return None if res["status"] is None else "without --check the command returned %r" % (res["status"],)
    norm = c["kwargs"]["formatter"]["kwargs"]["normalize"]
    differ = documents_differ(c["args"][0], c["args"][1], bool(norm & 1), set(c["kwargs"]["diff_options"]["ignored_attrs"]))
    want = 1 if differ else None
    if res["status"] != want:
        return "--check returned %r, documents %s" % (res["status"], "differ" if differ else "do not differ")
    return None


def oracle_entrypoints(f1, f2, opts, spec):
    """file names vs open streams vs bytes vs str vs parsed trees"""
    from xmldiff import main
    from lxml import etree

    def fm():
        return fresh_formatter(spec) if spec else None
    norm = spec["kwargs"].get("normalize") if spec else None
    if spec and norm is None:
        norm = fm().normalize
    rb = True if spec is None else bool(norm & 1)
    try:
        ref = main.diff_files(f1, f2, diff_options=dict(opts), formatter=fm())
        with open(f1, "rb") as a, open(f2, "rb") as b:
            r_streams = main.diff_files(a, b, diff_options=dict(opts), formatter=fm())
        b1, b2 = open(f1, "rb").read(), open(f2, "rb").read()
        r_bytes = main.diff_texts(b1, b2, diff_options=dict(opts), formatter=fm())
        r_str = main.diff_texts(b1.decode("utf8"), b2.decode("utf8"), diff_options=dict(opts), formatter=fm())
        p = etree.XMLParser(remove_blank_text=rb)
        r_trees = main.diff_trees(etree.parse(f1, p), etree.parse(f2, p), diff_options=dict(opts), formatter=fm())
        p = etree.XMLParser(remove_blank_text=rb)
        r_roots = main.diff_trees(etree.fromstring(b1, p), etree.fromstring(b2, p), diff_options=dict(opts), formatter=fm())
    except Exception as ex:  # noqa
        return "raised %r" % ex
    for name, r in (("open streams", r_streams), ("bytes", r_bytes), ("str", r_str), ("parsed trees", r_trees),
                    ("parsed roots", r_roots)):
        if r != ref:
            return "diff from %s differs from diff_files on names: %r vs %r" % (name, str(r)[:150], str(ref)[:150])
    return None


def doctype_key(f1, f2, w):
    """finding key for the known class: a document with a DOCTYPE, the xml formatter, and the disagreement being the
    DOCTYPE that diff_files (ElementTree in hand) prints and the text / bytes / root-element entry points do not"""
    try:
        has = any("<!DOCTYPE" in open(f, encoding="utf8", errors="replace").read() for f in (f1, f2))
    except Exception:  # noqa
        has = False
    if has and w and "differs from diff_files on names" in w and "<!DOCTYPE" in w.split(" vs ", 1)[-1] \
            and "<!DOCTYPE" not in w.split(" vs ", 1)[0]:
        return "doctype-printed-for-files-only"
    return None


ENCODINGS = ["utf-8", "utf-16", "utf-16-be", "utf-16-le", "utf-32-be", "iso-8859-1"]


def oracle_encodings(l, r):
    """the same two documents as str and as bytes in several encodings (with an XML declaration and white space
    after the root element, as editors write it) give the same result"""
    from xmldiff import main
    from lxml import etree
    try:
        ref = main.diff_texts(l, r)
        for variant, (a, b) in (("str with a trailing newline", (l + "\n", r + "\n")),
                                ("str with a leading newline", ("\n" + l, "\n" + r))):
            got = main.diff_texts(a, b)
            if got != ref:
                return "diff_texts on %s gives %r, on the plain str %r" % (variant, str(got)[:150], str(ref)[:150])
    except Exception as ex:  # noqa
        return "diff_texts(str) raised %r" % ex
    for enc in ENCODINGS:
        try:
            docs = []
            for t in (l, r):
                body = "<?xml version='1.0' encoding='%s'?>\n%s\n" % (enc.upper(), t)
                docs.append(body.encode(enc, "xmlcharrefreplace"))
            # what lxml itself makes of these bytes is the reference for "same content"
            if [gen.canon(etree.fromstring(d)) for d in docs] != [gen.canon(etree.fromstring(t)) for t in (l, r)]:
                continue
            got = main.diff_texts(docs[0], docs[1])
        except Exception as ex:  # noqa
            return "diff_texts(bytes in %s, with XML declaration and trailing newline) raised %r" % (enc, ex)
        if got != ref:
            return "diff_texts(bytes in %s) gives %r, diff_texts(str) gives %r" % (enc, str(got)[:150], str(ref)[:150])
    return None


def oracle_patch(tmp, l, r, rng):
    """patch_command == patch_file (names / streams / --diff-encoding) == patch_text"""
    from xmldiff import main, formatting
    from lxml import etree
    try:
        script = main.diff_texts(l, r, formatter=formatting.DiffFormatter(normalize=formatting.WS_NONE))
        xmlfile = os.path.join(tmp, "p.xml")
        open(xmlfile, "w", encoding="utf8").write(l)
        pf8, pf16 = os.path.join(tmp, "p.diff"), os.path.join(tmp, "p16.diff")
        open(pf8, "w", encoding="utf8").write(script)
        open(pf16, "w", encoding="utf-16").write(script)
        ref = main.patch_text(script, l)
        outs = {"patch_file(names)": main.patch_file(pf8, xmlfile, "utf8"),
                "patch_file(names, utf-16)": main.patch_file(pf16, xmlfile, "utf-16")}
        with open(pf8, "rt", encoding="utf8") as a, open(xmlfile, "rb") as b:
            outs["patch_file(streams)"] = main.patch_file(a, b)
        for argv in ([pf8, xmlfile, "--diff-encoding", "utf8"], ["--diff-encoding=utf-16", pf16, xmlfile]):
            res = run_command("patch_command", argv)
            if res["status"] is not None or not res["stdout"].endswith("\n"):
                return "patch_command %r: status %r" % (argv, res["status"]), None
            outs["patch_command %s" % argv[0][:2]] = res["stdout"][:-1]
        for k, v in outs.items():
            if v != ref:
                return "%s gives %r, patch_text gives %r" % (k, v[:150], ref[:150]), None
        if gen.canon(etree.fromstring(ref)) != gen.canon(etree.fromstring(r)):
            return "patch_text(diff, l) is not r", None
    except Exception as ex:  # noqa
        return "raised %r" % ex, None
    return None, [pf8, xmlfile]


def run_subprocess(argv):
    code = "import sys; from xmldiff.main import diff_command; sys.exit(diff_command())"
    env = dict(os.environ, PYTHONPATH=lib.REPO, PYTHONHASHSEED="0", PYTHONIOENCODING="utf8")
    p = subprocess.run([sys.executable, "-c", code] + list(argv), env=env, stdout=subprocess.PIPE, stderr=subprocess.PIPE,
                       timeout=120)
    return p.stdout.decode("utf8"), p.returncode


# ----------------------------------------------------------------------------
# argv generation

F_VALUES = ["0.5", "0.1", "1", "1.0", ".5", "0.90", "+0.3", "1.", "0.000000000000001", "0.999999999999999"]
F_BAD = ["0", "0.0", "1.5", "abc", "-0.5", "", "1.000000000000001", "2", "-1", "0..5", "1-", "+", ".", "-", "+-1", "00", "-.0"]
UNIQ = [None, "i", "i,j", "{urn:p}i", "a@i", "{urn:p}a@i,j", "a@b@c", "@x", "x@", ",", "", "i,,j", "k",
        "{urn:ietf:params:xml:ns:inv}item@name", "{urn:ietf:params:xml:ns:inv}name,i", "xml:id", " i"]
IGN = [None, "i", "i,j", "{urn:p}i", "", ",", "k,i", "{urn:ietf:params:xml:ns:inv}rev,k", "xml:lang"]


def gen_argv(rng, f1, f2, force=None):
    """a random command line over all options, in varying syntax"""
    parts = []   # groups of tokens that must stay adjacent
    o = force or {}
    fm = o.get("f", rng.choice([None, "diff", "xml", "old"]))
    if fm is not None:
        parts.append(rng.choice([["-f", fm], ["--formatter", fm], ["--formatter=" + fm], ["-f" + fm], ["--form", fm]]))
    if o.get("w", rng.random() < .4):
        parts.append([rng.choice(["-w", "--keep-whitespace", "--keep"])])
    if o.get("p", rng.random() < .3):
        parts.append([rng.choice(["-p", "--pretty-print"])])
    if o.get("check", rng.random() < .5):
        parts.append(["--check"])
    F = o.get("F", rng.choice([None, None] + F_VALUES))
    if F is not None:
        parts.append(rng.choice([["-F", F], ["-F" + F] if F else ["-F", F], ["-F=" + F] if False else ["-F", F]]))
    rm = o.get("rm", rng.choice([None, None, "accurate", "fast", "faster"]))
    if rm is not None:
        parts.append(rng.choice([["--ratio-mode", rm], ["--ratio-mode=" + rm], ["--ratio", rm]]))
    m = o.get("m", rng.choice([None, None, "--fast-match", "--best-match"]))
    if m:
        parts.append([m])
    tail = []
    ua = o.get("ua", rng.choice(["absent", "absent"] + UNIQ))
    if ua != "absent":
        if ua is None:
            tail.append(["--unique-attributes"])          # nargs='?' without a value: must not be followed by a positional
        else:
            parts.append(rng.choice([["--unique-attributes", ua] if ua and not ua.startswith("-") else ["--unique-attributes=" + ua],
                                     ["--unique-attributes=" + ua]]))
    ia = o.get("ia", rng.choice(["absent", "absent"] + IGN))
    if ia != "absent":
        if ia is None:
            tail.append(["--ignored-attributes"])
        else:
            parts.append(rng.choice([["--ignored-attributes", ia] if ia else ["--ignored-attributes=" + ia],
                                     ["--ignored-attributes=" + ia]]))
    rng.shuffle(parts)
    # positionals anywhere between the groups
    i = rng.randint(0, len(parts))
    j = rng.randint(i, len(parts))
    parts = parts[:i] + [[f1]] + parts[i:j] + [[f2]] + parts[j:]
    rng.shuffle(tail)
    intent = {"f": fm or "diff", "w": any(g[0] in ("-w", "--keep-whitespace", "--keep") for g in parts),
              "p": any(g[0] in ("-p", "--pretty-print") for g in parts), "check": ["--check"] in parts, "F": F, "rm": rm or "fast",
              "m": m, "ua": ua, "ia": ia, "files": [f1, f2]}
    return [t for g in parts + tail for t in g], intent


def expected_call(intent):
    """what the command line asks for, written down independently of main.diff_command: every option feeds the
    like-named Differ keyword / formatter argument"""
    def uniq(s):
        return [x.split("@", 1) if "@" in x else x for x in s.split(",")]
    ua, ia = intent["ua"], intent["ia"]
    opts = {"F": None if intent["F"] is None else float(intent["F"]), "ratio_mode": intent["rm"],
            "fast_match": intent["m"] == "--fast-match", "best_match": intent["m"] == "--best-match",
            "uniqueattrs": uniq("{http://www.w3.org/XML/1998/namespace}id") if ua == "absent" else [] if ua is None else uniq(ua),
            "ignored_attrs": [] if ia in ("absent", None) else ia.split(",")}
    fmt = {"class": {"diff": "DiffFormatter", "xml": "XMLFormatter", "old": "XmlDiffFormatter"}[intent["f"]],
           "kwargs": {"normalize": 0 if intent["w"] else 3, "pretty_print": intent["p"]}}
    return {"args": list(intent["files"]), "diff_options": opts, "formatter": fmt}


def oracle_intent(intent, res):
    if not res["calls"]:
        return "no diff_files call"
    c, e = res["calls"][0], expected_call(intent)
    if c["args"] != e["args"]:
        return "diff_files called on %r, the command line names %r" % (c["args"], e["args"])
    got = c["kwargs"].get("diff_options")
    for k, v in e["diff_options"].items():
        if got is None or k not in got or got[k] != v or type(got[k]) is not type(v):
            return "Differ option %s is %r, the command line asks for %r" % (k, None if got is None else got.get(k, "<missing>"), v)
    if set(got) != set(e["diff_options"]):
        return "unexpected Differ options %r" % sorted(set(got) - set(e["diff_options"]))
    if c["kwargs"].get("formatter") != dict(e["formatter"], nargs=0):
        return "formatter constructed as %r, the command line asks for %r" % (c["kwargs"].get("formatter"), e["formatter"])
    return None


def modelled(argv):
    """False for command lines outside the fragment of argparse/float() that Cli.v models: a -F value that is not a
    decimal literal over 0-9 . + - with at most 15 fractional digits, and the `--` separator"""
    if "--" in argv:
        return False
    for i, a in enumerate(argv):
        v = None
        if a == "-F" and i + 1 < len(argv):
            v = argv[i + 1]
        elif a.startswith("-F") and len(a) > 2:
            v = a[2:]
        if v is not None and not v.startswith("-") or (v is not None and a != "-F"):
            if any(c not in "0123456789.+-" for c in v) or len(v.split(".", 1)[1] if "." in v else "") > 15:
                return False
    return True


def bad_argvs(f1, f2):
    return [[], [f1], [f1, f2, f1], ["-f", "bogus", f1, f2], ["--ratio-mode", "slow", f1, f2], ["--fast-match", "--best-match", f1, f2],
            ["--best-match", f1, f2, "--fast-match"], ["--bogus", f1, f2], ["-x", f1, f2], ["-F", "0", f1, f2], ["-F", "1.5", f1, f2],
            ["-F", "abc", f1, f2], ["-F", "-0.5", f1, f2], ["-F", f1, f2], ["-f", f1, f2], ["--check=1", f1, f2], ["--check=", f1, f2],
            ["-w=1", f1, f2], ["-wq", f1, f2], ["--f", "xml", f1, f2], ["-h"], ["--help", "--bogus"], ["-v"], ["--version"],
            ["--bogus", "-h"], ["-f", "bogus", "-h"], ["-h", "-f", "bogus"], [f1, f2, "--unique-attributes"],
            ["--unique-attributes", f1, f2], [f1, "--ignored-attributes", f2], ["-wp", f1, f2], ["-pw", f1, f2], ["-wfxml", f1, f2],
            ["-wpfold", f1, f2], ["-1", f2], ["-1", "-2"], [f1, "a b"], ["--fast", f1, f2], ["--fast-match", "--fast-match", f1, f2],
            ["-fxml", "-fdiff", f1, f2], ["--formatter=", f1, f2], ["-F", "", f1, f2], ["-F=0.5", f1, f2], ["--", f1, f2]]


# ----------------------------------------------------------------------------

def main(run):
    from xmldiff import main as M
    from lxml import etree
    rng = random.Random(run.seed)
    ok, pinfo = lib.proof_stage(run, "C15")
    run.log("proof stage:", "ok" if ok else "BROKEN %s" % pinfo.get("failed"))
    quick = run.tier == "quick"
    cases, descr, viols, kinds = [], [], [], {}
    skipped = {}

    def add(kind, term, d):
        cases.append(term); descr.append(d); kinds[kind] = kinds.get(kind, 0) + 1

    def skip(why):
        skipped[why] = skipped.get(why, 0) + 1

    tmp = tempfile.mkdtemp(prefix="c15-")
    counts = {"commands": 0, "entrypoints": 0, "check": 0, "patch": 0, "subprocess": 0}
    try:
        # -- unit functions -----------------------------------------------------------
        alpha = "0159.+-"
        fl = [''.join(t) for n in range(0, 4 if quick else 5) for t in itertools.product(alpha, repeat=n)] + F_VALUES + F_BAD + \
            ["0.5000000000000001", "0.12345678901234567", "0.000000000000000", "1.000000000000000", "0." + "0" * 15 + "1"]
        for s in fl:
            try:
                v = M.validate_F(s)
                e = "VOk %s" % coq_str(dec_str(v))
            except M.ArgumentTypeError as ex:
                msg = str(ex)
                e = "VNotFloat" if msg == "Must be a floating point number" else "VRejected %s" % coq_str(msg)
            frac = s.split(".", 1)[1] if "." in s else ""
            if len(frac) > 15 or any(c not in "0123456789.+-" for c in s):
                skip("validate_F literal outside the modelled fragment")
                continue
            add("validate_F", "CValidate %s (%s)" % (coq_str(s), e), ("validate_F", s))
        ualpha = ["a", ",", "@", "{", "i"]
        us = [None] + [''.join(t) for n in range(0, 5 if quick else 6) for t in itertools.product(ualpha, repeat=n)] + [x for x in UNIQ if x]
        for s in us:
            for kind, fn, enc, ctor in (("uniqueattrs", M._parse_uniqueattrs, coq_uattrs, "CUniq"),
                                        ("ignored_attrs", M._parse_ignored_attrs, lambda l: coq_list([coq_str(x) for x in l]), "CIgn")):
                try:
                    r = fn(s)
                    if not isinstance(r, list) or (kind == "ignored_attrs" and not all(isinstance(x, str) for x in r)):
                        raise ValueError("returned %r, not a list" % (r,))
                    add(kind, "%s %s %s" % (ctor, coq_ostr(s), enc(r)), (fn.__name__, s))
                except Exception as ex:  # noqa
                    viols.append({"what": "%s(%r): %s (a missing or empty command-line value must give a list: Differ(uniqueattrs=None) "
                                          "means the xml:id default, not 'no unique attributes')" % (fn.__name__, s, ex),
                                  "replay": {"kind": "unit", "fn": fn.__name__, "arg": s}})

        # -- documents on disk ----------------------------------------------------------
        npairs = 18 if quick else 120
        files, ignored_pairs = [], []
        for i in range(npairs):
            k = i % 6
            if i == 7 or i == 13:
                # an internal DTD subset with general entities used in content and in an attribute value; names in a
                # namespace whose URI contains "xml:" (for the Clark-notation option values)
                ent = '<!DOCTYPE inv [<!ENTITY co "ACME"><!ENTITY yr "2026">]>'
                l_ = ent + '<inv xmlns:n="urn:ietf:params:xml:ns:inv"><n:item n:name="a" k="1">&co; &yr;</n:item><n:item n:name="b">t</n:item></inv>'
                r_ = ent + '<inv xmlns:n="urn:ietf:params:xml:ns:inv"><n:item n:name="b">t &co;</n:item><n:item n:name="a" k="&yr;">&co; and &yr;</n:item></inv>'
                f1, f2 = os.path.join(tmp, "l%d.xml" % i), os.path.join(tmp, "r%d.xml" % i)
                open(f1, "w").write(l_); open(f2, "w").write(r_)
                files.append((f1, f2))
                continue
            if k == 5:
                # differing ONLY in comments below the root: one added, removed or reworded (the xml formatter drops
                # comments before it diffs; --check must still report the difference)
                L = gen.gen_tree(rng, rng.randint(3, 7), ns=False, comments=False, texts=False)
                R = etree.fromstring(etree.tostring(L))
                host = rng.choice([e for e in L.iter() if isinstance(e.tag, str)])
                pos = rng.randint(0, len(host))
                how = rng.choice(["add", "remove", "reword"])
                idx = [e for e in L.iter()].index(host)
                rhost = [e for e in R.iter()][idx]
                if how != "add":
                    host.insert(pos, etree.Comment("a remark"))
                if how != "remove":
                    rhost.insert(pos, etree.Comment("a remark" if how == "add" else "another remark entirely, nothing alike 12345"))
            elif k == 4:
                # differing only in the value / presence of attribute k (for --ignored-attributes k)
                L = gen.gen_tree(rng, rng.randint(2, 7), ns=False)
                R = etree.fromstring(etree.tostring(L))
                for e in rng.sample([e for e in R.iter() if isinstance(e.tag, str)], 1):
                    if 'k' in e.attrib and rng.random() < .5:
                        del e.attrib['k']
                    else:
                        e.set('k', e.get('k', '') + 'x')
                ignored_pairs.append(i)
            elif k == 0:
                L = gen.gen_tree(rng, rng.randint(1, 7)); R = etree.fromstring(etree.tostring(L))      # identical
            elif k == 1:
                L = gen.gen_tree(rng, rng.randint(2, 7)); R = gen.mutate_tree(rng, L, tags=('a', 'b', 'c'), attrs=('i', 'j', 'k'))
            elif k == 2:
                L, R = gen.gen_pair(rng, 7, words=gen.WORDS[:8])
            else:
                # the same document, re-indented
                L = gen.gen_tree(rng, rng.randint(2, 7), texts=False)
                R = etree.fromstring(etree.tostring(L, pretty_print=True))
            f1, f2 = os.path.join(tmp, "l%d.xml" % i), os.path.join(tmp, "r%d.xml" % i)
            open(f1, "wb").write(etree.tostring(L)); open(f2, "wb").write(etree.tostring(R))
            files.append((f1, f2))

        def replay_of(argv):
            fs = {a: open(a, "rb").read().decode("utf8") for a in argv if a.startswith(tmp) and os.path.exists(a)}
            return {"kind": "command", "argv": [os.path.basename(a) if a in fs else a for a in argv],
                    "files": {os.path.basename(k): v for k, v in fs.items()}}

        # -- commands ---------------------------------------------------------------------
        argvs = []
        for (f1, f2) in files:
            # every formatter x -w x --check on every pair, the rest random
            for fm in ("diff", "xml", "old"):
                for w in (False, True):
                    argvs.append(gen_argv(rng, f1, f2, {"f": fm, "w": w, "check": True}))
            for _ in range(10 if quick else 16):
                argvs.append(gen_argv(rng, f1, f2))
        for i in ignored_pairs:
            f1, f2 = files[i]
            for fm in ("diff", "xml", "old"):
                argvs.append(gen_argv(rng, f1, f2, {"f": fm, "check": True, "ia": rng.choice(["k", "k,i", "j,k"]), "ua": "absent"}))
                argvs.append(gen_argv(rng, f1, f2, {"f": fm, "check": True, "ia": "absent"}))
        f1, f2 = files[1]
        # one option at a time, exhaustively over its values
        for v in F_VALUES:
            argvs.append(gen_argv(rng, f1, f2, {"F": v}))
        for v in UNIQ:
            argvs.append(gen_argv(rng, f1, f2, {"ua": v}))
        for v in IGN:
            argvs.append(gen_argv(rng, f1, f2, {"ia": v}))
        for rm in ("accurate", "fast", "faster"):
            for m in (None, "--fast-match", "--best-match"):
                argvs.append(gen_argv(rng, f1, f2, {"rm": rm, "m": m}))
        argvs += [(a, None) for a in bad_argvs(f1, f2)]
        argvs += [(["-F", v, f1, f2], "reject") for v in F_BAD]
        seen_argv = set()
        for argv, intent in argvs:
            key = tuple(argv)
            if key in seen_argv:
                continue
            seen_argv.add(key)
            is_mod = modelled(argv)
            if not is_mod:
                skip("argv outside the modelled fragment")
            addm = add if is_mod else (lambda *a_: None)
            ns = parse_only(False, argv)
            if isinstance(ns, str):
                addm("parse", "CParse false %s %s" % (coq_argv(argv), "RUsage" if ns == "exit:2" else "RExit0"), ("parse_args", argv, ns))
            else:
                try:
                    addm("parse", "CParse false %s (RArgs %s)" % (coq_argv(argv), coq_ns(ns)), ("parse_args", argv))
                except ValueError as ex:
                    skip(str(ex)[:40])
            res = run_command("diff_command", argv)
            counts["commands"] += 1
            st = res["status"]
            if isinstance(st, str) and st.startswith("exc:OSError") and not isinstance(ns, str) and not (
                    os.path.exists(ns.file1) and os.path.exists(ns.file2)):
                skip("input file does not exist")
                continue
            if isinstance(st, str) and st.startswith("exc:"):
                # the command failed inside diff_files: the API must fail in the same way for the same options
                c = res["calls"][-1] if res["calls"] else None
                w = "diff_command raised outside diff_files: %s" % st
                if c is not None and "raised" in c:
                    try:
                        M.diff_files(*c["args"], diff_options=c["kwargs"]["diff_options"], formatter=fresh_formatter(c["kwargs"]["formatter"]))
                        w = "diff_command raised %s, diff_files with the same options does not" % st
                    except Exception as ex:  # noqa
                        w = None if type(ex).__name__ == c["raised"] else "diff_command raised %s, diff_files raises %r" % (st, ex)
                counts["both_raise"] = counts.get("both_raise", 0) + 1
                if c is not None:
                    try:
                        addm("call-raised", "CCall1 %s %s" % (coq_argv(argv), coq_call(res["calls"][0])), ("diff_command (raised)", argv))
                    except ValueError as ex:
                        skip(str(ex)[:40])
                if w is None and isinstance(intent, dict):
                    w = oracle_intent(intent, res)
                if w:
                    viols.append({"what": w, "replay": replay_of(argv)})
                continue
            if intent == "reject" and st != "exit:2":
                viols.append({"what": "-F %r must be rejected (not a number in (0, 1]) but the command returned %r" % (argv[1], st),
                              "replay": replay_of(argv)})
            if isinstance(intent, dict):
                w = "the command line was rejected: %s" % st if isinstance(st, str) and st.startswith("exit:") else oracle_intent(intent, res)
                counts["intent"] = counts.get("intent", 0) + 1
                if w:
                    viols.append({"what": w, "replay": dict(replay_of(argv), intent=dict(intent, files=[os.path.basename(x) for x in intent["files"]]))})
            if isinstance(st, str):
                code = int(st.split(":")[1])
                addm("exit", "CExit %s (%d)%%Z" % (coq_argv(argv), code), ("exit", argv, st))
                if code == 2 and (res["stdout"] or res["calls"]):
                    viols.append({"what": "usage error but output/calls: %r" % res["stdout"][:80], "replay": replay_of(argv)})
                continue
            try:
                calls = coq_list(["(%s, %s)" % (coq_call(c), coq_str(str(c["result"]))) for c in res["calls"]])
                addm("run", "CRun %s %s %s %s" % (coq_argv(argv), calls, coq_str(res["stdout"]),
                                                  "None" if st is None else "(Some (%d)%%Z)" % st), ("diff_command", argv, st))
            except ValueError as ex:
                skip(str(ex)[:40])
            w = oracle_command(argv, res)
            if "--check" in argv:
                counts["check"] += 1
            if w:
                viols.append({"what": w, "replay": replay_of(argv)})
            # entry points with the very options this command line selected
            if counts["entrypoints"] < (60 if quick else 600) and res["calls"]:
                c = res["calls"][0]
                w = oracle_entrypoints(c["args"][0], c["args"][1], c["kwargs"]["diff_options"], c["kwargs"]["formatter"])
                counts["entrypoints"] += 1
                if w:
                    viols.append({"what": w, "replay": dict(replay_of(argv), kind="entrypoints",
                                                            finding_key=doctype_key(c["args"][0], c["args"][1], w))})
        # entry points without formatter / default-constructed formatters
        for (f1, f2) in files[:6 if quick else 40]:
            for spec in (None, {"class": "DiffFormatter", "kwargs": {}}, {"class": "XMLFormatter", "kwargs": {}},
                         {"class": "XmlDiffFormatter", "kwargs": {"normalize": 0}}):
                for opts in ({}, {"fast_match": True}, {"F": 0.7, "ratio_mode": "accurate"}):
                    w = oracle_entrypoints(f1, f2, opts, spec)
                    counts["entrypoints"] += 1
                    if w:
                        viols.append({"what": w, "replay": {"kind": "entrypoints-api", "left": open(f1).read(), "right": open(f2).read(),
                                                            "opts": opts, "spec": spec, "finding_key": doctype_key(f1, f2, w)}})
        # the documents with an internal DTD subset through every entry point and every default-constructed formatter
        # (open finding doctype-printed-for-files-only lives here: exercised on every run)
        for (f1, f2) in [fs for fs in files if "<!DOCTYPE" in open(fs[0]).read()][:2]:
            for spec in (None, {"class": "DiffFormatter", "kwargs": {}}, {"class": "XMLFormatter", "kwargs": {}},
                         {"class": "XmlDiffFormatter", "kwargs": {"normalize": 0}}):
                w = oracle_entrypoints(f1, f2, {}, spec)
                counts["entrypoints"] += 1
                if w:
                    viols.append({"what": w, "replay": {"kind": "entrypoints-api", "left": open(f1).read(), "right": open(f2).read(),
                                                        "opts": {}, "spec": spec, "finding_key": doctype_key(f1, f2, w)}})

        # -- encodings ----------------------------------------------------------------------
        for (f1, f2) in files[:8 if quick else 60]:
            l, r = open(f1, encoding="utf8").read(), open(f2, encoding="utf8").read()
            w = oracle_encodings(l, r)
            counts["encodings"] = counts.get("encodings", 0) + 1
            if w:
                viols.append({"what": w, "replay": {"kind": "encodings", "left": l, "right": r}})

        # -- patch ------------------------------------------------------------------------
        for (f1, f2) in files[:8 if quick else 60]:
            l, r = open(f1, encoding="utf8").read(), open(f2, encoding="utf8").read()
            w, pfiles = oracle_patch(tmp, l, r, rng)
            counts["patch"] += 1
            if w:
                viols.append({"what": w, "replay": {"kind": "patch", "left": l, "right": r}})
            elif pfiles:
                for argv in ([pfiles[0], pfiles[1]], [pfiles[0], "--diff-encoding", "utf8", pfiles[1]],
                             ["--diff-encoding=latin-1", pfiles[0], pfiles[1]]):
                    res = run_command("patch_command", argv)
                    if res["status"] is None and len(res["calls"]) == 1:
                        c = res["calls"][0]
                        add("patch-run", "CPatchRun %s %s %s" % (coq_argv(argv), coq_str(c["callee"]),
                                                                  coq_list([coq_av(a) for a in c["args"]])), ("patch_command", argv))
                        if res["stdout"] != c["result"] + "\n":
                            viols.append({"what": "patch_command printed %r, patch_file returned %r" % (res["stdout"][:80], c["result"][:80]),
                                          "replay": {"kind": "patch", "left": l, "right": r}})
                    else:
                        viols.append({"what": "patch_command %r: status %r, %d calls" % (argv, res["status"], len(res["calls"])),
                                      "replay": {"kind": "patch", "left": l, "right": r}})
        for argv in ([], ["a"], ["a", "b", "c"], ["--diff-encoding", "a", "b"], ["-h"], ["--version"], ["--diff", "utf8", "a", "b"],
                     ["--diff-encoding"], ["a", "b", "--diff-encoding"], ["--bogus", "a", "b"]):
            ns = parse_only(True, argv)
            if isinstance(ns, str):
                add("parse", "CParse true %s %s" % (coq_argv(argv), "RUsage" if ns == "exit:2" else "RExit0"), ("patch parse_args", argv, ns))
            else:
                add("parse", "CParse true %s (RArgs %s)" % (coq_argv(argv), coq_ns(ns)), ("patch parse_args", argv))

        # -- a handful of real processes ------------------------------------------------------
        f1, f2 = files[1]
        g1, g2 = files[0]
        subs = [[f1, f2], ["--check", f1, f2], ["--check", g1, g2], ["-f", "xml", "--check", g1, g2], ["-f", "xml", "--check", f1, f2],
                ["-f", "old", "-w", "--check", f1, f2], ["-F", "0.7", "--best-match", "--unique-attributes", "i,a@j", f1, f2],
                ["--fast-match", "--best-match", f1, f2], ["-f", "bogus", f1, f2], [f1]]
        for argv in subs[:6 if quick else len(subs)]:
            try:
                out, rc = run_subprocess(argv)
            except Exception as ex:  # noqa
                viols.append({"what": "subprocess failed: %r" % ex, "replay": replay_of(argv)})
                continue
            res = run_command("diff_command", argv)
            st = res["status"]
            want_rc = 0 if st is None else (st if isinstance(st, int) else int(st.split(":")[1]) if st.startswith("exit:") else 1)
            counts["subprocess"] += 1
            if out != res["stdout"] or rc != want_rc:
                viols.append({"what": "subprocess: stdout/return code (%r, %d) differ from the in-process run (%r, %r)" % (
                    out[:100], rc, res["stdout"][:100], st), "replay": replay_of(argv)})
    finally:
        shutil.rmtree(tmp, ignore_errors=True)

    viols.sort(key=lambda v: len(json.dumps(v["replay"])))
    bad, log = ([], "")
    if pinfo.get("build_ok"):
        bad, log = lib.run_cases("C15", PRE, cases, chunk=400)
    run.log("correspondence: %d cases %s, %d disagreements (skipped as unmodelled: %s); oracle: %s; %d violations"
            % (len(cases), kinds, len(bad), skipped or "none", counts, len(viols)))
    for i in bad[:6]:
        run.log("  disagreement:", repr(descr[i])[:300])
    corr = [{"name": "argparse / diff_command / patch_command / validate_F / _parse_* vs XV.Cli over Gen.CliPlumbing", "cases": len(cases),
             "bad": bad, "log": log, "describe": lambda i: {"case": [str(x) for x in descr[i]]}}]
    run.coverage.update({
        "evaluations": len(cases) + sum(counts.values()),
        "distinct_nontrivial": len(set(cases)),
        "rule": "command lines over every option (-f diff|xml|old in 5 spellings incl. abbreviation and attached value, -w, -p, --check, "
                "-F over %d accepted and %d rejected literals, --ratio-mode, --fast-match|--best-match, --unique-attributes over %d values "
                "incl. {NS}tag@attr and the valueless form, --ignored-attributes), positionals interleaved; every formatter x -w with "
                "--check on every document pair; %d malformed command lines; documents: seeded pairs of the C01 generator (identical / "
                "mutated / unrelated / re-indented) written to temp files; distinct = distinct case terms" % (
                    len(F_VALUES), len(F_BAD), len(UNIQ), len(bad_argvs("a", "b"))),
        "input_distribution": dict(kinds, **{"oracle_" + k: v for k, v in counts.items()}),
        "skipped_unmodelled": skipped,
        "samples": [repr(d)[:200] for d in descr[-3:]],
    })
    run.assumptions = [
        "CPython's argparse as modelled in Cli.v (exact flags, unique prefixes, --opt=value, -oVALUE, -xy chains, nargs='?', choices, "
        "mutually exclusive groups, required positionals); validated on every run, not verified",
        "lxml parsing from names/streams/bytes/str, file encodings, print: exercised by the oracle, not modelled",
        "validate_F on decimal literals with at most 15 fractional digits (float comparisons replaced by exact ones)",
        "translator/xl_main.py reads main.py correctly (its tables are executed against the implementation on every run)"]
    run.level = "partial proof"
    run.notes.append("partial: argparse, lxml's parse functions, file/stream/bytes/str decoding and print are primitives of the model (validated by the "
                     "correspondence on every run); C15_check assumes that DiffFormatter renders as XV.TextFormat.format (C02's model) and the named "
                     "hypothesis old_formatter_nonempty; 'documents differ iff the script is non-empty' is C03's theorem")
    lib.conclude(run, ok, pinfo, corr, viols, None)


def replay(run, path):
    d = json.load(open(path))
    k = d.get("kind")
    tmp = tempfile.mkdtemp(prefix="c15-")
    try:
        if k in ("command", "entrypoints"):
            for name, txt in d["files"].items():
                open(os.path.join(tmp, name), "w", encoding="utf8").write(txt)
            argv = [os.path.join(tmp, a) if a in d["files"] else a for a in d["argv"]]
            res = run_command("diff_command", argv)
            if isinstance(res["status"], str):
                print("status:", res["status"], res["stderr"][-300:])
                return 1 if res["status"].startswith("exc:") else 0
            if d.get("intent"):
                it = dict(d["intent"], files=[os.path.join(tmp, x) for x in d["intent"]["files"]])
                w = oracle_intent(it, res)
                if w:
                    print(w)
                    return 1
            if k == "entrypoints":
                c = res["calls"][0]
                w = oracle_entrypoints(c["args"][0], c["args"][1], c["kwargs"]["diff_options"], c["kwargs"]["formatter"])
            else:
                w = oracle_command(argv, res)
            print(w or "property holds on this input")
            return 1 if w else 0
        if k == "unit":
            from xmldiff import main as M
            r = getattr(M, d["fn"])(d["arg"])
            print("%s(%r) = %r" % (d["fn"], d["arg"], r))
            return 0 if isinstance(r, list) else 1
        if k == "encodings":
            w = oracle_encodings(d["left"], d["right"])
            print(w or "property holds on this input")
            return 1 if w else 0
        if k == "entrypoints-api":
            f1, f2 = os.path.join(tmp, "l.xml"), os.path.join(tmp, "r.xml")
            open(f1, "w").write(d["left"]); open(f2, "w").write(d["right"])
            w = oracle_entrypoints(f1, f2, d["opts"], d["spec"])
            print(w or "property holds on this input")
            return 1 if w else 0
        if k == "patch":
            w, _ = oracle_patch(tmp, d["left"], d["right"], random.Random(0))
            print(w or "property holds on this input")
            return 1 if w else 0
    finally:
        shutil.rmtree(tmp, ignore_errors=True)
    print("replay names a broken tie, not an input:", d.get("broken"))
    return 1
