"""C01 -- decided over the differ model; see harness/differ_props.py and DESIGN.md section 6."""
from harness import differ_props


def main(run):
    differ_props.main(run, "C01")


def replay(run, path):
    return differ_props.replay(run, path, "C01")
