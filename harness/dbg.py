"""Debug helper: print what the model renders for one differ case."""
import re, sys, json
from harness import lib, differ_corr

def decode(flat):
    def rep(m):
        nums = [int(x) for x in re.findall(r"\d+", m.group(0))]
        try:
            return '"' + "".join(chr(n) for n in nums) + '"'
        except Exception:
            return m.group(0)
    flat = flat.replace("%N", "").replace("%Z", "").replace("%nat", "")
    return re.sub(r"\[\d+(?:; \d+)*\]", rep, flat)

def show(l, r, opts, what="render"):
    c = differ_corr.build_case(l, r, opts)
    pre = differ_corr.PRE % "check_rcase" + "\nRequire Import XV.Render XV.Path XV.Spec.\nDefinition c : rcase := %s.\n" % c["term"]
    if what == "render":
        term = "match dscript (fst (fst c)) with Some s => render_script (pe_of (snd (fst c))) 0 (dL (fst (fst c))) s | None => None end"
    elif what == "checks":
        term = "(check_match (fst (fst c)), check_script (fst (fst c)), check_render c)"
    rc, out = lib.coq_eval("dbg", pre, term)
    print(decode(out)[:6000])
    print("IMPL:", c["raw"])

if __name__ == "__main__":
    d = json.load(open(sys.argv[1]))
    k = d["disagreeing_cases"][int(sys.argv[2]) if len(sys.argv) > 2 else 0]
    print(k)
    show(k["left"], k["right"], {kk: (vv if kk != "uniqueattrs" else [tuple(x) if isinstance(x, list) else x for x in vv]) for kk, vv in k["opts"].items()}, sys.argv[3] if len(sys.argv) > 3 else "render")
