"""Encoding lxml trees as Gallina forests (ids = pre-order index), and running
the implementation's Differ while naming nodes by id."""
from lxml import etree
from harness.lib import coq_str, coq_ostr, coq_list


def is_comment(e):
    return e.tag is etree.Comment


def supported(e):
    """Only elements and comments below the root (no PIs / entities)."""
    return all(n.tag is etree.Comment or isinstance(n.tag, str) for n in e.iter())


class Enc:
    """Pre-order numbering of a tree; keeps the element proxies alive."""

    def __init__(self, root):
        self.root = root
        self.order = list(root.iter())
        self.ids = {id(e): i for i, e in enumerate(self.order)}
        self.keep = list(self.order)

    def idof(self, e):
        return self.ids[id(e)]

    def add(self, e, i):
        self.ids[id(e)] = i
        self.keep.append(e)

    def n(self):
        return len(self.order)


def coq_label(e):
    if is_comment(e):
        tag, attrs = "TComment", "[]"
    else:
        tag = "(TElem %s)" % coq_str(e.tag)
        attrs = coq_list(["(%s, %s)" % (coq_str(k), coq_str(v)) for k, v in e.attrib.items()])
    return "(Lab %s %s %s %s)" % (tag, attrs, coq_ostr(e.text), coq_ostr(e.tail))


def coq_forest(enc):
    kids = coq_list(["(%d, %s)" % (enc.idof(e), coq_list([str(enc.idof(c)) for c in e])) for e in enc.order if len(e)])
    labs = coq_list(["(%d, %s)" % (enc.idof(e), coq_label(e)) for e in enc.order])
    return "(mk_forest %s %s %d)" % (kids, labs, enc.n())


def coq_nsmap(m):
    return coq_list(["(%s, %s)" % (coq_ostr(k), coq_str(v)) for k, v in m.items()])


def coq_uattr(u):
    if isinstance(u, str):
        return "(UA %s)" % coq_str(u)
    return "(UTA %s %s)" % (coq_str(u[0]), coq_str(u[1]))


def float_lit(x):
    if isinstance(x, int):
        x = float(x)
    return "(%s)%%float" % x.hex()


class DiffRun:
    """Runs Differ(**opts) on (L, R) step by step, recording everything the
    correspondence needs.  Nodes are named by pre-order id (left: ids of
    Differ.left = the deep copy; created nodes continue the numbering)."""

    def __init__(self, L, R, opts):
        from xmldiff import diff as xd
        self.opts = dict(opts)
        self.d = xd.Differ(**opts)
        self.d.set_trees(L, R)
        self.left = self.d.left
        self.lenc = Enc(self.left)
        self.renc = Enc(R)
        self.R = R
        self.lns = dict(self.left.nsmap)
        self.rns = dict(R.nsmap)

    def node_texts(self):
        d = self.d
        lt = {self.lenc.idof(e): d.node_text(e) for e in self.lenc.order if not is_comment(e)}
        rt = {self.renc.idof(e): d.node_text(e) for e in self.renc.order if not is_comment(e)}
        return lt, rt

    def leaf_table(self):
        """(text_l, text_r) -> ratio for every element pair and comment pair."""
        d = self.d
        tab = {}
        for a in self.lenc.order:
            for b in self.renc.order:
                if is_comment(a) != is_comment(b):
                    continue
                if is_comment(a):
                    d._sequencematcher.set_seqs(a.text, b.text)
                    tab[(a.text, b.text)] = d._sequence_ratio()
                else:
                    ta, tb = d.node_text(a), d.node_text(b)
                    if (ta, tb) not in tab:
                        tab[(ta, tb)] = d.leaf_ratio(a, b)
        return tab

    def match(self):
        m = self.d.match()
        # a matched node that is not a node of the two trees has no id: -1 (the C07 oracle reports it, and the model,
        # which only pairs nodes of the documents, disagrees)
        def ident(enc, e):
            try:
                return enc.idof(e)
            except KeyError:
                return -1
        self.matches = [(ident(self.lenc, a), ident(self.renc, b)) for a, b, _ in m]
        return self.matches

    def script(self):
        """Returns (actions with ids as Gallina iact terms, raw actions, states)
        or raises whatever the implementation raises."""
        lenc = self.lenc
        tree = self.left.getroottree()
        fresh = lenc.n()
        out, raw = [], []
        pending = None

        def nsm():
            m = dict((k, v) for k, v in self.lns.items() if k is not None)
            for a in raw:
                if type(a).__name__ == "InsertNamespace" and a.prefix is not None:
                    m[a.prefix] = a.uri
            return m

        problems = []

        def rs(path):
            try:
                r = tree.xpath(path, namespaces=nsm())
            except etree.XPathEvalError as ex:
                problems.append((path, "XPathEvalError: %s" % ex))
                return 0
            if len(r) != 1:
                problems.append((path, "selects %d nodes" % len(r)))
                return 0
            return lenc.idof(r[0])

        def first(path):
            try:
                return tree.xpath(path, namespaces=nsm())[0]
            except Exception:  # noqa
                return None
        for a in self.d.diff():
            if pending is not None:
                tg, pos, nid = pending
                if tg is not None:
                    lenc.add(tg[pos], nid)
                pending = None
            t = type(a).__name__
            raw.append(a)
            if t == "InsertNode":
                out.append("(IInsert %d %s %d %d)" % (rs(a.target), coq_str(a.tag), a.position, fresh))
                pending = (first(a.target), a.position, fresh)
                fresh += 1
            elif t == "InsertComment":
                out.append("(IInsertComment %d %d %s %d)" % (rs(a.target), a.position, coq_ostr(a.text), fresh))
                pending = (first(a.target), a.position, fresh)
                fresh += 1
            elif t == "MoveNode":
                out.append("(IMove %d %d %d)" % (rs(a.node), rs(a.target), a.position))
            elif t == "DeleteNode":
                out.append("(IDelete %d)" % rs(a.node))
            elif t == "RenameNode":
                out.append("(IRename %d %s)" % (rs(a.node), coq_str(a.tag)))
            elif t == "UpdateTextIn":
                out.append("(IText %d %s)" % (rs(a.node), coq_ostr(a.text)))
            elif t == "UpdateTextAfter":
                out.append("(ITail %d %s)" % (rs(a.node), coq_ostr(a.text)))
            elif t == "UpdateAttrib":
                out.append("(IUpdAttr %d %s %s)" % (rs(a.node), coq_str(a.name), coq_str(a.value)))
            elif t == "InsertAttrib":
                out.append("(IInsAttr %d %s %s)" % (rs(a.node), coq_str(a.name), coq_str(a.value)))
            elif t == "DeleteAttrib":
                out.append("(IDelAttr %d %s)" % (rs(a.node), coq_str(a.name)))
            elif t == "RenameAttrib":
                out.append("(IRenAttr %d %s %s)" % (rs(a.node), coq_str(a.oldname), coq_str(a.newname)))
            elif t == "InsertNamespace":
                out.append("(IInsNs %s %s)" % (coq_ostr(a.prefix), coq_str(a.uri)))
            elif t == "DeleteNamespace":
                out.append("(IDelNs %s)" % coq_ostr(a.prefix))
            else:
                raise ValueError("unknown action " + t)
        self.raw = raw
        if problems:
            # the implementation emitted a path that cannot be resolved to exactly one node
            raise PathProblem(*problems[0])
        return out


class PathProblem(Exception):
    pass
