"""Correspondence between xmldiff.diff.Differ and XV.Matcher / XV.Differ."""
import json
from lxml import etree
from harness import lib, gen, treeenc
from harness.lib import coq_str, coq_list
from harness.treeenc import DiffRun, coq_forest, coq_nsmap, coq_uattr, float_lit

PRE = """From Coq Require Import List NArith ZArith Bool PrimFloat. Import ListNotations.
Require Import XV.Str XV.Json XV.TextFormat XV.Forest XV.Matcher XV.Differ XV.DifferExec XV.RenderExec.
Definition case := rcase.
Definition check := %s.
"""

DEFAULT_UNIQ = ["{http://www.w3.org/XML/1998/namespace}id"]


def float_ok(x):
    return isinstance(x, int) or x ** 2 == x * x


def embed_pair(L, R, Ls):
    """Differ accepts any lxml Elements: hand the trees over as sub-elements of larger documents (same namespace
    declarations in scope); text after the element in its document: the same on both sides (so no action may mention
    it), for half of the embedded cases"""
    for t in (L, R):
        outer = etree.Element("outer", nsmap=t.nsmap)
        etree.SubElement(outer, "sibling").tail = "x"
        outer.append(t)
        t.tail = "after" if len(Ls) % 2 else None
        etree.SubElement(outer, "sibling")
    return L, R


def blank_pair(L, R):
    """trees as a program builds them: an absent text / tail is the EMPTY STRING rather than None, on both sides alike
    (every second absent field, by position)"""
    for t in (L, R):
        k = 0
        for e in t.iter():
            if not isinstance(e.tag, str):
                continue
            k += 1
            if e.text is None and k % 2:
                e.text = ""
            if e.tail is None and e is not t and k % 3 == 0:
                e.tail = ""
    return L, R


def build_case(Ls, Rs, opts):
    """Ls, Rs: XML strings.  Returns dict(term, desc, matches, raw (actions or exception name), run) or None if
    the case is outside the modelled fragment (float pow anomaly)."""
    L, R = etree.fromstring(Ls), etree.fromstring(Rs)
    desc = {"left": Ls, "right": Rs, "opts": {k: (v if not isinstance(v, tuple) else list(v)) for k, v in opts.items()}}
    opts = dict(opts)
    if opts.pop("_embed", False):
        embed_pair(L, R, Ls)
    if opts.pop("_blank", False):
        blank_pair(L, R)
    if not (treeenc.supported(L) and treeenc.supported(R)):
        return None
    run = DiffRun(L, R, opts)
    lforest, rforest = coq_forest(run.lenc), coq_forest(run.renc)   # before any mutation
    lt, rt = run.node_texts()
    tab = run.leaf_table()
    if not all(float_ok(v) for v in tab.values()):
        return None
    # the similarity-oracle laws the theorems take as premises, checked on every value seen
    from math import sqrt
    laws = []
    for (a, b), v in tab.items():
        if not (0 <= v <= 1):
            laws.append("leaf ratio %r outside [0,1] for %r / %r" % (v, a, b))
        if a == b and v != 1.0:
            laws.append("leaf ratio of equal texts is %r, not 1.0 (%r)" % (v, a))
        for n in (1, 2, 3, 7):
            if not sqrt((v ** 2 + 0.0 ** 2) / 2) <= sqrt((1.0 ** 2 + 0.0 ** 2) / 2):
                laws.append("combine(m,0,n) exceeds combine(1,0,n) for m=%r" % v)
            if sqrt((1.0 ** 2 + (n / n) ** 2) / 2) != 1.0:
                laws.append("combine(1,n,n) != 1.0 for n=%d" % n)
    matches = run.match()
    # C07 oracle on the matching, evaluated NOW (the script generation below mutates the left copy)
    from harness import oracles
    c07 = oracles.check_matches(run.left, run.R, run.d, list(run.d._matches), run.opts)
    try:
        script = run.script()
        sterm = "(Some %s)" % coq_list(script)
        raw = run.raw
    except treeenc.PathProblem as ex:
        # the implementation emitted a path that does not select exactly one node: cannot be
        # named by id; reported by the C04 oracle, not a correspondence case
        return {"term": None, "desc": desc, "matches": matches, "raw": list(run.raw), "path_problem": "%s %s" % ex.args,
                "run": run, "c07": c07, "laws": laws}
    except Exception as ex:  # noqa
        sterm, raw = "None", "exc:" + type(ex).__name__
    F = opts.get("F")
    F = 0.5 if F is None else F
    uniq = opts.get("uniqueattrs")
    uniq = DEFAULT_UNIQ if uniq is None else uniq
    o = "(MOpts float %s %s %s %s %s)" % (
        float_lit(F), coq_list([coq_uattr(u) for u in uniq]),
        "true" if opts.get("fast_match") else "false", "true" if opts.get("best_match") else "false",
        coq_list([coq_str(a) for a in opts.get("ignored_attrs", [])]))
    tabt = coq_list(["(%s, %s, %s)" % (coq_str(a), coq_str(b), float_lit(v)) for (a, b), v in tab.items()])
    term = "(DCase %s %s %s %s %s %s %s %s %s %s)" % (
        lforest, rforest, coq_nsmap(run.lns), coq_nsmap(run.rns), o, tabt,
        coq_list(["(%d, %s)" % (i, coq_str(t)) for i, t in lt.items()]),
        coq_list(["(%d, %s)" % (i, coq_str(t)) for i, t in rt.items()]),
        coq_list(["(%d, %d)" % p for p in matches]), sterm)
    # prefix policy: bindings of the left root, then those the right root contributes
    pe = penv_of(run.lns, run.rns)
    pet = coq_list(["(%s, %s)" % (coq_str(u), lib.coq_ostr(p)) for u, p in pe.items()])
    if isinstance(raw, str):
        gt = "None"
    else:
        from harness.patcher_corr import coq_gaction
        gt = "(Some %s)" % coq_list([coq_gaction(a) for a in raw])
    term = "(%s, %s, %s)" % (term, pet, gt)
    return {"term": term, "desc": desc, "matches": matches, "raw": raw, "run": run, "c07": c07, "laws": laws}


def penv_of(lns, rns):
    """URI -> prefix lxml prints for a created node: the binding of the left root; else what Differ.diff registered
    process-wide from the right root -- etree.register_namespace overwrites, so of several prefixes the right root binds
    to one URI the LAST one wins."""
    pe = {}
    for k, v in lns.items():
        pe.setdefault(v, k)
    rpe = {}
    for k, v in rns.items():
        if k is not None:
            rpe[v] = k
        else:
            rpe.setdefault(v, k)
    for v, k in rpe.items():
        pe.setdefault(v, k)
    return pe


def in_model_domain(desc):
    L, R = etree.fromstring(desc["left"]), etree.fromstring(desc["right"])
    if L.nsmap.get(None) != R.nsmap.get(None):
        return False
    import re
    if any(k is not None and re.match(r"ns\d+", k, flags=re.ASCII) for k in list(L.nsmap) + list(R.nsmap)):
        return False
    if len(set(L.nsmap.values())) != len(L.nsmap):
        return False        # two prefixes for one URI on the left root: open finding two-prefixes-one-uri-on-left-root
    for root in (L, R):
        top = set(root.nsmap.values())
        if any(set(e.nsmap.values()) - top for e in root.iter() if isinstance(e.tag, str)):
            return False
    return True


def gen_inputs(run, rng, n_random, exhaustive_nodes=0, option_sets=None, **genkw):
    """Yield (Ls, Rs, opts)."""
    option_sets = option_sets or gen.OPTION_SETS
    out = []
    if exhaustive_nodes:
        trees = gen.all_trees(exhaustive_nodes)
        for a in trees:
            for b in trees:
                out.append((a, b, {}))
    for _ in range(n_random):
        L, R = gen.gen_pair(rng, 8, **genkw)
        opts = rng.choice(option_sets)
        out.append((etree.tostring(L).decode(), etree.tostring(R).decode(), opts))
    return out


def run_corr(name, inputs, check="check_rcase", chunk=150):
    """Returns dict(name, cases, bad, log, describe, built=list of case dicts)"""
    built = []
    skipped = 0
    for (l, r, o) in inputs:
        c = build_case(l, r, o)
        if c is None:
            skipped += 1
            continue
        built.append(c)
    # inputs outside the model's stated domain (namespaces not declared on the roots, or a
    # changed default namespace: recorded known findings) are evaluated by the oracles only
    withterm = [c for c in built if c["term"] is not None and in_model_domain(c["desc"])]
    bad, log = lib.run_cases(name, PRE % check, [c["term"] for c in withterm], chunk=chunk)
    return {"name": "Differ.match/diff vs XV.Matcher/XV.Differ (%s)" % check, "cases": len(withterm), "bad": bad, "log": log,
            "describe": lambda i: withterm[i]["desc"], "built": built, "skipped": skipped}
