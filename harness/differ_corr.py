"""Correspondence between xmldiff.diff.Differ and XV.Matcher / XV.Differ."""
import json
from lxml import etree
from harness import lib, gen, treeenc
from harness.lib import coq_str, coq_list
from harness.treeenc import DiffRun, coq_forest, coq_nsmap, coq_uattr, float_lit

PRE = """From Coq Require Import List NArith ZArith Bool PrimFloat. Import ListNotations.
Require Import XV.Str XV.Json XV.TextFormat XV.Forest XV.Matcher XV.Differ XV.DifferExec XV.RenderExec.
Definition case := rcase.
Definition check := %s.
"""

DEFAULT_UNIQ = ["{http://www.w3.org/XML/1998/namespace}id"]


def float_ok(x):
    return isinstance(x, int) or x ** 2 == x * x


def build_case(Ls, Rs, opts):
    """Ls, Rs: XML strings.  Returns dict(term, desc, matches, raw (actions or exception name), run) or None if
    the case is outside the modelled fragment (float pow anomaly)."""
    L, R = etree.fromstring(Ls), etree.fromstring(Rs)
    desc = {"left": Ls, "right": Rs, "opts": {k: (v if not isinstance(v, tuple) else list(v)) for k, v in opts.items()}}
    if not (treeenc.supported(L) and treeenc.supported(R)):
        return None
    run = DiffRun(L, R, opts)
    lforest, rforest = coq_forest(run.lenc), coq_forest(run.renc)   # before any mutation
    lt, rt = run.node_texts()
    tab = run.leaf_table()
    if not all(float_ok(v) for v in tab.values()):
        return None
    matches = run.match()
    try:
        script = run.script()
        sterm = "(Some %s)" % coq_list(script)
        raw = run.raw
    except treeenc.PathProblem as ex:
        # the implementation emitted a path that does not select exactly one node: cannot be
        # named by id; reported by the C04 oracle, not a correspondence case
        return {"term": None, "desc": desc, "matches": matches, "raw": "PathProblem:%s" % (ex.args,), "run": run}
    except Exception as ex:  # noqa
        sterm, raw = "None", "exc:" + type(ex).__name__
    F = opts.get("F")
    F = 0.5 if F is None else F
    uniq = opts.get("uniqueattrs")
    uniq = DEFAULT_UNIQ if uniq is None else uniq
    o = "(MOpts float %s %s %s %s %s)" % (
        float_lit(F), coq_list([coq_uattr(u) for u in uniq]),
        "true" if opts.get("fast_match") else "false", "true" if opts.get("best_match") else "false",
        coq_list([coq_str(a) for a in opts.get("ignored_attrs", [])]))
    tabt = coq_list(["(%s, %s, %s)" % (coq_str(a), coq_str(b), float_lit(v)) for (a, b), v in tab.items()])
    term = "(DCase %s %s %s %s %s %s %s %s %s %s)" % (
        lforest, rforest, coq_nsmap(run.lns), coq_nsmap(run.rns), o, tabt,
        coq_list(["(%d, %s)" % (i, coq_str(t)) for i, t in lt.items()]),
        coq_list(["(%d, %s)" % (i, coq_str(t)) for i, t in rt.items()]),
        coq_list(["(%d, %d)" % p for p in matches]), sterm)
    # prefix policy: bindings of the left root, then those the right root contributes
    pe = {}
    for m in (run.lns, run.rns):
        for k, v in m.items():
            pe.setdefault(v, k)
    pet = coq_list(["(%s, %s)" % (coq_str(u), lib.coq_ostr(p)) for u, p in pe.items()])
    if isinstance(raw, str):
        gt = "None"
    else:
        from harness.patcher_corr import coq_gaction
        gt = "(Some %s)" % coq_list([coq_gaction(a) for a in raw])
    term = "(%s, %s, %s)" % (term, pet, gt)
    return {"term": term, "desc": desc, "matches": matches, "raw": raw, "run": run}


def gen_inputs(run, rng, n_random, exhaustive_nodes=0, option_sets=None, **genkw):
    """Yield (Ls, Rs, opts)."""
    option_sets = option_sets or gen.OPTION_SETS
    out = []
    if exhaustive_nodes:
        trees = gen.all_trees(exhaustive_nodes)
        for a in trees:
            for b in trees:
                out.append((a, b, {}))
    for _ in range(n_random):
        L, R = gen.gen_pair(rng, 8, **genkw)
        opts = rng.choice(option_sets)
        out.append((etree.tostring(L).decode(), etree.tostring(R).decode(), opts))
    return out


def run_corr(name, inputs, check="check_rcase", chunk=150):
    """Returns dict(name, cases, bad, log, describe, built=list of case dicts)"""
    built = []
    skipped = 0
    for (l, r, o) in inputs:
        c = build_case(l, r, o)
        if c is None:
            skipped += 1
            continue
        built.append(c)
    withterm = [c for c in built if c["term"] is not None]
    bad, log = lib.run_cases(name, PRE % check, [c["term"] for c in withterm], chunk=chunk)
    return {"name": "Differ.match/diff vs XV.Matcher/XV.Differ (%s)" % check, "cases": len(withterm), "bad": bad, "log": log,
            "describe": lambda i: withterm[i]["desc"], "built": built, "skipped": skipped}
