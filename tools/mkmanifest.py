#!/usr/bin/env python3
"""Writes /verif/MANIFEST.json from the table below (one entry per claimed property)."""
import json, os
HERE = os.path.dirname(os.path.dirname(os.path.abspath(__file__)))
props = [json.loads(l) for l in open(os.path.join(HERE, "properties.jsonl"))]

NOTE = ("Trusted: Coq 8.16.1 kernel (vm_compute used; no native_compute), the Python correspondence harness, "
        "translator/xlate.py for generated tables, and the interface models of lxml/CPython named in DESIGN.md section 7. "
        "Axioms per theorem are recorded in the evidence file (Print Assumptions).")

TECH_H = "Coq proof about a hand-written model + differential correspondence"
TECH_T = "Coq proof over translator-generated tables/programs + differential correspondence"
CLAIMS = {
 "C01": ("proof", "C01_script_sound / C01_every_matching: for every similarity oracle, every option combination (they only select the matching) and documents of any size, the model of Differ.diff returns a script that the documented semantics accepts action by action and that turns L into a document equivalent to R; C01_roundtrip: the patcher programs regenerated from patch.py on every run replay that script (patcher_refines_spec, getpath_unique). Tied to /repo by differential execution of matcher, script generation (action by action), path rendering and patcher, plus an independent strict interpreter and the shipped patch_tree as search oracles. Partial in that lxml/libxml2 (XPath, getpath, prefix choice) is modelled at its interface; namespace declarations below the root and changed default namespaces are recorded known findings.", TECH_H + " (differ) / " + TECH_T + " (patcher)"),
 "C02": ("proof", "Generic theorem parse(format acts) = acts with one action per line for all well-formed action lists, instantiated to tables the translator regenerates from DiffFormatter/DiffParser on every run (C02_tables_ok by vm_compute); json/str helper models validated exhaustively over a critical alphabet on every run; round-trip and diff_texts->patch_text pipeline oracles search the implementation.", TECH_T),
 "C03": ("proof", "C03_equal_empty (equal documents give the identity matching and the empty script under every option combination incl. fast_match and best_match, for every similarity oracle satisfying the stated laws), C03_empty_equal / C03_differ_nonempty (converse, from gen_script_sound), C03_formatter_empty. Correspondence as C01; exhaustive tree-vs-copy scope under all option sets.", TECH_H),
 "C04": ("proof", "C04_getpath_unique (every path the differ renders selects exactly its node under the multi-match evaluator and carries an index), C04_path_roundtrip, C04_patcher_progs_expected (generated patcher programs), C04_patcher_refines_spec, C04_asserts_unreachable, C04_patch_replays_script. The getpath model is compared with lxml's strings on every emitted action of every run. Partial: lxml's prefix choice is a policy oracle (penv); undeclared-at-root namespaces are a recorded known finding.", TECH_H + " / " + TECH_T),
 "C05": ("proof", "C05_applicable: the script is accepted by the strict interpreter of the documented semantics, with each sentence of the property as a clause on every prefix state (attribute present/absent, positions within 0..#children not counting the moved node, no move into own subtree, delete only of childless nodes); C04_asserts_unreachable covers python -O. Correspondence as C01; independent Python strict interpreter as search oracle.", TECH_H),
 "C06": ("proof", "PARTIAL PROOF: the object-level state machines are proved (C06_differ_history / _repeat / _trace for any history of clear/set_trees/match/diff calls, C06_patcher_history, C06_formatter_history, C06_iteration_order = hash-seed independence of update_node_attr), over shapes the translator pins on every run and operation-sequence correspondence on single instances. Input non-mutation, lxml's process-global prefix registry and hash seeds are runtime facts a pure model cannot state: they are MONITORED (serialise before/after, adversarial earlier diffs, subprocesses under 5 hash seeds) -- testing, labelled so. Two open known findings (global prefix registry).", TECH_H + " + runtime monitors"),
 "C07": ("proof", "match_valid / match_total / unique-attribute clause proved for every similarity oracle (hence every ratio mode) and all three strategies over the Gallina model of Differ.match; model tied to /repo by differential execution (matching compared pair by pair, node_text and every node_ratio input) on generated and exhaustive small documents, incl. trees handed over as sub-elements.", TECH_H),
 "C12": ("proof", "Gallina model of utils.longest_common_subsequence; C12_total, C12_valid, C12_maximal proved for arbitrary predicates and lengths; model tied to /repo by differential execution on every 0/1 relation up to 3x3 (4x3 thorough) plus seeded larger and long permuted sequences; DP oracle searches the implementation when the tie breaks.", TECH_H),
 "C13": ("proof", "C13_empty (documents differing only in ignored attributes give the empty script), C13_no_mention (no action names an ignored attribute, for every matching), C13_roundtrip (result equals R up to ignored attributes), C13_right_invisible. Correspondence as C01 with ignored-attribute option sets.", TECH_H),
 "C17": ("proof", "C17_effective (every non-namespace action changes the document: run_checked; alignment moves via LCS maximality), C17_created_not_deleted, C17_bounds (all seven counting bounds), for every valid matching. Correspondence as C01 incl. wide documents; identity-based no-op detection and counts as search oracle.", TECH_H),
}
REASON_PENDING = "check not registered yet in this commit: model/correspondence exist or are being built, theorems not yet closed (see DESIGN.md section 9)"

checks, na = [], []
for p in props:
    pid = p["id"]
    if pid in CLAIMS:
        cat, text, tech = CLAIMS[pid]
        checks.append({
            "property_id": pid, "quick_cmd": "./check %s --tier quick" % pid, "thorough_cmd": "./check %s --tier thorough" % pid,
            "evidence_file": "evidence/%s.json" % pid, "replay_cmd_template": "./check %s --replay {path}" % pid, "engine": "coq",
            "level_claimed": {"category": cat, "text": text, "design_ref": "DESIGN.md section 6, %s" % pid},
            "level_note": NOTE, "technique": tech})
    else:
        na.append({"property_id": pid, "reason": REASON_PENDING})
m = {"version": 1, "setup_cmd": "./setup.sh",
     "hooks": {"guard": "XMLDIFF_VERIF", "enable": "no source hooks are needed: checks import /repo's working tree through PYTHONPATH and observe public attributes; XMLDIFF_VERIF=1 is exported by ./check for completeness",
               "baseline_off_cmd": "cd /repo && /venv/bin/python -m pytest -ra -q -p no:cacheprovider --timeout=900 --continue-on-collection-errors",
               "source_commits": [], "add_only": True},
     "engines": [{"name": "coq", "path": "coq/", "serves_properties": sorted(CLAIMS),
                  "kind_free_text": "Coq 8.16.1 development (models, proofs, one property file per property) + fail-closed Python-ast translator + Python correspondence harness"}],
     "checks": checks, "not_applicable": na, "notes": "See DESIGN.md. Fix commits in /repo are listed in known_findings.json."}
json.dump(m, open(os.path.join(HERE, "MANIFEST.json"), "w"), indent=1)
print("claimed:", sorted(CLAIMS), "pending:", [x["property_id"] for x in na])
