#!/usr/bin/env python3
"""Writes /verif/MANIFEST.json from the table below (one entry per claimed property)."""
import json, os
HERE = os.path.dirname(os.path.dirname(os.path.abspath(__file__)))
props = [json.loads(l) for l in open(os.path.join(HERE, "properties.jsonl"))]

NOTE = ("Trusted: Coq 8.16.1 kernel (vm_compute used; no native_compute), the Python correspondence harness, "
        "translator/xlate.py for generated tables, and the interface models of lxml/CPython named in DESIGN.md section 7. "
        "Axioms per theorem are recorded in the evidence file (Print Assumptions).")

CLAIMS = {
 "C02": ("proof", "Generic theorem parse(format acts) = acts with one action per line for all well-formed action lists, instantiated to tables the translator regenerates from DiffFormatter/DiffParser on every run (C02_tables_ok by vm_compute); json/str helper models validated exhaustively over a critical alphabet on every run; round-trip and diff_texts->patch_text pipeline oracles search the implementation.",
         "Coq proof over translator-generated tables + differential correspondence"),
 "C07": ("proof", "match_valid / match_total / unique-attribute clause proved for every similarity oracle (hence every ratio mode) and all three strategies over the Gallina model of Differ.match; model tied to /repo by differential execution (matching compared pair by pair, node_text and every node_ratio input) on generated and exhaustive small documents.",
         "Coq proof about a hand-written model + differential correspondence"),
 "C12": ("proof", "Gallina model of utils.longest_common_subsequence; C12_total, C12_valid, C12_maximal proved for arbitrary predicates and lengths; model tied to /repo by differential execution on every 0/1 relation up to 3x3 (4x3 thorough) plus seeded larger ones; DP oracle searches the implementation when the tie breaks.",
         "Coq proof about a hand-written model + differential correspondence"),
}
REASON_PENDING = "check not registered yet in this commit: model/correspondence exist or are being built, theorems not yet closed (see DESIGN.md section 9)"

checks, na = [], []
for p in props:
    pid = p["id"]
    if pid in CLAIMS:
        cat, text, tech = CLAIMS[pid]
        checks.append({
            "property_id": pid, "quick_cmd": "./check %s --tier quick" % pid, "thorough_cmd": "./check %s --tier thorough" % pid,
            "evidence_file": "evidence/%s.json" % pid, "replay_cmd_template": "./check %s --replay {path}" % pid, "engine": "coq",
            "level_claimed": {"category": cat, "text": text, "design_ref": "DESIGN.md section 6, %s" % pid},
            "level_note": NOTE, "technique": tech})
    else:
        na.append({"property_id": pid, "reason": REASON_PENDING})
m = {"version": 1, "setup_cmd": "./setup.sh",
     "hooks": {"guard": "XMLDIFF_VERIF", "enable": "no source hooks are needed: checks import /repo's working tree through PYTHONPATH and observe public attributes; XMLDIFF_VERIF=1 is exported by ./check for completeness",
               "baseline_off_cmd": "cd /repo && /venv/bin/python -m pytest -ra -q -p no:cacheprovider --timeout=900 --continue-on-collection-errors",
               "source_commits": [], "add_only": True},
     "engines": [{"name": "coq", "path": "coq/", "serves_properties": sorted(CLAIMS),
                  "kind_free_text": "Coq 8.16.1 development (models, proofs, one property file per property) + fail-closed Python-ast translator + Python correspondence harness"}],
     "checks": checks, "not_applicable": na, "notes": "See DESIGN.md. Fix commits in /repo are listed in known_findings.json."}
json.dump(m, open(os.path.join(HERE, "MANIFEST.json"), "w"), indent=1)
print("claimed:", sorted(CLAIMS), "pending:", [x["property_id"] for x in na])
