#!/bin/sh
# usage: tools/runall_mut.sh C03-m1 C03-m2 ...   (runs the check of the mutation's own property)
for id in "$@"; do
  p=${id%%-*}
  out=$(timeout 1500 tools/runmut.sh seeded/$id/patch.diff $p 2>&1 | grep -E "VIOLATION|KNOWN|done:" )
  v=$(echo "$out" | grep -c "^VIOLATION")
  n=$(echo "$out" | grep -c "no-failing-input-found")
  echo "$id: violations=$v no_input=$n"
done
