#!/bin/sh
# usage: tools/impl_coverage.sh [tier]     (development aid, not a registered check)
# Measures which statements and branches of /repo/xmldiff/*.py the quick (or thorough) tier of ALL checks
# executes in the harness process (correspondence inputs + oracles; subprocess monitors are not traced),
# i.e. how much of the implementation the tie between model and code actually exercises.
# Scratch files under /var/tmp/xvcov; prints coverage.py's report with the missing lines/branches.
TIER=${1:-quick}
OUT=/var/tmp/xvcov; rm -rf $OUT; mkdir -p $OUT
cd "$(dirname "$0")/.."
for i in 01 02 03 04 05 06 07 08 09 10 11 12 13 14 15 16 17 18; do
  PYTHONPATH=/repo:$PWD PYTHONHASHSEED=0 XMLDIFF_VERIF=1 PYTHONDONTWRITEBYTECODE=1 COVERAGE_FILE=$OUT/.coverage.C$i \
    /venv/bin/python -m coverage run --branch --include='/repo/xmldiff/*' -m harness.main C$i --tier $TIER > $OUT/C$i.log 2>&1
  echo "C$i exit=$?"
done
cd $OUT && COVERAGE_FILE=$OUT/.coverage /venv/bin/python -m coverage combine --keep .coverage.C* > /dev/null 2>&1
COVERAGE_FILE=$OUT/.coverage /venv/bin/python -m coverage report --include='/repo/xmldiff/*' -m
