#!/usr/bin/env python3
"""Runs every seeded change under /verif/seeded against the check of its own property (and extra
checks listed in EXTRA) using tools/runmut.sh (scratch copies; /repo itself is not touched), and
records the outcome in seeded/<id>/result.json.  usage: run_seeded_all.py [ids...]"""
import json, os, re, subprocess, sys
from concurrent.futures import ThreadPoolExecutor
HERE = os.path.dirname(os.path.dirname(os.path.abspath(__file__)))
EXTRA = {"C04-m2": ["C06"], "C10-m3": ["C16"], "C05-m2": ["C06"], "C14-r2m2": ["C08"], "C13-r2m3": ["C15"], "C07-r2m1": ["C06"], "C01-r2m3": ["C06"], "C13-r3m2": ["C06", "C15"], "C07-r3m2": ["C06"], "C06-r3m2": ["C07"], "C16-r3m1": ["C08"], "C15-r3m2": ["C14"], "C14-r3m2": ["C15"], "C04-r3m1": ["C01"], "C04-r3m2": ["C01"], "C03-r4m2": ["C06"], "C15-r4m1": ["C06", "C13"], "C13-r4m2": ["C06"], "C06-r4m1": ["C17"], "C11-r4m1": ["C08"], "C11-r4m2": ["C08", "C09"], "C09-r4m2": ["C08", "C11"], "C14-r4m2": ["C15"], "C16-r4m1": ["C09"], "C10-r4m2": ["C08", "C16"], "C08-r4m1": ["C14"], "C01-r5m2": ["C15"], "C15-r5m1": ["C01"], "C02-r5m2": ["C14"], "C06-r5m1": ["C13"], "C07-r5m2": ["C12"], "C09-r5m2": ["C01", "C05"], "C03-r5m1": ["C07"], "C14-r5m2": ["C08"], "C13-r5m2": ["C07"]}
ids = sys.argv[1:] or sorted(d for d in os.listdir(os.path.join(HERE, "seeded")) if os.path.isdir(os.path.join(HERE, "seeded", d)))

def one(sid):
    prop = sid.split("-")[0]
    res = {}
    try:
        also = [c for c in json.load(open(os.path.join(HERE, "seeded", sid, "meta.json"))).get("also", []) if re.fullmatch(r"C\d\d", str(c))]
    except Exception:
        also = []
    chks = [prop] + [c for c in EXTRA.get(sid, []) + (also if any(t in sid for t in ("-r6", "-r7", "-r8")) else []) if c != prop]
    for chk in dict.fromkeys(chks):
        p = subprocess.run(["tools/runmut.sh", "seeded/%s/patch.diff" % sid, chk], cwd=HERE, stdout=subprocess.PIPE,
                           stderr=subprocess.STDOUT, text=True, timeout=3000)
        out = p.stdout
        viol = re.findall(r"^VIOLATION .*$", out, flags=re.M)
        what = re.findall(r"\]\s+-> (.*)$", out, flags=re.M)
        res[chk] = {"violation_lines": len(viol), "no_failing_input_found": sum("no-failing-input-found" in v for v in viol),
                    "first": (what[0][:300] if what else "")}
    caught = [c for c, r in res.items() if r["violation_lines"]]
    with_input = [c for c, r in res.items() if r["violation_lines"] > r["no_failing_input_found"]]
    json.dump({"id": sid, "checks": res, "caught_by": caught, "with_failing_input": with_input},
              open(os.path.join(HERE, "seeded", sid, "result.json"), "w"), indent=1)
    return sid, caught, with_input

with ThreadPoolExecutor(int(os.environ.get("SEEDED_PAR", "3"))) as ex:
    for sid, caught, wi in ex.map(one, ids):
        print(sid, "caught by", caught, "with input", wi, flush=True)
