#!/usr/bin/env python3
"""usage: confirm_round6.py <region dir, e.g. /tmp/mut6/R03> ...
Confirms every out/m<i> of a round-6 region (tools/confirm_mut.py) and stores it as seeded/<property>-r6<RR>m<i>."""
import json, os, subprocess, sys
for reg in sys.argv[1:]:
    rr = os.path.basename(reg.rstrip("/"))[1:]
    for i in (1, 2, 3, 4):
        d = os.path.join(reg, "out", "m%d" % i)
        if not all(os.path.exists(os.path.join(d, f)) for f in ("patch.diff", "demo.py", "meta.json")):
            continue
        prop = json.load(open(os.path.join(d, "meta.json")))["property"]
        sid = "%s-r6%sm%d" % (prop, rr, i)
        p = subprocess.run([sys.executable, os.path.join(os.path.dirname(__file__), "confirm_mut.py"), d, sid], stdout=subprocess.PIPE, stderr=subprocess.STDOUT, text=True)
        print(sid, p.stdout.strip().splitlines()[-1], flush=True)
        if "NOT CONFIRMED" in p.stdout:
            print(p.stdout[-900:])
