#!/bin/sh
# usage: tools/runmut.sh <patch.diff> <ID> [<ID> ...]
# Runs the named checks against a scratch copy of /repo with the patch applied,
# from a scratch copy of /verif (so that concurrently running builds and the
# generated files in /verif/coq/theories/Gen are not disturbed).  Development aid;
# the registered checks themselves always run in /verif against /repo.
set -e
PATCH="$(readlink -f "$1")"; shift
S=/var/tmp/xv-mut-$$
mkdir -p $S
git -C /repo worktree add -q --detach $S/repo HEAD
( cd $S/repo && git apply "$PATCH" )
rsync -a --exclude .git --exclude replays --exclude cases /verif/ $S/verif/ || true
cd $S/verif
for id in "$@"; do
  echo "=== $id on $(basename $(dirname $PATCH))"
  XMLDIFF_REPO=$S/repo ./check $id --tier quick 2>&1 | grep -v WARNING | grep -E "VIOLATION|KNOWN|done:|->|BROKEN|correspondence" | head -12
done
cd /
git -C /repo worktree remove --force $S/repo
rm -rf $S
