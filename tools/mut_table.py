#!/usr/bin/env python3
"""Prints the markdown table of DESIGN.md section 11 from seeded/*/meta.json and result.json."""
import json, os, glob
HERE = os.path.dirname(os.path.dirname(os.path.abspath(__file__)))
rows = []
for d in sorted(glob.glob(os.path.join(HERE, "seeded", "*"))):
    if not os.path.isdir(d):
        continue
    m = json.load(open(os.path.join(d, "meta.json")))
    r = json.load(open(os.path.join(d, "result.json"))) if os.path.exists(os.path.join(d, "result.json")) else {"caught_by": [], "with_failing_input": []}
    sid = os.path.basename(d)
    what = " ".join(m.get("summary", "").split())[:170]
    needs = " ".join(m.get("needs", "").split())[:150]
    caught = []
    for c in r["caught_by"]:
        caught.append(c + (" (failing input)" if c in r["with_failing_input"] else " (tie broken, no-failing-input-found)"))
    rows.append("| %s | %s | %s | %s |" % (sid, what.replace("|", "/"), needs.replace("|", "/"), "; ".join(caught) or "NOT CAUGHT"))
print("| id | change | needs | caught by |\n|---|---|---|---|")
print("\n".join(rows))
