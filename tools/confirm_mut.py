#!/usr/bin/env python3
"""usage: confirm_mut.py <mutation dir (patch.diff, demo.py, meta.json)> <seeded id> [checks...]
Confirms in a scratch worktree of /repo that (1) the patch applies, (2) the pinned test suite is unchanged
(123 passed), (3) demo.py fails with the patch and (4) passes without it; then stores the mutation under
/verif/seeded/<id>/ with what was run."""
import json, os, shutil, subprocess, sys, tempfile
src, sid = sys.argv[1], sys.argv[2]
S = tempfile.mkdtemp(prefix="xv-confirm-", dir="/var/tmp")
wt = os.path.join(S, "repo")
def sh(cmd, **kw):
    return subprocess.run(cmd, shell=True, stdout=subprocess.PIPE, stderr=subprocess.STDOUT, text=True, **kw)
try:
    sh("git -C /repo worktree add -q --detach %s HEAD" % wt)
    env = dict(os.environ, PYTHONPATH=wt, PYTHONHASHSEED="0")
    r0 = sh("/venv/bin/python %s/demo.py" % src, cwd=wt, env=env)
    ap = sh("git apply %s/patch.diff" % os.path.abspath(src), cwd=wt)
    t = sh("/venv/bin/python -m pytest -q -p no:cacheprovider 2>&1 | tail -1", cwd=wt, env=env)
    r1 = sh("/venv/bin/python %s/demo.py" % src, cwd=wt, env=env)
    res = {"patch_applies": ap.returncode == 0, "suite_with_patch": t.stdout.strip(),
           "demo_without_patch_exit": r0.returncode, "demo_with_patch_exit": r1.returncode,
           "demo_with_patch_output": r1.stdout[-600:]}
    ok = res["patch_applies"] and "123 passed" in res["suite_with_patch"] and r0.returncode == 0 and r1.returncode != 0
    print(json.dumps(res, indent=1)); print("CONFIRMED" if ok else "NOT CONFIRMED")
    if ok:
        dst = os.path.join("/verif/seeded", sid)
        os.makedirs(dst, exist_ok=True)
        for f in ("patch.diff", "demo.py"):
            shutil.copy(os.path.join(src, f), dst)
        meta = json.load(open(os.path.join(src, "meta.json")))
        meta.update({"id": sid, "base_commit": sh("git -C /repo rev-parse --short HEAD").stdout.strip(),
                     "confirmed": res,
                     "what_was_run": "scratch worktree of /repo: demo.py without the patch (exit 0), git apply patch.diff, pytest (123 passed, 1 known failure), demo.py with the patch (exit 1)"})
        json.dump(meta, open(os.path.join(dst, "meta.json"), "w"), indent=1)
finally:
    sh("git -C /repo worktree remove --force %s" % wt); shutil.rmtree(S, ignore_errors=True)
