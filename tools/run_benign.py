#!/usr/bin/env python3
"""usage: run_benign.py <dir with patch.diff [meta.json]> ...   (development aid)
Runs ALL 18 quick checks against each harmless change (scratch copies via tools/runmut.sh; /repo untouched) and
prints, per change, the checks that raised an alarm and whether they named a failing input."""
import json, os, re, subprocess, sys
from concurrent.futures import ThreadPoolExecutor
HERE = os.path.dirname(os.path.dirname(os.path.abspath(__file__)))
IDS = ["C%02d" % i for i in range(1, 19)]

def one(d):
    p = subprocess.run(["tools/runmut.sh", os.path.join(d, "patch.diff")] + IDS, cwd=HERE, stdout=subprocess.PIPE,
                       stderr=subprocess.STDOUT, text=True, timeout=7200)
    res, cur = {}, None
    for line in p.stdout.splitlines():
        m = re.match(r"=== (C\d\d) on", line)
        if m:
            cur = m.group(1); res[cur] = []
        elif cur and (line.startswith("VIOLATION") or "->" in line):
            res[cur].append(line[:400])
    out = {"dir": d, "alarms": {k: v for k, v in res.items() if any(x.startswith("VIOLATION") for x in v)}}
    json.dump(out, open(os.path.join(d, "benign_result.json"), "w"), indent=1)
    return out

with ThreadPoolExecutor(int(os.environ.get("BEN_PAR", "4"))) as ex:
    for r in ex.map(one, sys.argv[1:]):
        print("==", r["dir"])
        for k, v in r["alarms"].items():
            inp = any(x.startswith("VIOLATION") and "no-failing-input-found" not in x for x in v)
            print("   ", k, "FAILING-INPUT CLAIMED" if inp else "tie broken only", "|", (v[1] if len(v) > 1 else v[0])[:300])
        if not r["alarms"]:
            print("    no alarm")
        sys.stdout.flush()
