#!/bin/sh
# Build the framework from files on disk only (offline).
set -e
HERE="$(cd "$(dirname "$0")" && pwd)"
cd "$HERE"
export PYTHONPATH="${XMLDIFF_REPO:-/repo}:$HERE" PYTHONHASHSEED=0
if [ -f translator/xlate.py ]; then
  # exit status 3 = some target of the translator failed and its recorded reference tables are used (the checks of the
  # properties tied through that target report it); 2 = nothing usable
  /venv/bin/python translator/xlate.py "${XMLDIFF_REPO:-/repo}" coq/theories/Gen || [ $? -eq 3 ]
fi
cd coq
coq_makefile -f _CoqProject -o Makefile
timeout 3000 make -j16
