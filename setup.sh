#!/bin/sh
# Build the framework from files on disk only (offline).
set -e
HERE="$(cd "$(dirname "$0")" && pwd)"
cd "$HERE"
export PYTHONPATH="${XMLDIFF_REPO:-/repo}:$HERE" PYTHONHASHSEED=0
if [ -f translator/xlate.py ]; then
  /venv/bin/python translator/xlate.py "${XMLDIFF_REPO:-/repo}" coq/theories/Gen
fi
cd coq
coq_makefile -f _CoqProject -o Makefile
timeout 3000 make -j16
