#!/usr/bin/env python3
"""Fail-closed translator: stylised parts of /repo/xmldiff/*.py  ->  Gallina tables.

usage: xlate.py <repo> <outdir> [--record]

Every target has a grammar of the statement shapes it understands.  Anything
else (an extra statement, a different call, a new keyword argument) raises
Untranslatable, the translation aborts with exit status 2 and the checks treat
that as a broken tie between model and code.

Rigid glue functions whose *structure* is modelled by hand in the Coq
development (the parser's line loop, handle_action dispatchers, ...) are pinned
by comparing `ast.dump` of the function with the dump recorded in
translator/shapes.json (written by --record from a tree on which the
hand-written model was validated by the correspondence checks).
"""
import ast
import json
import os
import sys


class Untranslatable(Exception):
    pass


class Partial(Exception):
    """a plug-in translated everything but one sub-target (name, message): the other files have been written"""
    def __init__(self, name, msg):
        Exception.__init__(self, name, msg)
        self.name, self.msg = name, msg


def fail(msg, node=None):
    where = " (line %s)" % node.lineno if node is not None and hasattr(node, "lineno") else ""
    raise Untranslatable(msg + where)


def cstr(s):
    """Python str -> Gallina list N literal."""
    return "[" + ";".join(str(ord(c)) for c in s) + "]%N"


def clist(items):
    return "[" + "; ".join(items) + "]"


def get_class(tree, name):
    for c in tree.body:
        if isinstance(c, ast.ClassDef) and c.name == name:
            return c
    fail("class %s not found" % name)


def get_funcs(cls):
    out = {}
    for f in cls.body:
        if isinstance(f, ast.FunctionDef):
            out[f.name] = f
        elif isinstance(f, ast.Expr) and isinstance(f.value, ast.Constant):
            continue  # docstring
        elif isinstance(f, (ast.Assign, ast.Pass)):
            continue
        else:
            fail("unexpected class member in %s" % cls.name, f)
    return out


def argnames(f):
    a = f.args
    if a.posonlyargs or a.kwonlyargs or a.vararg or a.kwarg or a.defaults or a.kw_defaults:
        fail("unexpected argument shape in %s" % f.name, f)
    return [x.arg for x in a.args]


def body_nodoc(f):
    b = list(f.body)
    while b and isinstance(b[0], ast.Expr) and isinstance(b[0].value, ast.Constant) and isinstance(b[0].value.value, str):
        b = b[1:]
    return b


def is_attr(node, obj, attr=None):
    return (isinstance(node, ast.Attribute) and isinstance(node.value, ast.Name) and node.value.id == obj
            and (attr is None or node.attr == attr))


SHAPES = {}
RECORD = False
SHAPE_FILE = os.path.join(os.path.dirname(os.path.abspath(__file__)), "shapes.json")


class _Alpha(ast.NodeTransformer):
    """Rename the LOCAL variables of a function (names it assigns, loop / with / except targets, comprehension variables;
    not its parameters, not globals) to v0, v1, ... in order of first binding: a pinned shape is the function up to the
    spelling of its locals.  Semantics preserving, so two functions with the same normal form behave alike."""

    def __init__(self, fn):
        self.map = {}
        params = set()
        if isinstance(fn, (ast.FunctionDef, ast.Lambda)):
            a = fn.args
            params = {x.arg for x in a.posonlyargs + a.args + a.kwonlyargs}
            params |= {x.arg for x in (a.vararg, a.kwarg) if x is not None}
        declared = set()
        for n in ast.walk(fn):
            if isinstance(n, (ast.Global, ast.Nonlocal)):
                declared |= set(n.names)
        for n in ast.walk(fn):
            if isinstance(n, ast.Name) and isinstance(n.ctx, (ast.Store, ast.Del)) and n.id not in params and n.id not in declared:
                self.map.setdefault(n.id, "v%d" % len(self.map))
            elif isinstance(n, ast.ExceptHandler) and n.name and n.name not in params:
                self.map.setdefault(n.name, "v%d" % len(self.map))

    def visit_Name(self, n):
        if n.id in self.map:
            return ast.copy_location(ast.Name(id=self.map[n.id], ctx=n.ctx), n)
        return n

    def visit_ExceptHandler(self, n):
        self.generic_visit(n)
        if n.name in self.map:
            n.name = self.map[n.name]
        return n


def normal_dump(node):
    import copy
    node = copy.deepcopy(node)
    fns = [node] if isinstance(node, ast.FunctionDef) else []
    if fns:
        # drop the docstring
        b = node.body
        if b and isinstance(b[0], ast.Expr) and isinstance(b[0].value, ast.Constant) and isinstance(b[0].value.value, str) and len(b) > 1:
            node.body = b[1:]
    node = _Alpha(node).visit(node)
    return ast.dump(node)


def pin(key, node):
    d = normal_dump(node)
    if RECORD:
        SHAPES[key] = d
        return
    if key not in SHAPES:
        fail("no recorded shape for " + key)
    if SHAPES[key] != d:
        fail("the structure of %s differs from the one the hand-written model was validated against" % key, node)


# ---------------------------------------------------------------------------
# actions.py


def xl_actions(repo):
    t = ast.parse(open(os.path.join(repo, "xmldiff/actions.py")).read())
    sig = []
    for st in t.body:
        if isinstance(st, ast.ImportFrom):
            continue
        if isinstance(st, ast.Expr) and isinstance(st.value, ast.Constant):
            continue
        if not (isinstance(st, ast.Assign) and len(st.targets) == 1 and isinstance(st.targets[0], ast.Name)
                and isinstance(st.value, ast.Call) and isinstance(st.value.func, ast.Name)
                and st.value.func.id == "namedtuple" and len(st.value.args) == 2 and not st.value.keywords
                and all(isinstance(a, ast.Constant) and isinstance(a.value, str) for a in st.value.args)):
            fail("actions.py: unexpected statement", st)
        name = st.targets[0].id
        if st.value.args[0].value != name:
            fail("actions.py: namedtuple name differs from binding", st)
        sig.append((name, st.value.args[1].value.split()))
    return sig


# ---------------------------------------------------------------------------
# formatting.py : DiffFormatter


def xl_diff_formatter(repo):
    t = ast.parse(open(os.path.join(repo, "xmldiff/formatting.py")).read())
    cls = get_class(t, "DiffFormatter")
    fs = get_funcs(cls)
    # format: res = "<sep>".join(self._format_action(action) for action in diff); return res
    f = fs["format"]
    b = body_nodoc(f)
    try:
        assert argnames(f) == ["self", "diff", "orig_tree"] and len(b) == 2
        asg, ret = b
        assert isinstance(asg, ast.Assign) and isinstance(ret, ast.Return) and ret.value.id == asg.targets[0].id
        call = asg.value
        line_sep = call.func.value.value
        assert call.func.attr == "join" and isinstance(line_sep, str)
        g = call.args[0]
        assert isinstance(g, ast.GeneratorExp) and len(g.generators) == 1 and not g.generators[0].ifs
        assert is_attr(g.elt.func, "self", "_format_action") and g.elt.args[0].id == g.generators[0].target.id
        assert g.generators[0].iter.id == "diff"
    except (AssertionError, AttributeError, IndexError):
        fail("DiffFormatter.format has an unknown shape", f)
    f = fs["_format_action"]
    b = body_nodoc(f)
    try:
        assert len(b) == 1 and isinstance(b[0], ast.Return) and isinstance(b[0].value.op, ast.Mod)
        wrap = b[0].value.left.value
        assert isinstance(wrap, str) and wrap.count("%s") == 1 and wrap.count("%") == 1
        assert is_attr(b[0].value.right.func, "self", "handle_action")
    except (AssertionError, AttributeError, IndexError):
        fail("DiffFormatter._format_action has an unknown shape", f)
    f = fs["handle_action"]
    b = body_nodoc(f)
    try:
        assert len(b) == 3
        ret = b[2]
        field_sep = ret.value.func.value.value
        assert ret.value.func.attr == "join" and isinstance(field_sep, str)
        # the dispatch itself is pinned
        pin("DiffFormatter.handle_action.dispatch", ast.Module(body=b[:2], type_ignores=[]))
        assert ret.value.args[0].func.id == "method" and ret.value.args[0].args[0].id == "action"
    except (AssertionError, AttributeError, IndexError):
        fail("DiffFormatter.handle_action has an unknown shape", f)
    table = []
    for name, f in fs.items():
        if name in ("__init__", "prepare", "finalize", "format", "_format_action", "handle_action"):
            continue
        if not name.startswith("_handle_"):
            fail("DiffFormatter: unexpected method " + name, f)
        if argnames(f) != ["self", "action"]:
            fail("DiffFormatter.%s: unexpected arguments" % name, f)
        b = body_nodoc(f)
        if not (len(b) == 1 and isinstance(b[0], ast.Return) and isinstance(b[0].value, ast.Tuple)):
            fail("DiffFormatter.%s: body is not `return (..)`" % name, f)
        elts = b[0].value.elts
        if not (isinstance(elts[0], ast.Constant) and isinstance(elts[0].value, str)):
            fail("DiffFormatter.%s: first element is not a keyword string" % name, f)
        fields = []
        for e in elts[1:]:
            if is_attr(e, "action"):
                fields.append((e.attr, "ERaw"))
            elif (isinstance(e, ast.Call) and is_attr(e.func, "json", "dumps") and len(e.args) == 1
                  and not e.keywords and is_attr(e.args[0], "action")):
                fields.append((e.args[0].attr, "EJson"))
            elif (isinstance(e, ast.Call) and isinstance(e.func, ast.Name) and e.func.id == "str"
                  and len(e.args) == 1 and not e.keywords and is_attr(e.args[0], "action")):
                fields.append((e.args[0].attr, "EInt"))
            else:
                fail("DiffFormatter.%s: unknown field expression" % name, e)
        table.append((name[len("_handle_"):], elts[0].value, fields))
    return {"line_sep": line_sep, "wrap": wrap, "field_sep": field_sep, "table": table}


# ---------------------------------------------------------------------------
# patch.py : DiffParser


def xl_diff_parser(repo):
    t = ast.parse(open(os.path.join(repo, "xmldiff/patch.py")).read())
    cls = get_class(t, "DiffParser")
    fs = get_funcs(cls)
    for rigid in ("parse", "make_action", "_split"):
        if rigid not in fs:
            fail("DiffParser.%s missing" % rigid)
        pin("DiffParser." + rigid, fs[rigid])
    table = []
    for name, f in fs.items():
        if name in ("parse", "make_action", "_split"):
            continue
        if not name.startswith("_handle_"):
            fail("DiffParser: unexpected method " + name, f)
        params = [x.arg for x in f.args.args]
        if not params or params[0] != "self":
            fail("DiffParser.%s: no self" % name, f)
        params = params[1:]
        if f.args.kwonlyargs or f.args.kwarg or f.args.defaults or f.args.posonlyargs:
            fail("DiffParser.%s: unexpected kind of parameter" % name, f)
        more = f.args.vararg.arg if f.args.vararg else None      # def h(self, a, b, *more)
        rest = False
        b = body_nodoc(f)
        if not (len(b) == 1 and isinstance(b[0], ast.Return) and isinstance(b[0].value, ast.Call)
                and is_attr(b[0].value.func, "actions") and not b[0].value.keywords):
            fail("DiffParser.%s: body is not `return actions.X(...)`" % name, f)
        args = []
        for e in b[0].value.args:
            if isinstance(e, ast.Name) and e.id in params:
                args.append((params.index(e.id), "ERaw"))
            elif (more is not None and params and isinstance(e, ast.Call) and isinstance(e.func, ast.Attribute) and e.func.attr == "join"
                  and isinstance(e.func.value, ast.Constant) and e.func.value.value == "," and len(e.args) == 1 and not e.keywords
                  and ast.dump(e.args[0]) == ast.dump(ast.parse("(%s,) + %s" % (params[-1], more), mode="eval").body)):
                # ",".join((last,) + more): the last named parameter together with the surplus ones, verbatim
                args.append((len(params) - 1, "ERaw"))
                rest = True
            elif (isinstance(e, ast.Call) and isinstance(e.func, ast.Name) and e.func.id in ("int", "loads")
                  and len(e.args) == 1 and not e.keywords and isinstance(e.args[0], ast.Name) and e.args[0].id in params):
                args.append((params.index(e.args[0].id), "EInt" if e.func.id == "int" else "EJson"))
            else:
                fail("DiffParser.%s: unknown argument expression" % name, e)
        if (more is not None) != rest:
            fail("DiffParser.%s: *%s is not used as `\",\".join((last,) + %s)`" % (name, more, more), f)
        if rest and sum(1 for i, _ in args if i == len(params) - 1) != 1:
            fail("DiffParser.%s: the last parameter is used outside the join" % name, f)
        table.append((name[len("_handle_"):], b[0].value.func.attr, len(params), args, rest))
    # `loads` and `int` must be the real ones
    imports = [st for st in t.body if isinstance(st, (ast.Import, ast.ImportFrom))]
    ok = any(isinstance(st, ast.ImportFrom) and st.module == "json" and any(a.name == "loads" and a.asname is None for a in st.names)
             for st in imports)
    if not ok:
        fail("patch.py: `from json import loads` not found")
    return {"table": table}


# ---------------------------------------------------------------------------
# emit


def emit_text_tables(out, sig, fmt, par):
    L = []
    L.append("(* GENERATED by translator/xlate.py from /repo/xmldiff/{actions,formatting,patch}.py -- do not edit *)")
    L.append("From Coq Require Import List NArith. Import ListNotations.")
    L.append("Require Import XV.TextFormat.")
    L.append("Definition actions_sig : list (str * list str) := " +
             clist(["(%s, %s)" % (cstr(n), clist([cstr(f) for f in fl])) for n, fl in sig]) + ".")
    L.append("Definition fmt_line_sep : str := %s." % cstr(fmt["line_sep"]))
    pre, post = fmt["wrap"].split("%s")
    L.append("Definition fmt_wrap_pre : str := %s." % cstr(pre))
    L.append("Definition fmt_wrap_post : str := %s." % cstr(post))
    L.append("Definition fmt_field_sep : str := %s." % cstr(fmt["field_sep"]))
    L.append("Definition fmt_table : list fmt_entry := " + clist(
        ["{| fe_ctor := %s; fe_keyword := %s; fe_fields := %s |}" % (
            cstr(c), cstr(k), clist(["(%s, %s)" % (cstr(fn), e) for fn, e in fl])) for c, k, fl in fmt["table"]]) + ".")
    L.append("Definition parse_table : list parse_entry := " + clist(
        ["{| pe_method := %s; pe_ctor := %s; pe_nparams := %d; pe_args := %s; pe_rest := %s |}" % (
            cstr(m), cstr(c), n, clist(["(%d, %s)" % (i, e) for i, e in args]), "true" if rest else "false")
         for m, c, n, args, rest in par["table"]]) + ".")
    L.append("Definition tables : text_tables := {| tt_sig := actions_sig; tt_line_sep := fmt_line_sep; "
             "tt_pre := fmt_wrap_pre; tt_post := fmt_wrap_post; tt_field_sep := fmt_field_sep; "
             "tt_fmt := fmt_table; tt_parse := parse_table |}.")
    write_if_changed(os.path.join(out, "TextTables.v"), "\n".join(L) + "\n")


def write_if_changed(path, txt):
    if os.path.exists(path) and open(path).read() == txt:
        return
    with open(path, "w") as f:
        f.write(txt)


REF_DIR = os.path.join(os.path.dirname(os.path.abspath(__file__)), "reference")
# target -> the generated files it owns
TARGETS = {"TextTables": ["TextTables.v"], "PatcherProg": ["PatcherProg.v"],
           "xl_main": ["Flags.v", "CliPlumbing.v", "EntryPoints.v"], "xl_main.flags": ["Flags.v"], "xl_state": ["StateShape.v"]}


def main():
    """Every target is translated on its own.  A target whose source no longer fits its grammar (or a pinned shape) is
    reported as FAILED; its generated files are then replaced by the recorded reference (the tables of the tree the
    hand-written model was validated on, translator/reference/) so that the rest of the development still builds, and
    the checks of every property that is tied to the code THROUGH that target treat the tie as broken
    (harness/lib.py TIED_THROUGH).  Exit status: 0 all targets translated, 3 some failed (see Gen/status.json),
    2 nothing usable."""
    global RECORD, SHAPES
    import glob
    import importlib.util
    import shutil
    args = [a for a in sys.argv[1:] if not a.startswith("--")]
    RECORD = "--record" in sys.argv
    repo, out = args[0], args[1]
    os.makedirs(out, exist_ok=True)
    if not RECORD and os.path.exists(SHAPE_FILE):
        SHAPES = json.load(open(SHAPE_FILE))

    def text_tables():
        sig = xl_actions(repo)
        fmt = xl_diff_formatter(repo)
        par = xl_diff_parser(repo)
        emit_text_tables(out, sig, fmt, par)

    jobs = [("TextTables", text_tables), ("PatcherProg", lambda: _extra_patcher(repo, out))]
    # plug-ins: translator/xl_*.py, each defining emit(X, repo, out) where X is this module
    # (use X.fail, X.pin, X.cstr, X.clist, X.get_class, X.get_funcs, X.write_if_changed, ...)
    here = os.path.dirname(os.path.abspath(__file__))
    for path in sorted(glob.glob(os.path.join(here, "xl_*.py"))):
        name = os.path.basename(path)[:-3]

        def plug(path=path, name=name):
            spec = importlib.util.spec_from_file_location(name, path)
            mod = importlib.util.module_from_spec(spec)
            spec.loader.exec_module(mod)
            mod.emit(sys.modules[__name__], repo, out)
        jobs.append((name, plug))
    status = {}
    for name, job in jobs:
        try:
            job()
            status[name] = "ok"
        except Partial as ex:
            status[name] = "ok"
            status[ex.name] = "FAILED: %s" % ex.msg
        except Untranslatable as ex:
            status[name] = "FAILED: %s" % ex
        except (SyntaxError, OSError, KeyError, AttributeError, IndexError, AssertionError, TypeError, ValueError) as ex:
            status[name] = "FAILED: %r" % ex
    failed = [n for n, v in status.items() if v != "ok"]
    unusable = False
    for n in failed:
        print("TRANSLATION FAILED (fail-closed) [%s]: %s" % (n, status[n][8:]))
        for f in TARGETS.get(n, []):
            ref = os.path.join(REF_DIR, f)
            if os.path.exists(ref):
                write_if_changed(os.path.join(out, f), open(ref).read())
            else:
                unusable = True
    with open(os.path.join(out, "status.json"), "w") as f:
        json.dump(status, f, indent=1, sort_keys=True)
    if RECORD:
        if failed:
            print("not recording: some targets failed")
            sys.exit(2)
        with open(SHAPE_FILE, "w") as f:
            json.dump(SHAPES, f, indent=1, sort_keys=True)
        os.makedirs(REF_DIR, exist_ok=True)
        for fs in TARGETS.values():
            for f in fs:
                shutil.copy(os.path.join(out, f), os.path.join(REF_DIR, f))
    if unusable:
        sys.exit(2)
    if failed:
        sys.exit(3)
    print("translation ok")


# ---------------------------------------------------------------------------
# patch.py : Patcher  ->  one DSL program per _handle_X


def xl_patcher(repo):
    t = ast.parse(open(os.path.join(repo, "xmldiff/patch.py")).read())
    cls = get_class(t, "Patcher")
    fs = {}
    for f in cls.body:
        if isinstance(f, ast.FunctionDef):
            fs[f.name] = f
    for rigid in ("nsmap", "patch", "handle_action"):
        if rigid not in fs:
            fail("Patcher.%s missing" % rigid)
        pin("Patcher." + rigid, fs[rigid])
    # private helper methods that consist of ONE return statement (`def _select(self, tree, path): return tree.xpath(...)[0]`)
    # are inlined at their call sites `self._helper(args)` before the handlers are read: parameters become the argument
    # expressions (each parameter may be used at most once in the body, so nothing is evaluated twice or dropped)
    helpers = {}
    for name, f in fs.items():
        if name in ("nsmap", "patch", "handle_action") or name.startswith("_handle_"):
            continue
        b = body_nodoc(f)
        if len(b) == 1 and isinstance(b[0], ast.Return) and b[0].value is not None and not f.decorator_list:
            params = argnames(f)
            if params and params[0] == "self":
                uses = {}
                for n in ast.walk(b[0].value):
                    if isinstance(n, ast.Name) and n.id in params[1:]:
                        uses[n.id] = uses.get(n.id, 0) + 1
                if all(uses.get(p_, 0) == 1 for p_ in params[1:]):
                    helpers[name] = (params[1:], b[0].value)
                    continue
        fail("Patcher: unexpected method " + name, f)

    class _Inline(ast.NodeTransformer):
        def visit_Call(self, c):
            self.generic_visit(c)
            if (isinstance(c.func, ast.Attribute) and isinstance(c.func.value, ast.Name) and c.func.value.id == "self"
                    and c.func.attr in helpers and not c.keywords and len(c.args) == len(helpers[c.func.attr][0])):
                import copy
                params, expr = helpers[c.func.attr]
                sub = dict(zip(params, c.args))

                class _Sub(ast.NodeTransformer):
                    def visit_Name(self, n):
                        return copy.deepcopy(sub[n.id]) if n.id in sub else n
                return _Sub().visit(copy.deepcopy(expr))
            return c
    progs = []
    for name, f in fs.items():
        if name in ("nsmap", "patch", "handle_action") or name in helpers:
            continue
        if not name.startswith("_handle_"):
            fail("Patcher: unexpected method " + name, f)
        f = ast.fix_missing_locations(_Inline().visit(f))
        if argnames(f) != ["self", "action", "tree"]:
            fail("Patcher.%s: unexpected arguments" % name, f)
        progs.append((name[len("_handle_"):], xl_handler(name, body_nodoc(f))))
    return progs


def xl_handler(hname, body):
    vars_ = {}
    prog = []

    def var(name):
        if name not in vars_:
            fail("Patcher.%s: variable %s used before assignment" % (hname, name))
        return vars_[name]

    def newvar(name):
        vars_[name] = len(vars_)
        return vars_[name]

    def afield(e):
        if is_attr(e, "action"):
            return e.attr
        fail("Patcher.%s: expected action.<field>" % hname, e)

    def xp(e):
        """tree.xpath(action.F[, namespaces=self.nsmap])[0] -> (field, with_ns)"""
        if not (isinstance(e, ast.Subscript) and isinstance(e.slice, ast.Constant) and e.slice.value == 0):
            return None
        c = e.value
        if not (isinstance(c, ast.Call) and is_attr(c.func, "tree", "xpath") and len(c.args) == 1):
            return None
        with_ns = False
        if c.keywords:
            if not (len(c.keywords) == 1 and c.keywords[0].arg == "namespaces" and is_attr(c.keywords[0].value, "self", "nsmap")):
                fail("Patcher.%s: unknown keyword arguments to xpath" % hname, c)
            with_ns = True
        return afield(c.args[0]), with_ns

    def resolve_tmp(e):
        r = xp(e)
        if r is None:
            return None
        v = newvar("$tmp%d" % len(vars_))
        prog.append("PResolve %d %s %s" % (v, cstr(r[0]), "true" if r[1] else "false"))
        return v

    def attrib_sub(e):
        """X.attrib[action.F] -> (var, field) ; X a variable or an xpath expression"""
        if not (isinstance(e, ast.Subscript) and isinstance(e.value, ast.Attribute) and e.value.attr == "attrib"):
            return None
        base = e.value.value
        if isinstance(base, ast.Name):
            v = var(base.id)
        else:
            v = resolve_tmp(base)
            if v is None:
                fail("Patcher.%s: unknown attrib base" % hname, e)
        return v, afield(e.slice)

    for st in body:
        if isinstance(st, ast.Pass):
            prog.append("PNop")
        elif isinstance(st, ast.Assert):
            t = st.test
            if not (isinstance(t, ast.Compare) and len(t.ops) == 1 and isinstance(t.ops[0], (ast.In, ast.NotIn))
                    and isinstance(t.comparators[0], ast.Attribute) and t.comparators[0].attr == "attrib"
                    and isinstance(t.comparators[0].value, ast.Name) and st.msg is None):
                fail("Patcher.%s: unknown assert" % hname, st)
            ins = "PAssertHas" if isinstance(t.ops[0], ast.In) else "PAssertLacks"
            prog.append("%s %d %s" % (ins, var(t.comparators[0].value.id), cstr(afield(t.left))))
        elif isinstance(st, ast.Delete):
            if len(st.targets) != 1:
                fail("Patcher.%s: unknown del" % hname, st)
            r = attrib_sub(st.targets[0])
            if r is None:
                fail("Patcher.%s: unknown del" % hname, st)
            prog.append("PDelAttr %d %s" % (r[0], cstr(r[1])))
        elif isinstance(st, ast.Assign) and len(st.targets) == 1:
            tg, val = st.targets[0], st.value
            if isinstance(tg, ast.Name):
                r = xp(val)
                if r is not None:
                    prog.append("PResolve %d %s %s" % (newvar(tg.id), cstr(r[0]), "true" if r[1] else "false"))
                elif (isinstance(val, ast.Call) and isinstance(val.func, ast.Attribute) and val.func.attr == "makeelement"
                      and isinstance(val.func.value, ast.Name) and len(val.args) == 1 and not val.keywords):
                    t_ = var(val.func.value.id)
                    prog.append("PMakeElement %d %d %s" % (newvar(tg.id), t_, cstr(afield(val.args[0]))))
                else:
                    fail("Patcher.%s: unknown assignment" % hname, st)
            elif isinstance(tg, ast.Attribute) and tg.attr in ("tag", "text", "tail"):
                if isinstance(tg.value, ast.Name):
                    v = var(tg.value.id)
                else:
                    v = resolve_tmp(tg.value)
                    if v is None:
                        fail("Patcher.%s: unknown assignment target" % hname, st)
                prog.append("%s %d %s" % ({"tag": "PSetTag", "text": "PSetText", "tail": "PSetTail"}[tg.attr], v, cstr(afield(val))))
            elif isinstance(tg, ast.Subscript) and is_attr(tg.value, "self", "nsmap"):
                prog.append("PBindPrefix %s %s" % (cstr(afield(tg.slice)), cstr(afield(val))))
            else:
                r = attrib_sub(tg)
                if r is None:
                    fail("Patcher.%s: unknown assignment target" % hname, st)
                if is_attr(val, "action"):
                    prog.append("PSetAttr %d %s %s" % (r[0], cstr(r[1]), cstr(val.attr)))
                else:
                    r2 = attrib_sub(val)
                    if r2 is None or r2[0] != r[0]:
                        fail("Patcher.%s: unknown attribute assignment" % hname, st)
                    prog.append("PCopyAttr %d %s %s" % (r[0], cstr(r[1]), cstr(r2[1])))
        elif isinstance(st, ast.Expr) and isinstance(st.value, ast.Call):
            c = st.value
            fn = c.func
            # v.getparent().remove(v)
            if (isinstance(fn, ast.Attribute) and fn.attr == "remove" and isinstance(fn.value, ast.Call)
                    and isinstance(fn.value.func, ast.Attribute) and fn.value.func.attr == "getparent"
                    and isinstance(fn.value.func.value, ast.Name) and not fn.value.args and not fn.value.keywords
                    and len(c.args) == 1 and isinstance(c.args[0], ast.Name) and c.args[0].id == fn.value.func.value.id
                    and not c.keywords):
                prog.append("PDetach %d" % var(c.args[0].id))
            # t.insert(action.P, v | etree.Comment(action.F))
            elif (isinstance(fn, ast.Attribute) and fn.attr == "insert" and isinstance(fn.value, ast.Name)
                  and len(c.args) == 2 and not c.keywords):
                t_ = var(fn.value.id)
                pos = afield(c.args[0])
                x = c.args[1]
                if isinstance(x, ast.Name):
                    v = var(x.id)
                elif (isinstance(x, ast.Call) and is_attr(x.func, "etree", "Comment") and len(x.args) == 1 and not x.keywords):
                    v = newvar("$tmp%d" % len(vars_))
                    prog.append("PMakeComment %d %s" % (v, cstr(afield(x.args[0]))))
                else:
                    fail("Patcher.%s: unknown insert argument" % hname, st)
                prog.append("PInsertAt %d %s %d" % (t_, cstr(pos), v))
            else:
                fail("Patcher.%s: unknown call statement" % hname, st)
        else:
            fail("Patcher.%s: unknown statement" % hname, st)
    return prog


def emit_patcher(out, progs):
    L = ["(* GENERATED by translator/xlate.py from /repo/xmldiff/patch.py (class Patcher) -- do not edit *)",
         "From Coq Require Import List NArith. Import ListNotations.",
         "Require Import XV.Str XV.PatcherDSL.",
         "Definition patcher_progs : list (str * list pinstr) := " +
         clist(["(%s, %s)" % (cstr(n), clist(p)) for n, p in progs]) + "."]
    write_if_changed(os.path.join(out, "PatcherProg.v"), "\n".join(L) + "\n")


def _extra_patcher(repo, out):
    emit_patcher(out, xl_patcher(repo))


EXTRA = [_extra_patcher]

if __name__ == "__main__":
    main()
