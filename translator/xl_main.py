"""Translator plug-in: /repo/xmldiff/main.py (all of it), the constructors and WS_*
constants of formatting.py, the WS_TEXT branch of XMLFormatter._make_diff_tags and
the parameter names of diff.Differ.__init__  ->  Gallina tables

    Gen/Flags.v        : XV.Cli.flags_tables
    Gen/CliPlumbing.v  : XV.Cli.cli_tables
    Gen/EntryPoints.v  : XV.Cli.entry_tables

Fail closed: every function of main.py has a grammar of the statement shapes that
are understood; anything else (an extra statement, another keyword argument, a
different call) raises X.Untranslatable and the build stops.  Nothing here
interprets the code: names, constants and the order of calls are copied out; what
they mean is decided by the interpreters in coq/theories/Cli.v.
"""
import ast
import os


def emit(X, repo, out):
    T = _Tr(X, repo)
    T.flags()                 # WS_* constants, formatter constructors
    text_err = None
    try:
        T.flags_text()        # the WS_TEXT branch of XMLFormatter._make_diff_tags: a sub-target of its own (only Flags.v
    except X.Untranslatable as ex:   # mentions it), so that a change there does not break the tie of main.py
        text_err = ex
    T.main()
    X.write_if_changed(os.path.join(out, "CliPlumbing.v"), T.cli_v())
    X.write_if_changed(os.path.join(out, "EntryPoints.v"), T.entry_v())
    if text_err is not None:
        raise X.Partial("xl_main.flags", str(text_err))
    X.write_if_changed(os.path.join(out, "Flags.v"), T.flags_v())


def _is_name(n, id_=None):
    return isinstance(n, ast.Name) and (id_ is None or n.id == id_)


def _is_const(n, typ=None):
    return isinstance(n, ast.Constant) and (typ is None or type(n.value) is typ)


def _attr_of(n, obj):
    """obj.<attr> -> attr, else None"""
    if isinstance(n, ast.Attribute) and _is_name(n.value, obj):
        return n.attr
    return None


class _Tr:
    def __init__(self, X, repo):
        self.X = X
        self.repo = repo
        self.fmt_tree = ast.parse(open(os.path.join(repo, "xmldiff/formatting.py")).read())
        self.main_tree = ast.parse(open(os.path.join(repo, "xmldiff/main.py")).read())
        self.diff_tree = ast.parse(open(os.path.join(repo, "xmldiff/diff.py")).read())

    def fail(self, msg, node=None):
        self.X.fail(msg, node)

    # ------------------------------------------------------------------ Gallina syntax
    def s(self, x):
        return self.X.cstr(x)

    def l(self, items):
        return self.X.clist(list(items))

    def opt(self, x, f=None):
        if x is None:
            return "None"
        return "(Some %s)" % (f or self.s)(x)

    def pair(self, a, b):
        return "(%s, %s)" % (a, b)

    def spairs(self, ps):
        return self.l(self.pair(self.s(a), self.s(b)) for a, b in ps)

    def strs(self, xs):
        return self.l(self.s(x) for x in xs)

    def pyconst(self, node):
        if not isinstance(node, ast.Constant):
            self.fail("default value is not a constant", node)
        v = node.value
        if v is None:
            return "PCNone"
        if isinstance(v, bool):
            return "(PCBool %s)" % ("true" if v else "false")
        if isinstance(v, str):
            return "(PCStr %s)" % self.s(v)
        if isinstance(v, int):
            return "(PCInt (%d)%%Z)" % v
        self.fail("unsupported constant %r" % (v,), node)

    def params(self, f, allow_defaults=True):
        """[(name, default pyconst or None)]"""
        a = f.args
        if a.posonlyargs or a.kwonlyargs or a.vararg or a.kwarg or a.kw_defaults:
            self.fail("unexpected argument shape in %s" % f.name, f)
        if a.defaults and not allow_defaults:
            self.fail("unexpected default in %s" % f.name, f)
        names = [x.arg for x in a.args]
        if any(x.annotation is not None for x in a.args) or f.returns is not None or f.decorator_list:
            self.fail("annotations/decorators are not understood in %s" % f.name, f)
        defs = [None] * (len(names) - len(a.defaults)) + list(a.defaults)
        return list(zip(names, defs))

    def params_v(self, ps):
        return self.l(self.pair(self.s(n), "None" if d is None else "(Some %s)" % self.pyconst(d)) for n, d in ps)

    # ------------------------------------------------------------------ formatting.py
    def flags(self):
        X, t = self.X, self.fmt_tree
        # WS_* constants: top-level `WS_X = <int>`; no other binding anywhere
        ws = []
        for st in t.body:
            if isinstance(st, ast.Assign) and any(_is_name(tg) and tg.id.startswith("WS_") for tg in st.targets):
                if not (len(st.targets) == 1 and _is_const(st.value, int)):
                    self.fail("formatting.py: WS_* binding is not `NAME = <int>`", st)
                if st.targets[0].id in [n for n, _ in ws]:
                    self.fail("formatting.py: %s bound twice" % st.targets[0].id, st)
                ws.append((st.targets[0].id, st.value.value))
        nstores = 0
        for n in ast.walk(t):
            if isinstance(n, ast.Name) and n.id.startswith("WS_") and not isinstance(n.ctx, ast.Load):
                nstores += 1
            if isinstance(n, (ast.Global, ast.Nonlocal)) and any(x.startswith("WS_") for x in n.names):
                self.fail("formatting.py: global WS_*", n)
        if nstores != len(ws):
            self.fail("formatting.py: WS_* names are bound outside the top-level constant block")
        if any(v < 0 for _, v in ws):
            self.fail("formatting.py: negative WS_* value")
        self.ws = ws
        # formatter classes
        self.classes = []
        for cname in ("BaseFormatter", "DiffFormatter", "XmlDiffFormatter", "XMLFormatter"):
            cls = X.get_class(t, cname)
            bases = [b.id if _is_name(b) else None for b in cls.bases]
            if cls.keywords or cls.decorator_list:
                self.fail("formatting.%s: metaclass/decorators are not understood" % cname, cls)
            if cname == "BaseFormatter":
                if bases:
                    self.fail("formatting.BaseFormatter has base classes", cls)
            elif bases != ["BaseFormatter"]:
                self.fail("formatting.%s: bases are not (BaseFormatter,)" % cname, cls)
            init = None
            for m in cls.body:
                if isinstance(m, ast.FunctionDef):
                    if m.name in ("__getattr__", "__getattribute__", "__setattr__", "__delattr__", "__new__",
                                  "__init_subclass__", "normalize", "pretty_print"):
                        self.fail("formatting.%s defines %s" % (cname, m.name), m)
                    if m.name == "__init__":
                        init = m
                        continue
                    for n in ast.walk(m):
                        if (isinstance(n, ast.Attribute) and n.attr == "normalize"
                                and not isinstance(n.ctx, ast.Load)):
                            self.fail("formatting.%s.%s rebinds .normalize" % (cname, m.name), n)
                        if _is_name(n) and n.id in ("setattr", "delattr", "__dict__", "vars"):
                            self.fail("formatting.%s.%s uses %s" % (cname, m.name, n.id), n)
                        if isinstance(n, ast.Attribute) and n.attr == "__dict__":
                            self.fail("formatting.%s.%s uses __dict__" % (cname, m.name), n)
                elif isinstance(m, ast.Expr) and _is_const(m.value, str):
                    continue
                elif (isinstance(m, ast.Assign) and len(m.targets) == 1 and _is_name(m.targets[0])
                      and not m.targets[0].id.startswith("__") and m.targets[0].id not in ("normalize", "pretty_print")
                      and not any(_is_name(n) and n.id in ("setattr", "delattr", "vars", "globals", "locals") for n in ast.walk(m.value))):
                    # a class constant (a table, a compiled pattern): it can shadow neither the instance attributes read
                    # here (normalize, pretty_print: excluded by name) nor a method (methods are read from the defs)
                    if any(isinstance(x, ast.FunctionDef) and x.name == m.targets[0].id for x in cls.body):
                        self.fail("formatting.%s: %s is both a class constant and a method" % (cname, m.targets[0].id), m)
                    continue
                else:
                    self.fail("formatting.%s: class-level statement is not understood" % cname, m)
            if init is None:
                self.fail("formatting.%s has no __init__" % cname, cls)
            ps = self.params(init)
            if [p for p, _ in ps[:3]] != ["self", "normalize", "pretty_print"] or ps[0][1] is not None:
                self.fail("formatting.%s.__init__: parameters are not (self, normalize, pretty_print, ..)" % cname, init)
            nd, pd = ps[1][1], ps[2][1]
            if not (_is_name(nd) and nd.id in [n for n, _ in ws]):
                self.fail("formatting.%s.__init__: default of normalize is not a WS_* name" % cname, init)
            if not _is_const(pd, bool):
                self.fail("formatting.%s.__init__: default of pretty_print is not a bool" % cname, init)
            for p, d in ps[3:]:
                if d is None:
                    self.fail("formatting.%s.__init__: parameter %s has no default" % (cname, p), init)
            pnames = [p for p, _ in ps]
            stores = []
            for st in X.body_nodoc(init):
                tg = st.targets[0] if isinstance(st, ast.Assign) and len(st.targets) == 1 else None
                a = _attr_of(tg, "self") if tg is not None else None
                if a is None:
                    self.fail("formatting.%s.__init__: statement is not `self.<attr> = ..`" % cname, st)
                if a in [x for x, _ in stores]:
                    self.fail("formatting.%s.__init__: self.%s assigned twice" % (cname, a), st)
                if _is_name(st.value) and st.value.id in pnames[1:]:
                    stores.append((a, st.value.id))
                elif a in ("normalize", "pretty_print"):
                    self.fail("formatting.%s.__init__: self.%s is not assigned from a parameter" % (cname, a), st)
                else:
                    for n in ast.walk(st.value):
                        if _is_name(n, "self"):
                            self.fail("formatting.%s.__init__: self escapes in the value of self.%s" % (cname, a), st)
                    X.pin("formatting.%s.__init__.self.%s" % (cname, a), st)
                    stores.append((a, "<expr>"))
            self.classes.append((cname, nd.id, pd.value, stores))

    def flags_text(self):
        X, t, ws = self.X, self.fmt_tree, self.ws
        # _make_diff_tags: the WS_TEXT branch
        fs = {}
        for m in X.get_class(t, "XMLFormatter").body:
            if isinstance(m, ast.FunctionDef):
                fs[m.name] = m
        f = fs.get("_make_diff_tags")
        if f is None:
            self.fail("XMLFormatter._make_diff_tags missing")
        ps = [p for p, _ in self.params(f)]
        b = X.body_nodoc(f)
        st = b[0]
        try:
            assert isinstance(st, ast.If) and not st.orelse
            c = st.test
            assert isinstance(c, ast.Call) and _is_name(c.func, "bool") and len(c.args) == 1 and not c.keywords
            e = c.args[0]
            assert isinstance(e, ast.BinOp) and isinstance(e.op, ast.BitAnd)
            attr = _attr_of(e.left, "self")
            assert attr is not None and _is_name(e.right) and e.right.id in [n for n, _ in ws]
            mask = e.right.id
            assert len(st.body) == 2
            allops = []
            for k, asg in enumerate(st.body):
                assert isinstance(asg, ast.Assign) and len(asg.targets) == 1 and _is_name(asg.targets[0], ps[1 + k])
                ops, ex = [], asg.value
                while True:
                    if (isinstance(ex, ast.Call) and isinstance(ex.func, ast.Attribute) and not ex.keywords
                            and _is_name(ex.func.value, "utils") and len(ex.args) == 1):
                        ops.append(ex.func.attr)          # utils.f(e)
                        ex = ex.args[0]
                    elif isinstance(ex, ast.Call) and isinstance(ex.func, ast.Attribute) and not ex.keywords and not ex.args:
                        ops.append(ex.func.attr)          # e.m()
                        ex = ex.func.value
                    else:
                        break
                assert (isinstance(ex, ast.BoolOp) and isinstance(ex.op, ast.Or) and len(ex.values) == 2
                        and _is_name(ex.values[0], ps[1 + k]) and _is_const(ex.values[1], str) and ex.values[1].value == "")
                allops.append(list(reversed(ops)))
            assert allops[0] == allops[1] and allops[0]
            # nothing between the branch and the text diff may rebind the two values differently:
            # the next use must be diff_main(left or "", right or "")
            found = False
            for n in ast.walk(ast.Module(body=b[1:], type_ignores=[])):
                if isinstance(n, ast.Call) and isinstance(n.func, ast.Attribute) and n.func.attr == "diff_main":
                    a = n.args
                    assert len(a) == 2 and all(isinstance(x, ast.BoolOp) and isinstance(x.op, ast.Or)
                                               and _is_name(x.values[0], ps[1 + i]) and _is_const(x.values[1], str)
                                               and x.values[1].value == "" for i, x in enumerate(a))
                    found = True
                if isinstance(n, ast.Name) and n.id in ps[1:3] and not isinstance(n.ctx, ast.Load):
                    raise AssertionError
            assert found
        except (AssertionError, IndexError, AttributeError):
            self.fail("XMLFormatter._make_diff_tags: the whitespace branch has an unknown shape", f)
        self.text_attr, self.text_mask, self.text_ops = attr, mask, allops[0]

    # ------------------------------------------------------------------ main.py
    def main(self):
        X, t = self.X, self.main_tree
        funcs = {}
        imports = []
        self.formatters = None
        for st in t.body:
            if isinstance(st, (ast.Import, ast.ImportFrom)):
                imports.append(st)
            elif isinstance(st, ast.Expr) and _is_const(st.value, str):
                continue
            elif isinstance(st, ast.FunctionDef):
                if st.name in funcs:
                    self.fail("main.py: %s defined twice" % st.name, st)
                funcs[st.name] = st
            elif isinstance(st, ast.Assign) and len(st.targets) == 1 and _is_name(st.targets[0], "__version__"):
                continue
            elif isinstance(st, ast.Assign) and len(st.targets) == 1 and _is_name(st.targets[0], "FORMATTERS"):
                d = st.value
                if self.formatters is not None or not isinstance(d, ast.Dict):
                    self.fail("main.py: FORMATTERS is not one dict literal", st)
                self.formatters = []
                for k, v in zip(d.keys, d.values):
                    c = _attr_of(v, "formatting")
                    if not _is_const(k, str) or c is None:
                        self.fail("main.py: FORMATTERS entry is not \"key\": formatting.<Class>", st)
                    self.formatters.append((k.value, c))
                if len({k for k, _ in self.formatters}) != len(self.formatters):
                    self.fail("main.py: duplicate FORMATTERS key", st)
            else:
                self.fail("main.py: top-level statement is not understood", st)
        X.pin("main.imports", ast.Module(body=imports, type_ignores=[]))
        for n in ast.walk(t):
            if isinstance(n, (ast.Global, ast.Nonlocal, ast.Lambda, ast.ClassDef, ast.AsyncFunctionDef)):
                self.fail("main.py: construct is not understood", n)
        if sum(1 for n in ast.walk(t) if _is_name(n, "FORMATTERS") and not isinstance(n.ctx, ast.Load)) != 1:
            self.fail("main.py: FORMATTERS rebound")
        expected = ["diff_trees", "_diff", "diff_texts", "diff_files", "validate_F", "make_diff_parser",
                    "_parse_uniqueattrs", "_parse_ignored_attrs", "diff_command", "patch_tree", "patch_text",
                    "patch_file", "make_patch_parser", "patch_command"]
        if sorted(funcs) != sorted(expected) or self.formatters is None:
            self.fail("main.py: the set of functions is not the one understood: %s" % sorted(funcs))
        for name, f in funcs.items():      # nested function definitions are not understood
            for n in ast.walk(ast.Module(body=f.body, type_ignores=[])):
                if isinstance(n, ast.FunctionDef):
                    self.fail("main.py: nested function in %s" % name, n)
        self.funcs = funcs
        self.x_diff_trees(funcs["diff_trees"])
        self.x_core(funcs["_diff"])
        self.wrappers = [self.x_wrapper(funcs["diff_texts"]), self.x_wrapper(funcs["diff_files"])]
        self.x_validate(funcs["validate_F"])
        self.diff_opts = self.x_parser(funcs["make_diff_parser"])
        self.patch_opts = self.x_parser(funcs["make_patch_parser"])
        self.split_fns = [self.x_split(funcs["_parse_uniqueattrs"]), self.x_split(funcs["_parse_ignored_attrs"])]
        self.x_diff_command(funcs["diff_command"])
        self.x_patch_command(funcs["patch_command"])
        self.x_patch_tree(funcs["patch_tree"])
        self.patch_fns = [self.x_patch_fn(funcs["patch_text"]), self.x_patch_fn(funcs["patch_file"])]
        # diff.Differ.__init__ parameter names
        cls = X.get_class(self.diff_tree, "Differ")
        init = [m for m in cls.body if isinstance(m, ast.FunctionDef) and m.name == "__init__"]
        if len(init) != 1:
            self.fail("diff.Differ.__init__ not found")
        init = init[0]
        a = init.args
        if a.posonlyargs or a.kwonlyargs or a.vararg or a.kwarg or len(a.defaults) != len(a.args) - 1:
            self.fail("diff.Differ.__init__: parameters are not all keyword-with-default", init)
        self.differ_params = [x.arg for x in a.args[1:]]

    # ---- helpers for statement shapes
    def kwargs_names(self, call, f):
        """keywords k=<Name> -> [(k, name)]"""
        out = []
        for k in call.keywords:
            if k.arg is None or not _is_name(k.value):
                self.fail("%s: keyword argument is not k=<name>" % f.name, call)
            out.append((k.arg, k.value.id))
        return out

    def x_diff_trees(self, f):
        self.trees_params = self.params(f)
        steps = []
        b = self.X.body_nodoc(f)
        for i, st in enumerate(b):
            try:
                if isinstance(st, ast.If) and not st.orelse and len(st.body) == 1:
                    c = st.test
                    assert isinstance(c, ast.Compare) and len(c.ops) == 1 and _is_name(c.left) and _is_const(c.comparators[0]) \
                        and c.comparators[0].value is None
                    g, inner = c.left.id, st.body[0]
                    if isinstance(c.ops[0], ast.IsNot):
                        # if g is not None: g.prepare(l, r)
                        call = inner.value
                        assert isinstance(inner, ast.Expr) and isinstance(call, ast.Call) and not call.keywords
                        assert _attr_of(call.func, g) == "prepare" and len(call.args) == 2 and all(_is_name(a) for a in call.args)
                        steps.append("DPrepare %s %s %s" % (self.s(g), self.s(call.args[0].id), self.s(call.args[1].id)))
                    elif isinstance(c.ops[0], ast.Is):
                        if isinstance(inner, ast.Assign):
                            # if v is None: v = {}
                            assert len(inner.targets) == 1 and _is_name(inner.targets[0], g)
                            assert isinstance(inner.value, ast.Dict) and not inner.value.keys
                            steps.append("DDefaultOpts %s" % self.s(g))
                        else:
                            # if g is None: return list(v)
                            assert isinstance(inner, ast.Return)
                            call = inner.value
                            assert isinstance(call, ast.Call) and _is_name(call.func, "list") and len(call.args) == 1 \
                                and not call.keywords and _is_name(call.args[0])
                            steps.append("DReturnList %s %s" % (self.s(g), self.s(call.args[0].id)))
                    else:
                        raise AssertionError
                elif isinstance(st, ast.Assign) and len(st.targets) == 1 and _is_name(st.targets[0]):
                    tg, call = st.targets[0].id, st.value
                    assert isinstance(call, ast.Call)
                    cls = _attr_of(call.func, "diff")
                    if cls is not None:
                        # tg = diff.<cls>(**opts)
                        assert not call.args and len(call.keywords) == 1 and call.keywords[0].arg is None \
                            and _is_name(call.keywords[0].value)
                        steps.append("DMakeDiffer %s %s %s" % (self.s(tg), self.s(cls), self.s(call.keywords[0].value.id)))
                    else:
                        # tg = obj.diff(l, r)
                        assert isinstance(call.func, ast.Attribute) and _is_name(call.func.value) and call.func.attr == "diff"
                        assert len(call.args) == 2 and all(_is_name(a) for a in call.args) and not call.keywords
                        steps.append("DDiff %s %s %s %s" % (self.s(tg), self.s(call.func.value.id),
                                                            self.s(call.args[0].id), self.s(call.args[1].id)))
                elif isinstance(st, ast.Return):
                    call = st.value
                    assert isinstance(call, ast.Call) and isinstance(call.func, ast.Attribute) and _is_name(call.func.value)
                    assert call.func.attr == "format" and len(call.args) == 2 and all(_is_name(a) for a in call.args) \
                        and not call.keywords and i == len(b) - 1
                    steps.append("DReturnFormat %s %s %s" % (self.s(call.func.value.id), self.s(call.args[0].id),
                                                             self.s(call.args[1].id)))
                else:
                    raise AssertionError
            except (AssertionError, AttributeError, IndexError):
                self.fail("diff_trees: statement is not understood", st)
        self.trees_steps = steps

    def x_core(self, f):
        ps = self.params(f)
        b = self.X.body_nodoc(f)
        try:
            assert len(b) >= 4
            # normalize = bool(getattr(formatter, "normalize", 1) & formatting.WS_TAGS)
            st = b[0]
            assert isinstance(st, ast.Assign) and len(st.targets) == 1 and _is_name(st.targets[0])
            nv, c = st.targets[0].id, st.value
            assert isinstance(c, ast.Call) and _is_name(c.func, "bool") and len(c.args) == 1 and not c.keywords
            e = c.args[0]
            assert isinstance(e, ast.BinOp) and isinstance(e.op, ast.BitAnd)
            g = e.left
            assert isinstance(g, ast.Call) and _is_name(g.func, "getattr") and len(g.args) == 3 and not g.keywords
            assert _is_name(g.args[0]) and _is_const(g.args[1], str) and _is_const(g.args[2], int) and g.args[2].value >= 0
            mask = _attr_of(e.right, "formatting")
            assert mask in [n for n, _ in self.ws]
            self.diff_attr, self.diff_default, self.diff_mask = g.args[1].value, g.args[2].value, mask
            norm_obj = g.args[0].id
            # parser = etree.XMLParser(remove_blank_text=normalize)
            st = b[1]
            assert isinstance(st, ast.Assign) and len(st.targets) == 1 and _is_name(st.targets[0])
            pv, c = st.targets[0].id, st.value
            assert isinstance(c, ast.Call) and not c.args
            ctor = _attr_of(c.func, "etree")
            assert ctor is not None
            pkw = self.kwargs_names(c, f)
            assert len(pkw) == 1
            self.diff_parser_kw = pkw[0][0]
            # <t> = parse_method(<x>, parser) ...
            parses = []
            for st in b[2:-1]:
                assert isinstance(st, ast.Assign) and len(st.targets) == 1 and _is_name(st.targets[0])
                c = st.value
                assert isinstance(c, ast.Call) and _is_name(c.func) and not c.keywords and all(_is_name(a) for a in c.args)
                parses.append((st.targets[0].id, c.func.id, [a.id for a in c.args]))
            # return diff_trees(l, r, k=v..)
            st = b[-1]
            assert isinstance(st, ast.Return)
            c = st.value
            assert isinstance(c, ast.Call) and _is_name(c.func) and all(_is_name(a) for a in c.args)
            self.core = dict(name=f.name, params=ps, norm_var=nv, norm_obj=norm_obj, parser_var=pv, ctor=ctor, pkw=pkw,
                             parses=parses, callee=c.func.id, pos=[a.id for a in c.args], kw=self.kwargs_names(c, f))
            # no variable is bound twice (the interpreter is a plain environment, but keep it simple)
            bound = [p for p, _ in ps] + [nv, pv] + [x[0] for x in parses]
            assert len(set(bound)) == len(bound)
        except (AssertionError, AttributeError, IndexError):
            self.fail("_diff: shape is not understood", f)

    def x_wrapper(self, f):
        ps = self.params(f)
        b = self.X.body_nodoc(f)
        try:
            assert len(b) == 1 and isinstance(b[0], ast.Return)
            c = b[0].value
            assert isinstance(c, ast.Call) and _is_name(c.func) and len(c.args) >= 1
            parse = _attr_of(c.args[0], "etree")
            assert parse is not None and all(_is_name(a) for a in c.args[1:])
            return dict(name=f.name, params=ps, callee=c.func.id, parse=parse, pos=[a.id for a in c.args[1:]],
                        kw=self.kwargs_names(c, f))
        except (AssertionError, AttributeError, IndexError):
            self.fail("%s: shape is not understood" % f.name, f)

    def x_validate(self, f):
        ps = self.params(f, allow_defaults=False)
        b = self.X.body_nodoc(f)
        ops = {ast.LtE: "<=", ast.Gt: ">", ast.Lt: "<", ast.GtE: ">="}
        try:
            assert len(ps) == 1 and len(b) >= 2
            tr = b[0]
            assert isinstance(tr, ast.Try) and len(tr.body) == 1 and len(tr.handlers) == 1 and not tr.orelse and not tr.finalbody
            asg = tr.body[0]
            assert isinstance(asg, ast.Assign) and len(asg.targets) == 1 and _is_name(asg.targets[0])
            var, c = asg.targets[0].id, asg.value
            assert isinstance(c, ast.Call) and _is_name(c.func) and len(c.args) == 1 and _is_name(c.args[0], ps[0][0]) and not c.keywords
            h = tr.handlers[0]
            assert _is_name(h.type) and h.name is None and len(h.body) == 1

            def raise_msg(st):
                assert isinstance(st, ast.Raise) and st.cause is None
                r = st.exc
                assert isinstance(r, ast.Call) and _is_name(r.func, "ArgumentTypeError") and len(r.args) == 1 \
                    and _is_const(r.args[0], str) and not r.keywords
                return r.args[0].value
            conv_msg = raise_msg(h.body[0])
            checks = []
            for st in b[1:-1]:
                assert isinstance(st, ast.If) and not st.orelse and len(st.body) == 1
                t = st.test
                assert isinstance(t, ast.Compare) and len(t.ops) == 1 and _is_name(t.left, var) and type(t.ops[0]) in ops
                assert _is_const(t.comparators[0], int)
                checks.append((ops[type(t.ops[0])], t.comparators[0].value, raise_msg(st.body[0])))
            assert isinstance(b[-1], ast.Return) and _is_name(b[-1].value, var)
            self.validate = dict(name=f.name, conv=c.func.id, exc=h.type.id, conv_msg=conv_msg, checks=checks)
        except (AssertionError, AttributeError, IndexError):
            self.fail("validate_F: shape is not understood", f)

    def x_parser(self, f):
        if self.params(f):
            self.fail("%s takes parameters" % f.name, f)
        b = self.X.body_nodoc(f)
        opts = []
        groups = {}
        try:
            st = b[0]
            assert isinstance(st, ast.Assign) and len(st.targets) == 1 and _is_name(st.targets[0])
            pv, c = st.targets[0].id, st.value
            assert isinstance(c, ast.Call) and _is_name(c.func, "ArgumentParser") and not c.args
            kws = {k.arg: k.value for k in c.keywords}
            assert set(kws) <= {"description", "add_help"} and "add_help" in kws and _is_const(kws["add_help"], bool) \
                and kws["add_help"].value is False and _is_const(kws.get("description", ast.Constant(value="")), str)
            assert isinstance(b[-1], ast.Return) and _is_name(b[-1].value, pv)
        except (AssertionError, AttributeError, IndexError):
            self.fail("%s: parser construction is not understood" % f.name, f)
        for st in b[1:-1]:
            try:
                if isinstance(st, ast.Assign):
                    assert len(st.targets) == 1 and _is_name(st.targets[0])
                    c = st.value
                    assert isinstance(c, ast.Call) and _attr_of(c.func, pv) == "add_mutually_exclusive_group"
                    assert not c.args and not c.keywords and st.targets[0].id not in groups and st.targets[0].id != pv
                    groups[st.targets[0].id] = len(groups)
                    continue
                assert isinstance(st, ast.Expr)
                c = st.value
                assert isinstance(c, ast.Call) and isinstance(c.func, ast.Attribute) and c.func.attr == "add_argument"
                assert _is_name(c.func.value) and (c.func.value.id == pv or c.func.value.id in groups)
                grp = groups.get(c.func.value.id) if c.func.value.id != pv else None
                flags = []
                for a in c.args:
                    assert _is_const(a, str) and a.value
                    flags.append(a.value)
                assert flags and (all(x.startswith("-") for x in flags) or (len(flags) == 1 and not flags[0].startswith("-")))
                o = dict(flags=flags, dest=None, default=None, type=None, choices=None, action=None, nargs=None, group=grp)
                for k in c.keywords:
                    if k.arg in ("help", "version"):
                        continue                      # text shown to the user; not part of the parse
                    elif k.arg == "dest":
                        assert _is_const(k.value, str)
                        o["dest"] = k.value.value
                    elif k.arg == "default":
                        o["default"] = self.pyconst(k.value)
                    elif k.arg == "type":
                        assert _is_name(k.value) and (k.value.id == "str" or k.value.id in self.funcs)
                        o["type"] = k.value.id
                    elif k.arg == "action":
                        assert _is_const(k.value, str)
                        o["action"] = k.value.value
                    elif k.arg == "nargs":
                        assert _is_const(k.value, str)
                        o["nargs"] = k.value.value
                    elif k.arg == "choices":
                        v = k.value
                        if isinstance(v, (ast.Set, ast.List, ast.Tuple)):
                            assert all(_is_const(e, str) for e in v.elts)
                            o["choices"] = "(CLit %s)" % self.strs(sorted({e.value for e in v.elts}))
                        else:
                            # list(TABLE.keys())
                            assert isinstance(v, ast.Call) and _is_name(v.func, "list") and len(v.args) == 1 and not v.keywords
                            k2 = v.args[0]
                            assert isinstance(k2, ast.Call) and isinstance(k2.func, ast.Attribute) and k2.func.attr == "keys" \
                                and _is_name(k2.func.value) and not k2.args and not k2.keywords
                            o["choices"] = "(CKeysOf %s)" % self.s(k2.func.value.id)
                    else:
                        raise AssertionError
                opts.append(o)
            except (AssertionError, AttributeError, IndexError):
                self.fail("%s: statement is not understood" % f.name, st)
        return opts

    def x_split(self, f):
        ps = self.params(f, allow_defaults=False)
        b = self.X.body_nodoc(f)
        try:
            assert len(ps) == 1 and len(b) == 2
            p = ps[0][0]
            i = b[0]
            assert isinstance(i, ast.If) and not i.orelse and len(i.body) == 1
            t = i.test
            assert isinstance(t, ast.Compare) and _is_name(t.left, p) and len(t.ops) == 1 and isinstance(t.ops[0], ast.Is) \
                and _is_const(t.comparators[0]) and t.comparators[0].value is None
            r = i.body[0]
            assert isinstance(r, ast.Return) and isinstance(r.value, ast.List) and not r.value.elts
            r = b[1]
            assert isinstance(r, ast.Return) and isinstance(r.value, ast.ListComp) and len(r.value.generators) == 1
            g = r.value.generators[0]
            assert _is_name(g.target) and not g.ifs and not g.is_async
            v = g.target.id
            it = g.iter
            assert isinstance(it, ast.Call) and _attr_of(it.func, p) == "split" and len(it.args) == 1 and _is_const(it.args[0], str) \
                and not it.keywords
            sep = it.args[0].value
            e = r.value.elt
            at = None
            if not _is_name(e, v):
                # a if "@" not in a else a.split("@", 1)
                assert isinstance(e, ast.IfExp) and _is_name(e.body, v)
                t = e.test
                assert isinstance(t, ast.Compare) and len(t.ops) == 1 and isinstance(t.ops[0], ast.NotIn) \
                    and _is_const(t.left, str) and _is_name(t.comparators[0], v)
                o = e.orelse
                assert isinstance(o, ast.Call) and _attr_of(o.func, v) == "split" and len(o.args) == 2 and not o.keywords
                assert _is_const(o.args[0], str) and o.args[0].value == t.left.value and _is_const(o.args[1], int)
                at = (t.left.value, o.args[1].value)
            return dict(name=f.name, sep=sep, at=at)
        except (AssertionError, AttributeError, IndexError):
            self.fail("%s: shape is not understood" % f.name, f)

    def x_api_call(self, c, fn, argsvar):
        """callee(args.a, args.b, k=<name> | formatter=<inline ctor>) -> (api_call dict, inline ctor or None)"""
        assert isinstance(c, ast.Call) and _is_name(c.func)
        pos = []
        for a in c.args:
            at = _attr_of(a, argsvar)
            assert at is not None
            pos.append(at)
        kw, inline = [], None
        for k in c.keywords:
            assert k.arg is not None
            if _is_name(k.value):
                kw.append((k.arg, k.value.id))
            else:
                assert inline is None
                inline = self.x_fmt_ctor(k.value, argsvar)
                kw.append((k.arg, "<inline>"))
        return dict(callee=c.func.id, args=pos, kwargs=kw), inline

    def x_fmt_ctor(self, c, argsvar):
        """FORMATTERS[args.k](kw..)  |  formatting.Cls(kw..)"""
        assert isinstance(c, ast.Call) and not c.args
        fn = c.func
        if isinstance(fn, ast.Subscript):
            assert _is_name(fn.value) and _attr_of(fn.slice, argsvar) is not None
            table, key = fn.value.id, _attr_of(fn.slice, argsvar)
        else:
            table, key = None, _attr_of(fn, "formatting")
            assert key is not None
        kws = []
        for k in c.keywords:
            assert k.arg is not None
            if _is_name(k.value):
                kws.append((k.arg, "AVar %s" % self.s(k.value.id)))
            else:
                at = _attr_of(k.value, argsvar)
                assert at is not None
                kws.append((k.arg, "AArg %s" % self.s(at)))
        return dict(table=table, key=key, kwargs=kws)

    def x_cmd_prologue(self, f, maker):
        """parser = <maker>(); args = parser.parse_args(args=args)"""
        ps = self.params(f)
        b = self.X.body_nodoc(f)
        try:
            assert len(ps) == 1 and _is_const(ps[0][1]) and ps[0][1].value is None
            av = ps[0][0]
            st = b[0]
            assert isinstance(st, ast.Assign) and len(st.targets) == 1 and _is_name(st.targets[0])
            pv, c = st.targets[0].id, st.value
            assert isinstance(c, ast.Call) and _is_name(c.func, maker) and not c.args and not c.keywords
            st = b[1]
            assert isinstance(st, ast.Assign) and len(st.targets) == 1 and _is_name(st.targets[0], av)
            c = st.value
            assert isinstance(c, ast.Call) and _attr_of(c.func, pv) == "parse_args" and not c.args
            assert len(c.keywords) == 1 and c.keywords[0].arg == "args" and _is_name(c.keywords[0].value, av)
            return av, b[2:]
        except (AssertionError, AttributeError, IndexError):
            self.fail("%s: prologue is not understood" % f.name, f)

    def x_diff_command(self, f):
        av, b = self.x_cmd_prologue(f, "make_diff_parser")
        try:
            assert len(b) == 6
            # if args.w: normalize = formatting.A else: normalize = formatting.B
            st = b[0]
            assert isinstance(st, ast.If) and len(st.body) == 1 and len(st.orelse) == 1
            test = _attr_of(st.test, av)
            a1, a2 = st.body[0], st.orelse[0]
            assert test and all(isinstance(a, ast.Assign) and len(a.targets) == 1 and _is_name(a.targets[0]) for a in (a1, a2))
            nv = a1.targets[0].id
            assert a2.targets[0].id == nv
            then, els = _attr_of(a1.value, "formatting"), _attr_of(a2.value, "formatting")
            assert then in [n for n, _ in self.ws] and els in [n for n, _ in self.ws]
            # formatter = FORMATTERS[args.formatter](...)
            st = b[1]
            assert isinstance(st, ast.Assign) and len(st.targets) == 1 and _is_name(st.targets[0])
            fv = st.targets[0].id
            fmt = self.x_fmt_ctor(st.value, av)
            assert fmt["table"] is not None
            # diff_options = {...}
            st = b[2]
            assert isinstance(st, ast.Assign) and len(st.targets) == 1 and _is_name(st.targets[0]) and isinstance(st.value, ast.Dict)
            ov = st.targets[0].id
            options = []
            for k, v in zip(st.value.keys, st.value.values):
                assert _is_const(k, str)
                at = _attr_of(v, av)
                if at is not None:
                    options.append((k.value, "OArg %s" % self.s(at)))
                else:
                    assert isinstance(v, ast.Call) and _is_name(v.func) and v.func.id in self.funcs and len(v.args) == 1 \
                        and not v.keywords and _attr_of(v.args[0], av) is not None
                    options.append((k.value, "OCall %s %s" % (self.s(v.func.id), self.s(_attr_of(v.args[0], av)))))
            assert len({k for k, _ in options}) == len(options)
            # result = diff_files(...)
            st = b[3]
            assert isinstance(st, ast.Assign) and len(st.targets) == 1 and _is_name(st.targets[0])
            rv = st.targets[0].id
            call, inline = self.x_api_call(st.value, f, av)
            assert inline is None
            # print(result)
            st = b[4]
            assert isinstance(st, ast.Expr) and isinstance(st.value, ast.Call) and _is_name(st.value.func, "print") \
                and len(st.value.args) == 1 and _is_name(st.value.args[0]) and not st.value.keywords
            printed = st.value.args[0].id
            # if args.check: [if args.formatter == "xml": result = diff_files(.., formatter=formatting.X(..))]; if len(result) > 0: return 1
            st = b[5]
            assert isinstance(st, ast.If) and not st.orelse and len(st.body) == 2
            chk = _attr_of(st.test, av)
            assert chk
            r, t = st.body
            assert isinstance(r, ast.If) and not r.orelse and len(r.body) == 1
            c = r.test
            assert isinstance(c, ast.Compare) and len(c.ops) == 1 and isinstance(c.ops[0], ast.Eq) \
                and _attr_of(c.left, av) and _is_const(c.comparators[0], str)
            ra, rval = _attr_of(c.left, av), c.comparators[0].value
            asg = r.body[0]
            assert isinstance(asg, ast.Assign) and len(asg.targets) == 1 and _is_name(asg.targets[0])
            rtarget = asg.targets[0].id
            rcall, rinline = self.x_api_call(asg.value, f, av)
            assert rinline is not None and rinline["table"] is None
            assert isinstance(t, ast.If) and not t.orelse and len(t.body) == 1
            c = t.test
            ops = {ast.LtE: "<=", ast.Gt: ">", ast.Lt: "<", ast.GtE: ">="}
            assert isinstance(c, ast.Compare) and len(c.ops) == 1 and type(c.ops[0]) in ops and _is_const(c.comparators[0], int)
            lc = c.left
            assert isinstance(lc, ast.Call) and _is_name(lc.func) and len(lc.args) == 1 and _is_name(lc.args[0]) and not lc.keywords
            ret = t.body[0]
            assert isinstance(ret, ast.Return) and _is_const(ret.value, int)
            # the only other assignments to the local names are the ones above
            names = [nv, fv, ov, rv]
            assert len(set(names + [av])) == 5
            self.diff_cmd = dict(norm_var=nv, test=test, then=then, els=els, fmt_var=fv, fmt=fmt, opts_var=ov, options=options,
                                 result_var=rv, call=call, printed=printed, check=chk, recheck_attr=ra, recheck_value=rval,
                                 recheck_target=rtarget, recheck_call=rcall, recheck_fmt=rinline, check_fn=lc.func.id,
                                 check_var=lc.args[0].id, check_op=ops[type(c.ops[0])], check_bound=c.comparators[0].value,
                                 check_ret=ret.value.value)
        except (AssertionError, AttributeError, IndexError):
            self.fail("diff_command: shape is not understood", f)

    def x_patch_command(self, f):
        av, b = self.x_cmd_prologue(f, "make_patch_parser")
        try:
            assert len(b) == 2
            st = b[0]
            assert isinstance(st, ast.Assign) and len(st.targets) == 1 and _is_name(st.targets[0])
            call, inline = self.x_api_call(st.value, f, av)
            assert inline is None and not call["kwargs"]
            p = b[1]
            assert isinstance(p, ast.Expr) and isinstance(p.value, ast.Call) and _is_name(p.value.func, "print") \
                and len(p.value.args) == 1 and _is_name(p.value.args[0]) and not p.value.keywords
            self.patch_cmd = dict(result_var=st.targets[0].id, callee=call["callee"], args=call["args"],
                                  printed=p.value.args[0].id)
        except (AssertionError, AttributeError, IndexError):
            self.fail("patch_command: shape is not understood", f)

    def x_patch_tree(self, f):
        ps = self.params(f, allow_defaults=False)
        b = self.X.body_nodoc(f)
        try:
            assert len(b) == 2
            st = b[0]
            assert isinstance(st, ast.Assign) and len(st.targets) == 1 and _is_name(st.targets[0])
            c = st.value
            cls = _attr_of(c.func, "patch")
            assert isinstance(c, ast.Call) and cls and not c.args and not c.keywords
            r = b[1]
            assert isinstance(r, ast.Return)
            c = r.value
            assert isinstance(c, ast.Call) and isinstance(c.func, ast.Attribute) and _is_name(c.func.value, st.targets[0].id)
            assert all(_is_name(a) for a in c.args) and not c.keywords
            self.patch_tree = dict(name=f.name, params=[p for p, _ in ps], cls=cls, method=c.func.attr,
                                   args=[a.id for a in c.args])
        except (AssertionError, AttributeError, IndexError):
            self.fail("patch_tree: shape is not understood", f)

    def x_patch_fn(self, f):
        ps = self.params(f)
        steps = []
        b = self.X.body_nodoc(f)
        for i, st in enumerate(b):
            try:
                if isinstance(st, ast.If):
                    # the file-name-or-stream block of patch_file: pinned as a whole
                    self.X.pin("main.%s.read_block" % f.name, st)
                    t = st.test
                    assert isinstance(t, ast.Call) and _is_name(t.func, "isinstance") and _is_name(t.args[0]) and _is_name(t.args[1], "str")
                    v = t.args[0].id
                    w = st.body[0]
                    assert isinstance(w, ast.With) and len(w.items) == 1
                    oc = w.items[0].context_expr
                    assert isinstance(oc, ast.Call) and _is_name(oc.func, "open") and _is_name(oc.args[0], v)
                    enc = [k.value for k in oc.keywords if k.arg == "encoding"]
                    assert len(enc) == 1 and _is_name(enc[0])
                    steps.append("PReadActions %s %s" % (self.s(v), self.s(enc[0].id)))
                elif isinstance(st, ast.Assign) and len(st.targets) == 1 and _is_name(st.targets[0]):
                    tg, c = st.targets[0].id, st.value
                    assert isinstance(c, ast.Call) and not c.keywords and all(_is_name(a) for a in c.args)
                    fn = _attr_of(c.func, "etree")
                    if fn is not None:
                        assert len(c.args) == 1
                        steps.append("PParseTree %s %s %s" % (self.s(tg), self.s(fn), self.s(c.args[0].id)))
                    elif _is_name(c.func):
                        assert len(c.args) == 2
                        steps.append("PPatch %s %s %s %s" % (self.s(tg), self.s(c.func.id), self.s(c.args[0].id),
                                                            self.s(c.args[1].id)))
                    else:
                        # patch.<Cls>().parse(x)
                        assert isinstance(c.func, ast.Attribute) and c.func.attr == "parse" and len(c.args) == 1
                        k = c.func.value
                        assert isinstance(k, ast.Call) and not k.args and not k.keywords and _attr_of(k.func, "patch")
                        steps.append("PParseActions %s %s %s" % (self.s(tg), self.s(_attr_of(k.func, "patch")), self.s(c.args[0].id)))
                elif isinstance(st, ast.Return):
                    c = st.value
                    assert isinstance(c, ast.Call) and _attr_of(c.func, "etree") and len(c.args) == 1 and _is_name(c.args[0]) \
                        and not c.keywords and i == len(b) - 1
                    steps.append("PReturnUnicode %s %s" % (self.s(_attr_of(c.func, "etree")), self.s(c.args[0].id)))
                else:
                    raise AssertionError
            except (AssertionError, AttributeError, IndexError):
                self.fail("%s: statement is not understood" % f.name, st)
        return dict(name=f.name, params=ps, steps=steps)

    # ------------------------------------------------------------------ output
    HEAD = ("(* GENERATED by translator/xl_main.py from /repo/xmldiff/{main,formatting,diff}.py -- do not edit *)\n"
            "From Coq Require Import List NArith ZArith. Import ListNotations.\nRequire Import XV.Cli.\n")

    def flags_v(self):
        L = [self.HEAD]
        cl = []
        for name, nd, pd, stores in self.classes:
            cl.append("{| fc_name := %s; fc_norm_default := %s; fc_pretty_default := %s; fc_stores := %s |}" % (
                self.s(name), self.s(nd), "true" if pd else "false", self.spairs(stores)))
        L.append("Definition flags : flags_tables := {|\n  ft_ws := %s;\n  ft_classes := %s;\n  ft_formatters := %s;\n"
                 "  ft_diff_attr := %s; ft_diff_default := %d%%N; ft_diff_mask := %s; ft_diff_parser_kw := %s;\n"
                 "  ft_text_attr := %s; ft_text_mask := %s; ft_text_ops := %s |}.\n" % (
                     self.l(self.pair(self.s(n), "%d%%N" % v) for n, v in self.ws), self.l(cl).replace("; {|", ";\n     {|"),
                     self.spairs(self.formatters), self.s(self.diff_attr), self.diff_default, self.s(self.diff_mask),
                     self.s(self.diff_parser_kw), self.s(self.text_attr), self.s(self.text_mask), self.strs(self.text_ops)))
        return "".join(L)

    def opt_v(self, o):
        return ("{| co_flags := %s; co_dest := %s; co_default := %s; co_type := %s; co_choices := %s; co_action := %s; "
                "co_nargs := %s; co_group := %s |}" % (
                    self.strs(o["flags"]), self.opt(o["dest"]), self.opt(o["default"], lambda x: x), self.opt(o["type"]),
                    self.opt(o["choices"], lambda x: x), self.opt(o["action"]), self.opt(o["nargs"]),
                    "None" if o["group"] is None else "(Some %d)" % o["group"]))

    def fmt_ctor_v(self, c):
        return "{| fk_table := %s; fk_key := %s; fk_kwargs := %s |}" % (
            self.opt(c["table"]), self.s(c["key"]), self.l(self.pair(self.s(k), v) for k, v in c["kwargs"]))

    def api_call_v(self, c):
        return "{| ac_callee := %s; ac_args := %s; ac_kwargs := %s |}" % (
            self.s(c["callee"]), self.strs(c["args"]), self.spairs(c["kwargs"]))

    def cli_v(self):
        D, P, V = self.diff_cmd, self.patch_cmd, self.validate
        L = [self.HEAD]
        L.append("Definition diff_options_table : list cli_opt := %s.\n" % self.l(self.opt_v(o) for o in self.diff_opts).replace("; {|", ";\n  {|"))
        L.append("Definition patch_options_table : list cli_opt := %s.\n" % self.l(self.opt_v(o) for o in self.patch_opts).replace("; {|", ";\n  {|"))
        L.append("Definition diff_command_table : diff_cmd := {|\n  dcm_parser_fn := %s;\n  dcm_norm_var := %s; dcm_norm_test := %s; "
                 "dcm_norm_then := %s; dcm_norm_else := %s;\n  dcm_fmt_var := %s; dcm_fmt := %s;\n  dcm_opts_var := %s; dcm_options := %s;\n"
                 "  dcm_result_var := %s; dcm_call := %s;\n  dcm_printed := %s;\n  dcm_check_attr := %s;\n  dcm_recheck_attr := %s; "
                 "dcm_recheck_value := %s;\n  dcm_recheck_target := %s; dcm_recheck_call := %s;\n  dcm_recheck_fmt := %s;\n"
                 "  dcm_check_fn := %s; dcm_check_var := %s; dcm_check_op := %s; dcm_check_bound := (%d)%%Z;\n  dcm_check_ret := (%d)%%Z |}.\n" % (
                     self.s("make_diff_parser"), self.s(D["norm_var"]), self.s(D["test"]), self.s(D["then"]), self.s(D["els"]),
                     self.s(D["fmt_var"]), self.fmt_ctor_v(D["fmt"]), self.s(D["opts_var"]),
                     self.l(self.pair(self.s(k), "(%s)" % v) for k, v in D["options"]),
                     self.s(D["result_var"]), self.api_call_v(D["call"]), self.s(D["printed"]), self.s(D["check"]),
                     self.s(D["recheck_attr"]), self.s(D["recheck_value"]), self.s(D["recheck_target"]),
                     self.api_call_v(D["recheck_call"]), self.fmt_ctor_v(D["recheck_fmt"]), self.s(D["check_fn"]),
                     self.s(D["check_var"]), self.s(D["check_op"]), D["check_bound"], D["check_ret"]))
        L.append("Definition patch_command_table : patch_cmd := {| pcm_parser_fn := %s; pcm_result_var := %s; pcm_callee := %s; "
                 "pcm_args := %s; pcm_printed := %s |}.\n" % (self.s("make_patch_parser"), self.s(P["result_var"]), self.s(P["callee"]),
                                                           self.strs(P["args"]), self.s(P["printed"])))
        sf = []
        for f in self.split_fns:
            at = "None" if f["at"] is None else "(Some (%s, (%d)%%Z))" % (self.s(f["at"][0]), f["at"][1])
            sf.append("{| sf_name := %s; sf_none_empty := true; sf_sep := %s; sf_at := %s |}" % (self.s(f["name"]), self.s(f["sep"]), at))
        L.append("Definition split_fns_table : list split_fn := %s.\n" % self.l(sf))
        L.append("Definition validate_table : validate_fn := {| vf_name := %s; vf_conv := %s; vf_exc := %s; vf_conv_msg := %s; "
                 "vf_checks := %s |}.\n" % (self.s(V["name"]), self.s(V["conv"]), self.s(V["exc"]), self.s(V["conv_msg"]), self.l(
                     "{| fck_op := %s; fck_bound := (%d)%%Z; fck_msg := %s |}" % (self.s(o), b, self.s(m)) for o, b, m in V["checks"])))
        L.append("Definition cli : cli_tables := {| ct_diff_opts := diff_options_table; ct_patch_opts := patch_options_table; "
                 "ct_diff_cmd := diff_command_table; ct_patch_cmd := patch_command_table; ct_split_fns := split_fns_table; "
                 "ct_validate := validate_table; ct_differ_params := %s |}.\n" % self.strs(self.differ_params))
        return "".join(L)

    def entry_v(self):
        C = self.core
        L = [self.HEAD]
        ws = []
        for w in self.wrappers:
            ws.append("{| w_name := %s; w_params := %s; w_callee := %s; w_parse := %s; w_pos := %s; w_kw := %s |}" % (
                self.s(w["name"]), self.params_v(w["params"]), self.s(w["callee"]), self.s(w["parse"]), self.strs(w["pos"]),
                self.spairs(w["kw"])))
        core = ("{| dco_name := %s; dco_params := %s; dco_norm_var := %s; dco_norm_obj := %s; dco_parser_var := %s; "
                "dco_parser_ctor := %s; dco_parser_kw := %s;\n  dco_parses := %s; dco_callee := %s; dco_pos := %s; dco_kw := %s |}" % (
                    self.s(C["name"]), self.params_v(C["params"]), self.s(C["norm_var"]), self.s(C["norm_obj"]), self.s(C["parser_var"]),
                    self.s(C["ctor"]), self.spairs(C["pkw"]),
                    self.l("(%s, %s, %s)" % (self.s(t), self.s(fn), self.strs(a)) for t, fn, a in C["parses"]),
                    self.s(C["callee"]), self.strs(C["pos"]), self.spairs(C["kw"])))
        T = self.patch_tree
        pt = "{| pt_name := %s; pt_params := %s; pt_cls := %s; pt_method := %s; pt_args := %s |}" % (
            self.s(T["name"]), self.strs(T["params"]), self.s(T["cls"]), self.s(T["method"]), self.strs(T["args"]))
        pfs = []
        for f in self.patch_fns:
            pfs.append("{| pf_name := %s; pf_params := %s; pf_steps := %s |}" % (self.s(f["name"]), self.params_v(f["params"]),
                                                                             self.l(f["steps"])))
        L.append("Definition entry : entry_tables := {|\n  et_wrappers := %s;\n  et_core := %s;\n  et_trees_name := %s; "
                 "et_trees_params := %s;\n  et_trees := %s;\n  et_patch_tree := %s;\n  et_patch_fns := %s |}.\n" % (
                     self.l(ws).replace("; {|", ";\n     {|"), core, self.s("diff_trees"), self.params_v(self.trees_params),
                     self.l(self.trees_steps), pt, self.l(pfs).replace("; {|", ";\n     {|")))
        return "".join(L)
