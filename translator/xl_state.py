"""Translator plug-in for C06 (object state of Differ / Patcher / formatters).

Runs on every build (see xlate.py: every translator/xl_*.py defining emit(X, repo, out)).

1. PINS (X.pin, compared with translator/shapes.json) the structure of the rigid
   glue that coq/theories/DifferState.v mirrors line by line:
       Differ.clear, Differ.set_trees, Differ.append_match, the prologue of
       Differ.match (everything before "Generate the node lists"), the first
       statement of Differ.diff, Patcher.patch, Patcher.nsmap,
       DiffFormatter.__init__/prepare/finalize/format, XmlDiffFormatter.format,
       main.diff_trees.
2. READS from the source the facts the model branches on (guards of the `if`s,
   the attributes clear() resets, ...) and CHECKS syntactically, failing closed:
       - the tails of match() and diff() never rebind an attribute of self;
       - no DiffFormatter method other than __init__ stores to self.* or reads a
         data attribute of self;
       - XmlDiffFormatter stores only self._nsmap, only in format(), before the loop;
       - in class Differ a Python set is only ever iterated through sorted(...)
         (update_node_attr in particular) -- hash-seed independence of the script.
3. EMITS coq/theories/Gen/StateShape.v with those facts as Gallina tables and
   booleans; Properties/C06.v evaluates `state_shape_ok` on them (vm_compute) and
   the theorems take that as their premise.
"""
import ast
import os

FIELD = {"left": "FLeft", "right": "FRight", "_matches": "FMatches", "_l2rmap": "FL2R",
         "_r2lmap": "FR2L", "_inorder": "FInorder", "_text_cache": "FTextCache"}


def _self_attr(node, attr=None):
    return (isinstance(node, ast.Attribute) and isinstance(node.value, ast.Name) and node.value.id == "self"
            and (attr is None or node.attr == attr))


def _is_none(node):
    return isinstance(node, ast.Constant) and node.value is None


def _parse(repo, rel):
    return ast.parse(open(os.path.join(repo, rel)).read())


def _funcs(cls):
    """All FunctionDefs of a class (properties included), by name."""
    return {f.name: f for f in cls.body if isinstance(f, ast.FunctionDef)}


def _stores_to_self(X, nodes, where):
    """Attribute names of `self` that are stored to / deleted / set through setattr
    anywhere below `nodes`.  global/nonlocal and self.__dict__ / vars(self) fail."""
    out = []
    for top in nodes:
        for n in ast.walk(top):
            if isinstance(n, (ast.Global, ast.Nonlocal)):
                X.fail("%s: global/nonlocal statement" % where, n)
            if _self_attr(n) and isinstance(n.ctx, (ast.Store, ast.Del)):
                out.append(n.attr)
            if _self_attr(n, "__dict__"):
                X.fail("%s: self.__dict__ is used" % where, n)
            if isinstance(n, ast.Call) and isinstance(n.func, ast.Name) and n.func.id in ("setattr", "delattr", "vars"):
                if n.args and isinstance(n.args[0], ast.Name) and n.args[0].id == "self":
                    X.fail("%s: %s(self, ...)" % (where, n.func.id), n)
    return out


def _guard(X, test, where):
    """`a or b or c` over the four known atoms -> list of gatom constructor names."""
    vals = test.values if isinstance(test, ast.BoolOp) and isinstance(test.op, ast.Or) else [test]
    atoms = []
    for v in vals:
        if (isinstance(v, ast.Compare) and len(v.ops) == 1 and isinstance(v.ops[0], ast.IsNot)
                and _is_none(v.comparators[0])):
            if isinstance(v.left, ast.Name) and v.left.id in ("left", "right"):
                atoms.append(v.left.id + "_is_not_none")
                continue
            if _self_attr(v.left, "_matches"):
                atoms.append("matches_is_not_none")
                continue
        if isinstance(v, ast.UnaryOp) and isinstance(v.op, ast.Not) and _self_attr(v.operand, "_matches"):
            atoms.append("not_matches")
            continue
        X.fail("%s: unknown guard atom %s" % (where, ast.dump(v)[:120]), v)
    return atoms


def _call_self(node, meth, argnames):
    """Expr(self.<meth>(<argnames as plain names>))"""
    if not (isinstance(node, ast.Expr) and isinstance(node.value, ast.Call)):
        return False
    c = node.value
    return (_self_attr(c.func, meth) and not c.keywords and len(c.args) == len(argnames)
            and all(isinstance(a, ast.Name) and a.id == n for a, n in zip(c.args, argnames)))


def _defaults_none(X, f, where):
    a = f.args
    names = [x.arg for x in a.args]
    if names != ["self", "left", "right"] or a.vararg or a.kwarg or a.kwonlyargs or a.posonlyargs:
        X.fail("%s: unexpected parameters %r" % (where, names), f)
    if not (len(a.defaults) == 2 and all(_is_none(d) for d in a.defaults)):
        X.fail("%s: the defaults of left/right are not None" % where, f)


# ---------------------------------------------------------------------------
# diff.py


def _differ(X, repo):
    t = _parse(repo, "xmldiff/diff.py")
    cls = X.get_class(t, "Differ")
    fs = X.get_funcs(cls)
    facts = {}

    # -- __init__ ends with self.clear()
    init = X.body_nodoc(fs["__init__"])
    if not _call_self(init[-1], "clear", []):
        X.fail("Differ.__init__ does not end with self.clear()", fs["__init__"])

    # -- clear
    f = fs["clear"]
    X.pin("C06.Differ.clear", f)
    cleared = []
    for st in X.body_nodoc(f):
        if not (isinstance(st, ast.Assign) and len(st.targets) == 1 and _self_attr(st.targets[0])):
            X.fail("Differ.clear: unknown statement", st)
        name = st.targets[0].attr
        if name not in FIELD:
            X.fail("Differ.clear: unknown attribute %s" % name, st)
        if name == "_text_cache":
            if not (isinstance(st.value, ast.Dict) and not st.value.keys):
                X.fail("Differ.clear: _text_cache is not reset to {}", st)
        elif not _is_none(st.value):
            X.fail("Differ.clear: %s is not reset to None" % name, st)
        cleared.append(FIELD[name])
    facts["clear"] = cleared

    # -- set_trees
    f = fs["set_trees"]
    X.pin("C06.Differ.set_trees", f)
    b = X.body_nodoc(f)
    if [x.arg for x in f.args.args] != ["self", "left", "right"] or f.args.defaults:
        X.fail("Differ.set_trees: unexpected parameters", f)
    facts["set_trees_clears_first"] = _call_self(b[0], "clear", [])
    assigns, deep, raises = [], False, False
    for st in b[1:]:
        for n in ast.walk(st):
            if isinstance(n, ast.Raise):
                raises = (isinstance(n.exc, ast.Call) and isinstance(n.exc.func, ast.Name) and n.exc.func.id == "TypeError")
        if isinstance(st, ast.Assign) and len(st.targets) == 1 and _self_attr(st.targets[0]):
            name = st.targets[0].attr
            if name not in FIELD:
                X.fail("Differ.set_trees: unknown attribute %s" % name, st)
            assigns.append(FIELD[name])
            if name == "left":
                v = st.value
                deep = (isinstance(v, ast.Call) and isinstance(v.func, ast.Name) and v.func.id == "deepcopy"
                        and len(v.args) == 1 and isinstance(v.args[0], ast.Name) and v.args[0].id == "left")
            if name == "right" and not (isinstance(st.value, ast.Name) and st.value.id == "right"):
                X.fail("Differ.set_trees: self.right is not bound to the argument", st)
    if sorted(_stores_to_self(X, b, "Differ.set_trees")) != sorted(["left", "right"]):
        X.fail("Differ.set_trees stores to attributes other than left/right", f)
    # the type check comes before the two assignments
    idx_raise = [i for i, st in enumerate(b) if any(isinstance(n, ast.Raise) for n in ast.walk(st))]
    idx_asg = [i for i, st in enumerate(b) if isinstance(st, ast.Assign) and _self_attr(st.targets[0])]
    if not (idx_raise and idx_asg and max(idx_raise) < min(idx_asg)):
        X.fail("Differ.set_trees: the TypeError check does not precede the assignments", f)
    facts["set_trees_assigns"] = assigns
    facts["set_trees_deepcopies_left"] = deep
    facts["set_trees_raises_typeerror"] = raises

    # -- append_match
    f = fs["append_match"]
    X.pin("C06.Differ.append_match", f)
    upd = []
    for st in X.body_nodoc(f):
        for n in ast.walk(st):
            if _self_attr(n) and n.attr in FIELD and FIELD[n.attr] not in upd:
                upd.append(FIELD[n.attr])
    facts["append_match_updates"] = upd

    # -- match: prologue
    f = fs["match"]
    _defaults_none(X, f, "Differ.match")
    b = X.body_nodoc(f)
    cut = None
    for i, st in enumerate(b):
        if (isinstance(st, ast.Assign) and len(st.targets) == 1 and isinstance(st.targets[0], ast.Name)
                and st.targets[0].id == "lnodes"):
            cut = i
            break
    if cut is None or cut < 2:
        X.fail("Differ.match: cannot find the end of the prologue (lnodes = ...)", f)
    pro, tail = b[:cut], b[cut:]
    X.pin("C06.Differ.match.prologue", ast.Module(body=pro, type_ignores=[]))
    g1, g2 = pro[0], pro[1]
    if not (isinstance(g1, ast.If) and not g1.orelse and len(g1.body) == 1
            and _call_self(g1.body[0], "set_trees", ["left", "right"])):
        X.fail("Differ.match: first statement is not `if ...: self.set_trees(left, right)`", g1)
    if not (isinstance(g2, ast.If) and not g2.orelse and len(g2.body) == 1 and isinstance(g2.body[0], ast.Return)
            and _self_attr(g2.body[0].value, "_matches")):
        X.fail("Differ.match: second statement is not `if ...: return self._matches`", g2)
    facts["match_guard"] = _guard(X, g1.test, "Differ.match (set_trees guard)")
    facts["cache_guard"] = _guard(X, g2.test, "Differ.match (cache guard)")
    inits = []
    for st in pro[2:]:
        if not (isinstance(st, ast.Assign) and len(st.targets) == 1 and _self_attr(st.targets[0])
                and st.targets[0].attr in FIELD):
            X.fail("Differ.match: unknown prologue statement", st)
        v = st.value
        empty = ((isinstance(v, ast.List) and not v.elts) or (isinstance(v, ast.Dict) and not v.keys)
                 or (isinstance(v, ast.Call) and isinstance(v.func, ast.Name) and v.func.id == "set" and not v.args))
        if not empty:
            X.fail("Differ.match: a cache is not initialised empty", st)
        inits.append(FIELD[st.targets[0].attr])
    facts["match_prologue_inits"] = inits
    # first statements of the tail traverse self.left, then self.right
    def trav(st, name, attr):
        v = st.value if isinstance(st, ast.Assign) else None
        return (isinstance(st, ast.Assign) and isinstance(st.targets[0], ast.Name) and st.targets[0].id == name
                and isinstance(v, ast.Call) and isinstance(v.func, ast.Name) and v.func.id == "list"
                and isinstance(v.args[0], ast.Call) and isinstance(v.args[0].func, ast.Attribute)
                and v.args[0].func.attr == "post_order_traverse" and _self_attr(v.args[0].args[0], attr))
    if not (trav(tail[0], "lnodes", "left") and trav(tail[1], "rnodes", "right")):
        X.fail("Differ.match: the node lists are not built from self.left / self.right", tail[0])
    facts["match_tail_stores_self"] = bool(_stores_to_self(X, tail, "Differ.match"))
    if not (isinstance(tail[-1], ast.Return) and _self_attr(tail[-1].value, "_matches")):
        X.fail("Differ.match does not end with `return self._matches`", tail[-1])

    # -- diff: first statement
    f = fs["diff"]
    _defaults_none(X, f, "Differ.diff")
    b = X.body_nodoc(f)
    g = b[0]
    X.pin("C06.Differ.diff.first", g)
    if not (isinstance(g, ast.If) and not g.orelse and len(g.body) == 1 and _call_self(g.body[0], "match", ["left", "right"])):
        X.fail("Differ.diff: first statement is not `if ...: self.match(left, right)`", g)
    facts["diff_guard"] = _guard(X, g.test, "Differ.diff")
    facts["diff_tail_stores_self"] = bool(_stores_to_self(X, b[1:], "Differ.diff"))
    # the generator reads self.right / self.left right after the guard
    def nsm(st, name, attr):
        return (isinstance(st, ast.Assign) and isinstance(st.targets[0], ast.Name) and st.targets[0].id == name
                and isinstance(st.value, ast.Attribute) and st.value.attr == "nsmap" and _self_attr(st.value.value, attr))
    if not (nsm(b[1], "rnsmap", "right") and nsm(b[2], "lnsmap", "left")):
        X.fail("Differ.diff: the generator does not start with rnsmap = self.right.nsmap; lnsmap = self.left.nsmap", b[1])
    if not any(isinstance(n, (ast.Yield, ast.YieldFrom)) for n in ast.walk(f)):
        X.fail("Differ.diff is not a generator", f)

    # -- other methods never rebind left / right / _matches
    for name, fn in fs.items():
        if name in ("__init__", "clear", "set_trees", "match", "diff"):
            continue
        bad = [a for a in _stores_to_self(X, X.body_nodoc(fn), "Differ." + name) if a in ("left", "right", "_matches")]
        if bad:
            X.fail("Differ.%s rebinds self.%s" % (name, bad[0]), fn)

    # -- set iteration
    facts["attr_sorted_loops"] = _set_iteration(X, fs)
    return facts


SET_METHODS_RET = ("difference", "intersection", "union", "symmetric_difference", "copy")
SET_METHODS_OK = SET_METHODS_RET + ("remove", "add", "discard", "update", "difference_update",
                                    "intersection_update", "issubset", "issuperset", "isdisjoint")


def _set_iteration(X, fs):
    """In every method of Differ: a local bound to a set expression (or self._inorder) may only be
    (a) the single argument of sorted(...), (b) the right operand of in / not in,
    (c) the receiver or an argument of a set-algebra method.  Anything else -- for x in s,
    list(s), s.pop(), min(s), a comprehension over s -- is order dependent and fails closed.
    Returns the names iterated (through sorted) by the for loops of update_node_attr, in order."""
    loops = []
    for fname, f in fs.items():
        setnames = set()

        def is_set_expr(v):
            if isinstance(v, (ast.Set, ast.SetComp)):
                return True
            if isinstance(v, ast.Call) and isinstance(v.func, ast.Name) and v.func.id in ("set", "frozenset"):
                return True
            if (isinstance(v, ast.Call) and isinstance(v.func, ast.Attribute) and v.func.attr in SET_METHODS_RET
                    and is_set_ref(v.func.value)):
                return True
            if isinstance(v, ast.BinOp) and isinstance(v.op, (ast.BitOr, ast.BitAnd, ast.Sub, ast.BitXor)) \
                    and (is_set_ref(v.left) or is_set_ref(v.right)):
                return True
            return False

        def is_set_ref(n):
            if isinstance(n, ast.Name):
                return n.id in setnames
            return _self_attr(n, "_inorder") or is_set_expr(n)

        # fixpoint over assignments
        changed = True
        while changed:
            changed = False
            for n in ast.walk(f):
                if isinstance(n, ast.Assign) and len(n.targets) == 1 and isinstance(n.targets[0], ast.Name):
                    if is_set_expr(n.value) and n.targets[0].id not in setnames:
                        setnames.add(n.targets[0].id)
                        changed = True

        parents = {}
        for n in ast.walk(f):
            for c in ast.iter_child_nodes(n):
                parents[c] = n

        def allowed_use(ref):
            p = parents.get(ref)
            # self._inorder = set() : the initialisation itself
            if isinstance(ref, ast.Attribute) and isinstance(ref.ctx, ast.Store):
                return True
            if isinstance(ref, ast.Name) and isinstance(ref.ctx, ast.Store):
                return True
            if isinstance(p, ast.Call) and isinstance(p.func, ast.Name) and p.func.id == "sorted" \
                    and p.args == [ref] and not p.keywords:
                return True
            if isinstance(p, ast.Compare) and len(p.ops) == 1 and isinstance(p.ops[0], (ast.In, ast.NotIn)) \
                    and p.comparators[0] is ref:
                return True
            if isinstance(p, ast.Attribute) and p.value is ref and p.attr in SET_METHODS_OK \
                    and isinstance(parents.get(p), ast.Call) and parents[p].func is p:
                return True
            if isinstance(p, ast.Call) and isinstance(p.func, ast.Attribute) and p.func.attr in SET_METHODS_OK \
                    and ref in p.args and is_set_ref(p.func.value):
                return True
            return False

        for n in ast.walk(f):
            ref = None
            if isinstance(n, ast.Name) and n.id in setnames:
                ref = n
            elif _self_attr(n, "_inorder"):
                ref = n
            if ref is not None and not allowed_use(ref):
                X.fail("Differ.%s: the set %s is used in an order-dependent way" %
                       (fname, ast.unparse(ref)), ref)
            # set displays iterated directly
            if isinstance(n, (ast.For, ast.comprehension)) and is_set_expr(n.iter):
                X.fail("Differ.%s: iteration over a set expression" % fname, n.iter)

        if fname == "update_node_attr":
            for n in X.body_nodoc(f):
                for m in ast.walk(n):
                    if isinstance(m, ast.For):
                        it = m.iter
                        if not (isinstance(it, ast.Call) and isinstance(it.func, ast.Name) and it.func.id == "sorted"
                                and len(it.args) == 1 and not it.keywords and isinstance(it.args[0], ast.Name)
                                and it.args[0].id in setnames):
                            X.fail("Differ.update_node_attr: a for loop does not run over sorted(<set>)", m)
                        loops.append(it.args[0].id)
            comps = [m for m in ast.walk(f) if isinstance(m, ast.comprehension)]
            if len(comps) != 1:
                X.fail("Differ.update_node_attr: expected exactly one comprehension (newattrmap)", f)
            it = comps[0].iter
            if not (isinstance(it, ast.Call) and isinstance(it.func, ast.Attribute) and it.func.attr == "items"
                    and isinstance(it.func.value, ast.Attribute) and it.func.value.attr == "attrib"
                    and isinstance(it.func.value.value, ast.Name) and it.func.value.value.id == "right"):
                X.fail("Differ.update_node_attr: the comprehension does not run over right.attrib.items()", it)
            if not {"common_keys", "removed_keys", "new_keys"} <= setnames:
                X.fail("Differ.update_node_attr: common_keys / removed_keys / new_keys are not sets", f)
    if sorted(set(loops)) != ["common_keys", "new_keys", "removed_keys"]:
        X.fail("Differ.update_node_attr: the sorted loops are over %r" % loops)
    return loops


# ---------------------------------------------------------------------------
# patch.py


def _patcher(X, repo):
    t = _parse(repo, "xmldiff/patch.py")
    fs = _funcs(X.get_class(t, "Patcher"))
    facts = {}
    X.pin("C06.Patcher.patch", fs["patch"])
    X.pin("C06.Patcher.nsmap", fs["nsmap"])
    if "__init__" in fs:
        X.fail("Patcher has an __init__ (the model starts without _nsmap)", fs["__init__"])
    b = X.body_nodoc(fs["patch"])
    idx_ns = [i for i, st in enumerate(b) if isinstance(st, ast.Assign) and _self_attr(st.targets[0], "_nsmap")
              and isinstance(st.value, ast.Attribute) and st.value.attr == "nsmap"
              and isinstance(st.value.value, ast.Name) and st.value.value.id == "tree"]
    idx_for = [i for i, st in enumerate(b) if isinstance(st, ast.For)]
    facts["patcher_ns_from_tree"] = bool(idx_ns and idx_for and idx_ns[0] < idx_for[0])
    copyvar = None
    for st in b:
        if (isinstance(st, ast.Assign) and isinstance(st.targets[0], ast.Name) and isinstance(st.value, ast.Call)
                and isinstance(st.value.func, ast.Name) and st.value.func.id == "deepcopy"
                and len(st.value.args) == 1 and isinstance(st.value.args[0], ast.Name) and st.value.args[0].id == "tree"):
            copyvar = st.targets[0].id
    ok = copyvar is not None and len(idx_for) == 1
    if ok:
        loop = b[idx_for[0]]
        ok = (len(loop.body) == 1 and isinstance(loop.body[0], ast.Expr) and isinstance(loop.body[0].value, ast.Call)
              and _self_attr(loop.body[0].value.func, "handle_action") and len(loop.body[0].value.args) == 2
              and isinstance(loop.body[0].value.args[1], ast.Name) and loop.body[0].value.args[1].id == copyvar
              and isinstance(b[-1], ast.Return) and isinstance(b[-1].value, ast.Name) and b[-1].value.id == copyvar)
    facts["patcher_deepcopies_tree"] = bool(ok)
    # the only attribute of self ever stored is _nsmap, and only in patch()
    for name, f in fs.items():
        st = _stores_to_self(X, X.body_nodoc(f), "Patcher." + name)
        if name == "patch":
            if set(st) - {"_nsmap"}:
                X.fail("Patcher.patch stores to self.%s" % sorted(set(st) - {"_nsmap"})[0], f)
        elif st:
            X.fail("Patcher.%s stores to self.%s" % (name, st[0]), f)
    return facts


# ---------------------------------------------------------------------------
# formatting.py


def _formatters(X, repo):
    t = _parse(repo, "xmldiff/formatting.py")
    facts = {}
    # -- DiffFormatter
    cls = X.get_class(t, "DiffFormatter")
    fs = _funcs(cls)
    for name in ("__init__", "prepare", "finalize", "format"):
        if name not in fs:
            X.fail("DiffFormatter.%s missing" % name)
        X.pin("C06.DiffFormatter." + name, fs[name])
    init_fields = _stores_to_self(X, X.body_nodoc(fs["__init__"]), "DiffFormatter.__init__")
    facts["diff_formatter_init_fields"] = init_fields
    methods = set(fs)
    for name, f in fs.items():
        if name == "__init__":
            continue
        st = _stores_to_self(X, X.body_nodoc(f), "DiffFormatter." + name)
        if st:
            X.fail("DiffFormatter.%s assigns to self.%s" % (name, st[0]), f)
        for n in ast.walk(f):
            if _self_attr(n) and isinstance(n.ctx, ast.Load) and n.attr not in methods:
                X.fail("DiffFormatter.%s reads the data attribute self.%s" % (name, n.attr), n)
            if isinstance(n, ast.Call) and isinstance(n.func, ast.Name) and n.func.id == "getattr":
                a = n.args
                if not (len(a) == 2 and isinstance(a[0], ast.Name) and a[0].id == "self" and isinstance(a[1], ast.BinOp)
                        and isinstance(a[1].left, ast.Constant) and a[1].left.value == "_handle_"):
                    X.fail("DiffFormatter.%s: unknown getattr" % name, n)
    for p in ("prepare", "finalize"):
        b = X.body_nodoc(fs[p])
        if not (len(b) == 1 and isinstance(b[0], ast.Return) and b[0].value is None):
            X.fail("DiffFormatter.%s is not `return`" % p, fs[p])
    # module-level mutable state the handlers could write to
    for n in ast.walk(cls):
        if isinstance(n, ast.Name) and isinstance(n.ctx, (ast.Store, ast.Del)) and n.id.isupper():
            X.fail("DiffFormatter rebinds the module constant %s" % n.id, n)
    facts["diff_formatter_stateless"] = True

    # -- XmlDiffFormatter
    cls = X.get_class(t, "XmlDiffFormatter")
    fs = _funcs(cls)
    f = fs["format"]
    X.pin("C06.XmlDiffFormatter.format", f)
    methods = set(fs)
    for name, fn in fs.items():
        st = _stores_to_self(X, X.body_nodoc(fn), "XmlDiffFormatter." + name)
        if name == "format":
            if set(st) - {"_nsmap"}:
                X.fail("XmlDiffFormatter.format stores to self.%s" % sorted(set(st) - {"_nsmap"})[0], fn)
        elif name != "__init__" and st:
            X.fail("XmlDiffFormatter.%s assigns to self.%s" % (name, st[0]), fn)
        if name != "__init__":
            for n in ast.walk(fn):
                if _self_attr(n) and isinstance(n.ctx, ast.Load) and n.attr not in methods and n.attr != "_nsmap":
                    X.fail("XmlDiffFormatter.%s reads the data attribute self.%s" % (name, n.attr), n)
    b = X.body_nodoc(f)
    idx_reset = [i for i, st in enumerate(b) if isinstance(st, ast.Assign) and _self_attr(st.targets[0], "_nsmap")
                 and isinstance(st.value, ast.Dict) and not st.value.keys]
    idx_for = [i for i, st in enumerate(b) if isinstance(st, ast.For)]
    # every read of self._nsmap in format() comes after the reset
    first_read = None
    for i, st in enumerate(b):
        for n in ast.walk(st):
            if _self_attr(n, "_nsmap") and isinstance(n.ctx, ast.Load) and first_read is None:
                first_read = i
    facts["old_formatter_ns_reset"] = bool(idx_reset and idx_for and idx_reset[0] < idx_for[0]
                                           and (first_read is None or idx_reset[0] < first_read))
    deep = False
    for n in ast.walk(f):
        if (isinstance(n, ast.Assign) and isinstance(n.targets[0], ast.Name) and n.targets[0].id == "tree"
                and isinstance(n.value, ast.Call) and isinstance(n.value.func, ast.Name) and n.value.func.id == "deepcopy"
                and isinstance(n.value.args[0], ast.Name) and n.value.args[0].id == "orig_tree"):
            deep = True
    # orig_tree itself is only tested against None and deep-copied
    uses = [n for n in ast.walk(f) if isinstance(n, ast.Name) and n.id == "orig_tree" and isinstance(n.ctx, ast.Load)]
    if len(uses) != 2:
        X.fail("XmlDiffFormatter.format uses orig_tree other than `is not None` and deepcopy(orig_tree)", f)
    facts["old_formatter_deepcopies_tree"] = deep
    # a fresh Patcher per call
    fresh = any(isinstance(n, ast.Assign) and isinstance(n.targets[0], ast.Name) and n.targets[0].id == "patcher"
                and isinstance(n.value, ast.Call) and isinstance(n.value.func, ast.Name) and n.value.func.id == "Patcher"
                for n in b)
    facts["old_formatter_fresh_patcher"] = fresh
    return facts


# ---------------------------------------------------------------------------
# main.py


def _main(X, repo):
    t = _parse(repo, "xmldiff/main.py")
    f = None
    for st in t.body:
        if isinstance(st, ast.FunctionDef) and st.name == "diff_trees":
            f = st
        # no module-level Differ / Patcher / formatter INSTANCE
        if isinstance(st, ast.Assign):
            for n in ast.walk(st.value):
                fn = n.func if isinstance(n, ast.Call) else None
                nm = fn.attr if isinstance(fn, ast.Attribute) else fn.id if isinstance(fn, ast.Name) else None
                if nm in ("Differ", "Patcher", "DiffParser", "DiffFormatter", "XMLFormatter", "XmlDiffFormatter"):
                    X.fail("main.py: a module-level %s instance is shared between calls" % nm, st)
    if f is None:
        X.fail("main.diff_trees missing")
    X.pin("C06.main.diff_trees", f)
    fresh, used = False, False
    for n in ast.walk(f):
        if (isinstance(n, ast.Assign) and isinstance(n.targets[0], ast.Name) and n.targets[0].id == "differ"
                and isinstance(n.value, ast.Call) and isinstance(n.value.func, ast.Attribute)
                and n.value.func.attr == "Differ" and isinstance(n.value.func.value, ast.Name)
                and n.value.func.value.id == "diff"):
            fresh = True
        if (isinstance(n, ast.Call) and isinstance(n.func, ast.Attribute) and n.func.attr == "diff"
                and isinstance(n.func.value, ast.Name) and n.func.value.id == "differ"
                and [a.id for a in n.args if isinstance(a, ast.Name)] == ["left", "right"]):
            used = True
    facts = {"diff_trees_fresh_differ": fresh and used}
    pt = [st for st in t.body if isinstance(st, ast.FunctionDef) and st.name == "patch_tree"]
    if not pt:
        X.fail("main.patch_tree missing")
    X.pin("C06.main.patch_tree", pt[0])
    facts["patch_tree_fresh_patcher"] = any(
        isinstance(n, ast.Call) and isinstance(n.func, ast.Attribute) and n.func.attr == "Patcher"
        for n in ast.walk(pt[0]))
    return facts


# ---------------------------------------------------------------------------


def _b(v):
    return "true" if v else "false"


def emit(X, repo, out):
    if not hasattr(X, "body_nodoc"):
        X.fail("xlate.py lacks body_nodoc")
    d = _differ(X, repo)
    p = _patcher(X, repo)
    fm = _formatters(X, repo)
    m = _main(X, repo)
    required = {
        "set_trees_clears_first": d["set_trees_clears_first"],
        "set_trees_deepcopies_left": d["set_trees_deepcopies_left"],
        "set_trees_raises_typeerror": d["set_trees_raises_typeerror"],
        "match_tail_stores_self(negated)": not d["match_tail_stores_self"],
        "diff_tail_stores_self(negated)": not d["diff_tail_stores_self"],
        "patcher_deepcopies_tree": p["patcher_deepcopies_tree"],
        "old_formatter_deepcopies_tree": fm["old_formatter_deepcopies_tree"],
        "old_formatter_fresh_patcher": fm["old_formatter_fresh_patcher"],
        "diff_trees_fresh_differ": m["diff_trees_fresh_differ"],
        "patch_tree_fresh_patcher": m["patch_tree_fresh_patcher"],
    }
    for k, v in required.items():
        if not v:
            X.fail("C06 state shape: %s does not hold of the source" % k)
    q = lambda s: '"%s"%%string' % s
    L = ["(* GENERATED by translator/xl_state.py from /repo/xmldiff/{diff,patch,formatting,main}.py -- do not edit *)",
         "From Coq Require Import List Bool String. Import ListNotations.",
         "Require Import XV.DifferState.",
         "(* Differ.clear / the `if` guards of Differ.match and Differ.diff *)",
         "Definition differ_shape : dshape := {| sh_clear := %s; sh_match_guard := %s; sh_cache_guard := %s; sh_diff_guard := %s |}." % (
             X.clist(d["clear"]), X.clist(d["match_guard"]), X.clist(d["cache_guard"]), X.clist(d["diff_guard"])),
         "Definition differ_match_guard : list gatom := sh_match_guard differ_shape.",
         "Definition differ_cache_guard : list gatom := sh_cache_guard differ_shape.",
         "Definition differ_diff_guard : list gatom := sh_diff_guard differ_shape.",
         "(* Differ.set_trees: self.clear() first; TypeError before any assignment; left = deepcopy(left); right = right *)",
         "Definition set_trees_clears_first : bool := %s." % _b(d["set_trees_clears_first"]),
         "Definition set_trees_assigns : list dfield := %s." % X.clist(d["set_trees_assigns"]),
         "Definition set_trees_deepcopies_left : bool := %s." % _b(d["set_trees_deepcopies_left"]),
         "(* the prologue of Differ.match initialises these to empty; append_match updates these together *)",
         "Definition match_prologue_inits : list dfield := %s." % X.clist(d["match_prologue_inits"]),
         "Definition append_match_updates : list dfield := %s." % X.clist(d["append_match_updates"]),
         "(* after their first statements match() and diff() never rebind an attribute of self *)",
         "Definition match_tail_stores_self : bool := %s." % _b(d["match_tail_stores_self"]),
         "Definition diff_tail_stores_self : bool := %s." % _b(d["diff_tail_stores_self"]),
         "(* update_node_attr: the for loops run over sorted(<these sets>); no other iteration over a set in class Differ *)",
         "Definition attr_sorted_loops : list string := %s." % X.clist([q(s) for s in d["attr_sorted_loops"]]),
         "Definition set_iterations_sorted : bool := true.",
         "(* Patcher.patch: self._nsmap = tree.nsmap precedes the loop; the loop runs on deepcopy(tree) *)",
         "Definition patcher_ns_from_tree : bool := %s." % _b(p["patcher_ns_from_tree"]),
         "Definition patcher_deepcopies_tree : bool := %s." % _b(p["patcher_deepcopies_tree"]),
         "(* DiffFormatter: attributes set by __init__; no other method stores to self.* or reads a data attribute *)",
         "Definition diff_formatter_init_fields : list string := %s." % X.clist([q(s) for s in fm["diff_formatter_init_fields"]]),
         "Definition diff_formatter_stateless : bool := %s." % _b(fm["diff_formatter_stateless"]),
         "(* XmlDiffFormatter.format: self._nsmap = {} precedes every read and the loop; works on deepcopy(orig_tree) *)",
         "Definition old_formatter_ns_reset : bool := %s." % _b(fm["old_formatter_ns_reset"]),
         "Definition old_formatter_deepcopies_tree : bool := %s." % _b(fm["old_formatter_deepcopies_tree"]),
         "(* main.diff_trees creates diff.Differ(...) per call; main.patch_tree creates patch.Patcher() per call *)",
         "Definition diff_trees_fresh_differ : bool := %s." % _b(m["diff_trees_fresh_differ"]),
         "Definition patch_tree_fresh_patcher : bool := %s." % _b(m["patch_tree_fresh_patcher"]),
         ]
    X.write_if_changed(os.path.join(out, "StateShape.v"), "\n".join(L) + "\n")
