from lxml import etree
from xmldiff import main, formatting
# C14 probes
T='<a><b>text</b><c><d/></c></a>'
I='<a>\n  <b>text</b>\n  <c>\n    <d/>\n  </c>\n</a>'
for name,f in [('None',None),('Diff',formatting.DiffFormatter()),('Old',formatting.XmlDiffFormatter()),('XML default',formatting.XMLFormatter(pretty_print=False))]+[('XML %d'%n,formatting.XMLFormatter(normalize=n,pretty_print=False)) for n in range(4)]+[('Diff %d'%n,formatting.DiffFormatter(normalize=n)) for n in range(4)]:
    r=main.diff_texts(T,I,formatter=f)
    print(name, repr(r)[:160])
# mixed: element with text and children
print(main.diff_texts('<a>x<b/></a>','<a>x\n <b/>\n</a>'))
