import itertools, sys
from lxml import etree
from xmldiff import main, formatting
from copy import deepcopy

def canon(e):
    if e.tag is etree.Comment:
        return ('#c', e.text or '', e.tail or '')
    return (e.tag, tuple(sorted(e.attrib.items())), e.text or '', e.tail or '', tuple(canon(c) for c in e))

# enumerate small trees: tags a,b ; up to 4 nodes; no text
def trees(n, tags):
    # returns list of xml strings of forests with n nodes total?? do trees with exactly n nodes
    if n == 0: return []
    res=[]
    for t in tags:
        for kids in forests(n-1, tags):
            res.append('<%s>%s</%s>'%(t,''.join(kids),t))
    return res
from functools import lru_cache
@lru_cache(None)
def forests(n, tags):
    if n==0: return [()]
    res=[]
    for k in range(1,n+1):
        for t in trees(k,tags):
            for rest in forests(n-k,tags):
                res.append((t,)+rest)
    return res
tags=('a','b')
alltrees=[]
for n in range(1,5):
    alltrees+=trees(n,tags)
print(len(alltrees))
bad=0
for opts in [{}, {'fast_match':True}, {'best_match':True}]:
  bad=0; shown=0
  for l in alltrees:
    for r in alltrees:
        L=etree.fromstring(l); R=etree.fromstring(r)
        try:
            s=main.diff_trees(L,R,diff_options=opts)
            P=main.patch_tree(s,L)
            ok = canon(P)==canon(R)
        except Exception as ex:
            ok=False; s=repr(ex)
        if not ok:
            bad+=1
            if shown<6:
                shown+=1; print(opts,l,r,s)
  print(opts,'bad',bad)
