import random, itertools, collections
from copy import deepcopy
from lxml import etree
from xmldiff.formatting import PlaceholderMaker, XMLFormatter, T_OPEN,T_CLOSE,T_SINGLE
from xmldiff.diff_match_patch import diff_match_patch as D
def canon(e):
    return (e.tag, tuple(sorted(e.attrib.items())), e.text or '', e.tail or '', tuple(canon(c) for c in e))
rng=random.Random(3)
def genmixed(depth=0):
    tags=['p','b','i','img','span']
    e=etree.Element(rng.choice(tags) if depth else 'p')
    if rng.random()<.3: e.set('k',rng.choice('12'))
    if rng.random()<.7: e.text=rng.choice(['x','hello ','a b',' '])
    for _ in range(rng.choice([0,0,1,2,3]) if depth<3 else 0):
        c=genmixed(depth+1); e.append(c)
        if rng.random()<.6: c.tail=rng.choice(['t',' and ','z'])
    return e
stats=collections.Counter(); ex={}
for it in range(4000):
    root=etree.Element('doc'); 
    for _ in range(rng.randint(1,3)): root.append(genmixed())
    tt=tuple(t for t in ['p','span','b'] if rng.random()<.5)
    ft=tuple(t for t in ['b','i','span','img'] if rng.random()<.5)
    pm=PlaceholderMaker(tt,ft)
    if rng.random()<.5:
        other=etree.Element('doc'); other.append(genmixed()); pm.do_tree(other)
    t=deepcopy(root); before=canon(t)
    try:
        pm.do_tree(t); pm.undo_tree(t)
        if canon(t)!=before:
            stats['C11:mismatch']+=1
            k=etree.tostring(root).decode()
            if 'm' not in ex or len(k)<len(ex['m'][0]): ex['m']=(k,tt,ft,etree.tostring(t).decode())
    except Exception as e:
        stats['C11:'+type(e).__name__]+=1
        k=etree.tostring(root).decode()
        if 'e' not in ex or len(k)<len(ex['e'][0]): ex['e']=(k,tt,ft,repr(e))
print(dict(stats)); print(ex)
# C16
d=D(); bad=0; n=0
for la in range(0,6):
  for a in itertools.product('ab ',repeat=la):
    for lb in range(0,5):
      for b in itertools.product('ab ',repeat=lb):
        A=''.join(a);B=''.join(b); n+=1
        r=d.diff_main(A,B)
        def chk(r,tag):
            global bad
            t1=''.join(t for o,t in r if o!=1); t2=''.join(t for o,t in r if o!=-1)
            if t1!=A or t2!=B or any(t=='' for o,t in r): bad+=1; print(tag,repr(A),repr(B),r)
        chk(r,'main'); d.diff_cleanupSemantic(r); chk(r,'sem')
print('dmp',n,bad)
