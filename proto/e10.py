import sys, random, collections
from lxml import etree
from xmldiff import main
import interp, e2
rng=random.Random(int(sys.argv[1])); N=int(sys.argv[2])
optsl=[{}, {'fast_match':True}, {'best_match':True},{'F':0.9},{'F':0.1,'fast_match':True},{'ratio_mode':'faster','best_match':True}]
noop=0; tot=0; ex=None
for it in range(N):
    L=e2.gen(rng, rng.randint(2,9)); R=e2.mutate(rng,L) if rng.random()<0.7 else e2.gen(rng, rng.randint(1,8))
    for opts in optsl:
        s=main.diff_trees(L,R,diff_options=opts)
        T=interp.from_lxml(L); ns={k:v for k,v in L.nsmap.items() if k}
        for a in s:
            if type(a).__name__=='MoveNode':
                tot+=1
                n=interp.evalpath(T,a.node,ns)[0][0]; tg=interp.evalpath(T,a.target,ns)[0][0]
                if n.parent is tg and [k for k in tg.kids if k is not n][:a.position]==tg.kids[:tg.kids.index(n)] :
                    noop+=1; ex=ex or (etree.tostring(L),etree.tostring(R),opts,s)
            if type(a).__name__=='InsertNamespace': ns[a.prefix]=a.uri
            interp.apply(T,[a],ns) if type(a).__name__ not in('InsertNamespace','DeleteNamespace') else None
print(tot,noop,ex)
