from lxml import etree
from xmldiff import main, formatting, diff, patch, actions as A
import io, contextlib
# C02 comma
for val in ['a,b','a"b','a\\b','a]b','a\nb','a]\nb','x y','[',' lead', 'a, "b"', '']:
    act=[A.UpdateTextIn('/a[1]',val), A.InsertAttrib('/a[1]','k',val)]
    txt=formatting.DiffFormatter().format(act,None)
    try:
        back=list(patch.DiffParser().parse(txt))
        print(repr(val), back==act, len(txt.splitlines()))
    except Exception as e:
        print(repr(val),'EXC',type(e).__name__,e)
# C06 reuse
d=diff.Differ()
l1=etree.fromstring('<a><b/></a>'); r1=etree.fromstring('<a><c/></a>')
print(list(d.diff(l1,r1)))
print(list(d.diff(l1,r1)))
l2=etree.fromstring('<a/>'); r2=etree.fromstring('<a x="1"/>')
print(list(d.diff(l2,r2)))
# C15 check xml
open('l.xml','w').write('<a><b/></a>')
buf=io.StringIO()
with contextlib.redirect_stdout(buf):
    rc=main.diff_command(['--check','-f','xml','l.xml','l.xml'])
print('check xml rc',rc, repr(buf.getvalue()))
# C18
for l,r in [('<a><b/></a>','<a><c/><d/><b/></a>'),('<a><a/><a/></a>','<a><a><a/></a></a>')]:
    try: print(main.diff_texts(l,r,formatter=formatting.XmlDiffFormatter()))
    except Exception as e: print('old EXC',type(e).__name__,e)
# C09 tail after comment
print(main.diff_texts('<a><!--c-->tail<b/></a>','<a><!--c-->tail<b/></a>',formatter=formatting.XMLFormatter()))
print(main.diff_texts('<a><b/>tail<c/></a>','<a><c/></a>',formatter=formatting.XMLFormatter()))
