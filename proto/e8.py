import itertools, random
from xmldiff.utils import longest_common_subsequence as lcs
def dp(n,m,rel):
    t=[[0]*(m+1) for _ in range(n+1)]
    for i in range(n-1,-1,-1):
        for j in range(m-1,-1,-1):
            t[i][j]=max(t[i+1][j],t[i][j+1],(1+t[i+1][j+1]) if rel[i][j] else 0)
    return t[0][0]
bad=0;tot=0
for n in range(0,5):
  for m in range(0,5):
    if n*m>12: continue
    for bits in itertools.product([0,1],repeat=n*m):
        rel=[bits[i*m:(i+1)*m] for i in range(n)]
        L=list(range(n)); R=list(range(m))
        r=lcs(L,R,lambda x,y: rel[x][y])
        tot+=1
        if r is None: print('NONE',n,m,rel); bad+=1; continue
        r=list(r)
        ok=all(rel[i][j] for i,j in r) and all(a[0]<b[0] and a[1]<b[1] for a,b in zip(r,r[1:])) and len(r)==dp(n,m,rel)
        if not ok: bad+=1; print('BAD',n,m,rel,r,dp(n,m,rel))
print(tot,bad)
rng=random.Random(1)
for _ in range(20000):
    n=rng.randint(0,12);m=rng.randint(0,12);p=rng.random()
    rel=[[rng.random()<p for j in range(m)] for i in range(n)]
    r=list(lcs(list(range(n)),list(range(m)),lambda x,y:rel[x][y]))
    assert all(rel[i][j] for i,j in r) and all(a[0]<b[0] and a[1]<b[1] for a,b in zip(r,r[1:])) and len(r)==dp(n,m,rel),(rel,r)
print('random ok')
