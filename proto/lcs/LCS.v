From Coq Require Import List ZArith Lia Bool.
Import ListNotations.
Local Open Scope Z_scope.

(* Model of xmldiff.utils.longest_common_subsequence.
   Sequences are abstracted by their lengths and a relation on indices:
   eqf i j  <->  eqfn(left_sequence[i], right_sequence[j]).            *)
Section LCS.
Variable eqf : Z -> Z -> bool.

Definition hist := list (Z * Z).
(* furthest : association list diagonal -> (x, history); newest first *)
Definition fmap := list (Z * (Z * hist)).
Fixpoint flook (f : fmap) (k : Z) : option (Z * hist) :=
  match f with
  | [] => None
  | (k', v) :: r => if Z.eqb k k' then Some v else flook r k
  end.

(* trimming loops *)
Fixpoint trim_start (fuel : nat) (start lend rend : Z) : Z :=
  match fuel with
  | O => start
  | S f => if (start <? lend) && (start <? rend) && eqf start start
           then trim_start f (start + 1) lend rend else start
  end.
Fixpoint trim_end (fuel : nat) (start lend rend : Z) : Z * Z :=
  match fuel with
  | O => (lend, rend)
  | S f => if (start <? lend) && (start <? rend) && eqf (lend - 1) (rend - 1)
           then trim_end f start (lend - 1) (rend - 1) else (lend, rend)
  end.

(* the snake: while x < lmax and y < rmax and eqfn(left[x], right[y]) *)
Fixpoint snake (fuel : nat) (start lmax rmax x y : Z) (h : hist) : Z * Z * hist :=
  match fuel with
  | O => (x, y, h)
  | S f => if (x <? lmax) && (y <? rmax) && eqf (x + start) (y + start)
           then snake f start lmax rmax (x + 1) (y + 1) (h ++ [(x + start, y + start)])
           else (x, y, h)
  end.

Fixpoint zrange (n : nat) (from : Z) : list Z :=
  match n with O => [] | S m => from :: zrange m (from + 1) end.

Inductive res := Found (h : hist) | Cont (f : fmap) | Err.

(* one iteration of the inner loop body for diagonal k at distance d *)
Definition kstep (start lmax rmax d k : Z) (f : fmap) : res :=
  let down := (k =? - d) ||
              (negb (k =? d) &&
               match flook f (k - 1), flook f (k + 1) with
               | Some (a, _), Some (b, _) => a <? b
               | _, _ => false   (* KeyError in Python; flagged below *)
               end) in
  let src := if down then flook f (k + 1) else flook f (k - 1) in
  match src with
  | None => Err
  | Some (oldx, h) =>
    let x := if down then oldx else oldx + 1 in
    let y := x - k in
    let '(x', y', h') := snake (Z.to_nat (lmax + rmax + 1)) start lmax rmax x y h in
    if (lmax <=? x') && (rmax <=? y') then Found h'
    else Cont ((k, (x', h')) :: f)
  end.

Fixpoint kloop (ks : list Z) (start lmax rmax d : Z) (f : fmap) : res :=
  match ks with
  | [] => Cont f
  | k :: r => match kstep start lmax rmax d k f with
              | Cont f' => kloop r start lmax rmax d f'
              | other => other
              end
  end.

Definition kvals (d : Z) : list Z :=   (* range(-d, d+1, 2) *)
  map (fun i => - d + 2 * i) (zrange (Z.to_nat (d + 1)) 0).

Fixpoint dloop (fuel : nat) (start lmax rmax d : Z) (f : fmap) : option hist :=
  match fuel with
  | O => None                       (* Python: falls off the loop, returns None *)
  | S fu => match kloop (kvals d) start lmax rmax d f with
            | Found h => Some h
            | Cont f' => dloop fu start lmax rmax (d + 1) f'
            | Err => None
            end
  end.

Definition lcs (lslen rslen : Z) : option hist :=
  let n := Z.to_nat (Z.min lslen rslen + 1) in
  let start := trim_start n 0 lslen rslen in
  let '(lend, rend) := trim_end n start lslen rslen in
  let lmax := lend - start in
  let rmax := rend - start in
  if (lmax + rmax =? 0) then Some (map (fun i => (i, i)) (zrange (Z.to_nat lslen) 0))
  else
    match dloop (Z.to_nat (lmax + rmax + 1)) start lmax rmax 0 [(1, (0, []))] with
    | None => None
    | Some h => Some (map (fun e => (e, e)) (zrange (Z.to_nat start) 0) ++ h ++
                      combine (zrange (Z.to_nat (lslen - lend)) lend)
                              (zrange (Z.to_nat (rslen - rend)) rend))
    end.
End LCS.
