import itertools
from xmldiff.utils import longest_common_subsequence as lcs
cases=[];exp=[]
for n in range(0,4):
  for m in range(0,4):
    for bits in itertools.product([0,1],repeat=n*m):
        rel=[list(bits[i*m:(i+1)*m]) for i in range(n)]
        r=lcs(list(range(n)),list(range(m)),lambda x,y: rel[x][y])
        r=None if r is None else list(r)
        cases.append((n,m,rel)); exp.append(r)
def zl(l): return '['+'; '.join(str(x) for x in l)+']'
with open('Cases.v','w') as f:
    f.write('From Coq Require Import List ZArith Bool. Import ListNotations. Require Import LCS. Local Open Scope Z_scope.\n')
    f.write('Definition rel_of (r: list (list Z)) (i j: Z) : bool := Z.eqb (nth (Z.to_nat j) (nth (Z.to_nat i) r []) 0) 1.\n')
    f.write('Definition cases : list (Z*Z*list (list Z)) := [\n')
    f.write(';\n'.join('(%d,%d,[%s])'%(n,m,'; '.join(zl(r) for r in rel)) for n,m,rel in cases))
    f.write('].\nDefinition expected : list (option (list (Z*Z))) := [\n')
    f.write(';\n'.join('None' if r is None else 'Some [%s]'%'; '.join('(%d,%d)'%p for p in r) for r in exp))
    f.write('].\n')
    f.write('''Definition opt_eqb (a b : option (list (Z*Z))) : bool :=
  match a, b with None, None => true | Some x, Some y => (Nat.eqb (length x) (length y)) && forallb (fun p => Z.eqb (fst (fst p)) (fst (snd p)) && Z.eqb (snd (fst p)) (snd (snd p))) (combine x y) | _, _ => false end.
Definition results := map (fun c => let '(n,m,r) := c in lcs (rel_of r) n m) cases.
Definition nbad := length (filter (fun p => negb (opt_eqb (fst p) (snd p))) (combine results expected)).
Eval vm_compute in (length cases, nbad).
''')
print(len(cases))
