From Coq Require Import List ZArith Lia Bool Sorting.Sorted.
Import ListNotations.
Require Import LCS.
Local Open Scope Z_scope.

Section V.
Variable eqf : Z -> Z -> bool.

Definition lt2 (p q : Z * Z) := fst p < fst q /\ snd p < snd q.
Definition chain (h : hist) := StronglySorted lt2 h.
Definition good (h : hist) := Forall (fun p => eqf (fst p) (snd p) = true) h.
Definition within (lo hx hy : Z) (h : hist) :=
  Forall (fun p => lo <= fst p < hx /\ lo <= snd p < hy) h.

(* a history valid below the point (bx,by) *)
Record okh (lo hx hy bx by_ : Z) (h : hist) : Prop := {
  ok_chain : chain h; ok_good : good h; ok_in : within lo hx hy h;
  ok_below : Forall (fun p => fst p < bx /\ snd p < by_) h }.

Lemma chain_snoc h p : chain h -> Forall (fun q => lt2 q p) h -> chain (h ++ [p]).
Proof.
  unfold chain. induction h as [|a h IH]; intros Hc Hf; simpl.
  - constructor; constructor.
  - inversion Hc as [|? ? Hc' Ha]; subst. inversion Hf as [|? ? Hap Hf']; subst.
    constructor; [apply IH; assumption|].
    apply Forall_app; split; [assumption| constructor; [assumption|constructor]].
Qed.

Lemma okh_mono lo hx hy bx by_ bx' by' h :
  okh lo hx hy bx by_ h -> bx <= bx' -> by_ <= by' -> okh lo hx hy bx' by' h.
Proof.
  intros [H1 H2 H3 H4] ? ?. split; try assumption.
  eapply Forall_impl; [|exact H4]. simpl. intros; lia.
Qed.

Lemma snake_ok fuel : forall start lmax rmax x y h x' y' h',
  0 <= start -> 0 <= x -> 0 <= y ->
  okh start (start+lmax) (start+rmax) (x+start) (y+start) h ->
  snake eqf fuel start lmax rmax x y h = (x', y', h') ->
  okh start (start+lmax) (start+rmax) (x'+start) (y'+start) h' /\ x <= x' /\ y' - x' = y - x.
Proof.
  induction fuel as [|f IH]; intros start lmax rmax x y h x' y' h' Hs Hx Hy Hok E; simpl in E.
  - inversion E; subst. split; [exact Hok|split; lia].
  - destruct ((x <? lmax) && (y <? rmax) && eqf (x + start) (y + start)) eqn:C.
    + apply andb_prop in C as [C C3]. apply andb_prop in C as [C1 C2].
      apply Z.ltb_lt in C1. apply Z.ltb_lt in C2.
      apply IH in E; try lia.
      * destruct E as (E1 & E2 & E3). split; [exact E1|split; lia].
      * destruct Hok as [H1 H2 H3 H4]. split.
        -- apply chain_snoc; [assumption|]. eapply Forall_impl; [|exact H4].
           unfold lt2; simpl; intros; lia.
        -- apply Forall_app; split; [assumption|]. constructor; [exact C3|constructor].
        -- apply Forall_app; split; [assumption|]. constructor; [simpl; lia|constructor].
        -- apply Forall_app; split.
           ++ eapply Forall_impl; [|exact H4]. simpl; intros; lia.
           ++ constructor; [simpl; lia|constructor].
    + inversion E; subst. split; [exact Hok|split; lia].
Qed.

End V.
