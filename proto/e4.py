import sys, random, traceback, collections
from lxml import etree
from xmldiff import main, diff
import interp, e2
seed=int(sys.argv[1]); N=int(sys.argv[2])
rng=random.Random(seed)
optsl=[{}, {'fast_match':True}, {'best_match':True},{'F':0.9},{'F':0.1,'fast_match':True},{'ratio_mode':'accurate'},{'ratio_mode':'faster','best_match':True},{'uniqueattrs':['i']},{'uniqueattrs':[('a','i')],'fast_match':True}]
stats=collections.Counter(); ex={}
def rec(k,L,R,opts,info):
    stats[k]+=1
    key=k
    c=(etree.tostring(L).decode(),etree.tostring(R).decode(),opts,info)
    if key not in ex or len(c[0])+len(c[1])<len(ex[key][0])+len(ex[key][1]): ex[key]=c
for it in range(N):
    L=e2.gen(rng, rng.randint(1,8))
    R=e2.mutate(rng,L) if rng.random()<0.6 else e2.gen(rng, rng.randint(1,8))
    for opts in optsl:
        try:
            s=main.diff_trees(L,R,diff_options=opts)
        except Exception as ex_:
            rec('diff-exc:'+type(ex_).__name__,L,R,opts,str(ex_)); continue
        T=interp.from_lxml(L); RT=interp.from_lxml(R)
        try:
            ch=interp.apply(T,s,L.nsmap)
        except interp.Viol as v:
            rec(v.args[0]+':'+v.args[1].split(' ')[0],L,R,opts,(v.args[1],s)); continue
        except Exception as ex_:
            rec('interp-exc:'+type(ex_).__name__,L,R,opts,(str(ex_),s)); continue
        if interp.canon(T)!=interp.canon(RT): rec('C01:interp-result',L,R,opts,s)
        if not all(ch): rec('C17:noop:'+type(s[ch.index(False)]).__name__,L,R,opts,s)
        same=interp.canon(interp.from_lxml(L))==interp.canon(RT)
        if same and s: rec('C03:nonempty-on-equal',L,R,opts,s)
        if not same and not s: rec('C03:empty-on-different',L,R,opts,s)
        cnt=collections.Counter(type(a).__name__ for a in s)
        nl,nr=interp.size(interp.from_lxml(L)),interp.size(RT)
        if cnt['InsertNode']+cnt['InsertComment']>nr or cnt['DeleteNode']>nl or cnt['MoveNode']>2*nr or cnt['RenameNode']>nr or cnt['UpdateTextIn']>nr or cnt['UpdateTextAfter']>nr: rec('C17:bound',L,R,opts,s)
        # C07
        d=diff.Differ(**opts); m=d.match(L,R)
        ls=[id(a) for a,b,c in m]; rs=[id(b) for a,b,c in m]
        if len(set(ls))!=len(ls) or len(set(rs))!=len(rs): rec('C07:noninjective',L,R,opts,None)
        for a,b,c in m:
            if (a.tag is etree.Comment)!=(b.tag is etree.Comment): rec('C07:kind',L,R,opts,None)
print(seed,dict(stats))
for k,v in ex.items(): print(k,v)
