import sys, random, collections, traceback
from lxml import etree
from xmldiff import main, formatting
import e2
seed=int(sys.argv[1]); N=int(sys.argv[2]); rng=random.Random(seed)
stats=collections.Counter(); ex={}
def rec(k,L,R,info):
    stats[k]+=1
    c=(L,R,info)
    if k not in ex or len(c[0])+len(c[1])<len(ex[k][0])+len(ex[k][1]): ex[k]=c
def hasp(s): return any(0xE000<=ord(ch)<=0xF8FF for ch in s)
for it in range(N):
    L=e2.gen(rng, rng.randint(1,8), nsok=rng.random()<0.3)
    R=e2.mutate(rng,L) if rng.random()<0.6 else e2.gen(rng, rng.randint(1,8), nsok=False)
    l=etree.tostring(L).decode(); r=etree.tostring(R).decode()
    try: main.diff_texts(l,r,formatter=formatting.XmlDiffFormatter())
    except Exception as e: rec('C18:'+type(e).__name__,l,r,str(e))
    for cfg in [dict(),dict(text_tags=('a',),formatting_tags=('b',)),dict(text_tags=('a','c'),formatting_tags=('b',),use_replace=True),dict(use_replace=True, normalize=formatting.WS_BOTH)]:
        try:
            out=main.diff_texts(l,r,formatter=formatting.XMLFormatter(**cfg))
            etree.fromstring(out)
            if hasp(out): rec('C08:pua:'+str(sorted(cfg)),l,r,out)
        except Exception as e: rec('C08:'+type(e).__name__+':'+str(sorted(cfg)),l,r,traceback.format_exc().splitlines()[-1])
print(dict(stats))
for k,v in ex.items(): print(k,v)
