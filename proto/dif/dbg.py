import sys, random
sys.path.insert(0,'/tmp/explore')
from lxml import etree
from xmldiff import main
L=etree.fromstring('<b j="1" i="2"><a><a/>t<!--c--></a></b>'); R=etree.fromstring('<c j="1" i="2"/>')
print(main.diff_trees(L,R))
from xmldiff import utils
print([ (e.tag if e.tag is not etree.Comment else '#c') for e in utils.reverse_post_order_traverse(L)])
print([ (e.tag if e.tag is not etree.Comment else '#c') for e in L[0].getchildren()], len(L[0]))
