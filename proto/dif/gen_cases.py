import sys, random, itertools
sys.path.insert(0,'/tmp/explore')
from lxml import etree
from xmldiff import diff as xd
import e2
def build_cases(pairs, optsl):
    out=[]
    for L,R in pairs:
        for opts in optsl:
            d=xd.Differ(**opts); d.set_trees(L,R); m=d.match()
            left=d.left
            names=set(); vals={}
            for t in (left,R):
                for e in t.iter():
                    if e.tag is not etree.Comment:
                        names.add(e.tag)
                        for k,v in e.attrib.items(): names.add(k)
            rank={n:i+1 for i,n in enumerate(sorted(names))}
            def V(s):
                if s is None: return None
                return vals.setdefault(s,len(vals))
            keep=[]
            def forest(root):
                ids={}; order=list(root.iter())
                for i,e in enumerate(order): ids[id(e)]=i
                kids=[(ids[id(e)],[ids[id(c)] for c in e]) for e in order]
                labs=[]
                for e in order:
                    if e.tag is etree.Comment: labs.append((ids[id(e)],0,[],V(e.text),V(e.tail)))
                    else: labs.append((ids[id(e)],rank[e.tag],[(rank[k],V(v)) for k,v in e.attrib.items()],V(e.text),V(e.tail)))
                keep.append(order)
                return ids,kids,labs,len(order)
            lids,lk,ll,nL=forest(left); rids,rk,rl,nR=forest(R)
            match=[(lids[id(a)],rids[id(b)]) for a,b,_ in m]
            acts=[]; pending=None; fresh=nL
            tree=left.getroottree()
            def rs(path): 
                r=tree.xpath(path); assert len(r)>=1,(path); return lids[id(r[0])]
            try:
              for a in d.diff():
                if pending is not None:
                    tg,pos=pending; keep.append(tg[pos]); lids[id(tg[pos])]=fresh; fresh+=1; pending=None
                t=type(a).__name__
                if t=='InsertNode': acts.append('AInsert %d %d %d'%(rs(a.target),rank[a.tag],a.position)); pending=(tree.xpath(a.target)[0],a.position)
                elif t=='InsertComment': acts.append('AInsertComment %d %d %s'%(rs(a.target),a.position,O(V(a.text)))); pending=(tree.xpath(a.target)[0],a.position)
                elif t=='MoveNode': acts.append('AMove %d %d %d'%(rs(a.node),rs(a.target),a.position))
                elif t=='DeleteNode': acts.append('ADelete %d'%rs(a.node))
                elif t=='RenameNode': acts.append('ARename %d %d'%(rs(a.node),rank[a.tag]))
                elif t=='UpdateTextIn': acts.append('AText %d %s'%(rs(a.node),O(V(a.text))))
                elif t=='UpdateTextAfter': acts.append('ATail %d %s'%(rs(a.node),O(V(a.text))))
                elif t=='UpdateAttrib': acts.append('AUpdAttr %d %d %d'%(rs(a.node),rank[a.name],V(a.value)))
                elif t=='InsertAttrib': acts.append('AInsAttr %d %d %d'%(rs(a.node),rank[a.name],V(a.value)))
                elif t=='DeleteAttrib': acts.append('ADelAttr %d %d'%(rs(a.node),rank[a.name]))
                elif t=='RenameAttrib': acts.append('ARenAttr %d %d %d'%(rs(a.node),rank[a.oldname],rank[a.newname]))
                else: raise Exception(t)
            except Exception as ex:
                continue   # non-injective matchings on pinned tree may crash; skip
            out.append((lk,ll,nL,rk,rl,nR,match,acts))
    return out
def O(v): return 'None' if v is None else '(Some %d)'%v
def L_(l,f): return '['+'; '.join(f(x) for x in l)+']'
def forest_s(k,l):
    return '{| kids := %s; labs := %s |}'%(L_(k,lambda kv:'(%d,%s)'%(kv[0],L_(kv[1],str))),
        L_(l,lambda x:'(%d,{| tag := %d; attrs := %s; text := %s; tail := %s |})'%(x[0],x[1],L_(x[2],lambda kv:'(%d,%d)'%kv),O(x[3]),O(x[4]))))
if __name__=='__main__':
    seed=int(sys.argv[1]); N=int(sys.argv[2]); rng=random.Random(seed)
    pairs=[]
    for _ in range(N):
        L=e2.gen(rng,rng.randint(1,9),nsok=False)
        R=e2.mutate(rng,L) if rng.random()<.65 else e2.gen(rng,rng.randint(1,9),nsok=False)
        pairs.append((L,R))
    cases=build_cases(pairs,[{}, {'fast_match':True},{'F':0.9},{'F':0.1,'ratio_mode':'faster'}])
    with open('Cases.v','w') as f:
        f.write('From Coq Require Import List ZArith Bool Arith. Import ListNotations. Require Import LCS Differ.\n')
        f.write('''Definition oe (a b : option nat) := match a, b with None, None => true | Some x, Some y => Nat.eqb x y | _, _ => false end.
Definition act_eqb (a b : act) : bool := match a, b with
 | AInsert t g p, AInsert t' g' p' => Nat.eqb t t' && Nat.eqb g g' && Nat.eqb p p'
 | AInsertComment t p x, AInsertComment t' p' x' => Nat.eqb t t' && Nat.eqb p p' && oe x x'
 | AMove n t p, AMove n' t' p' => Nat.eqb n n' && Nat.eqb t t' && Nat.eqb p p'
 | ADelete n, ADelete n' => Nat.eqb n n'
 | ARename n g, ARename n' g' => Nat.eqb n n' && Nat.eqb g g'
 | AText n x, AText n' x' => Nat.eqb n n' && oe x x'
 | ATail n x, ATail n' x' => Nat.eqb n n' && oe x x'
 | AUpdAttr n k v, AUpdAttr n' k' v' => Nat.eqb n n' && Nat.eqb k k' && Nat.eqb v v'
 | AInsAttr n k v, AInsAttr n' k' v' => Nat.eqb n n' && Nat.eqb k k' && Nat.eqb v v'
 | ADelAttr n k, ADelAttr n' k' => Nat.eqb n n' && Nat.eqb k k'
 | ARenAttr n k v, ARenAttr n' k' v' => Nat.eqb n n' && Nat.eqb k k' && Nat.eqb v v'
 | _, _ => false end.
Fixpoint acts_eqb (a b : list act) := match a, b with [] , [] => true | x :: r, y :: s => act_eqb x y && acts_eqb r s | _, _ => false end.
Definition run (c : forest * nat * forest * nat * list (nat*nat) * list act) : bool :=
  let '(L, nL, R, nR, m, e) := c in acts_eqb (diff R L 0 0 nL nR m) e.
''')
        f.write('Definition cases : list (forest * nat * forest * nat * list (nat*nat) * list act) := [\n')
        f.write(';\n'.join('(%s, %d, %s, %d, %s, %s)'%(forest_s(lk,ll),nL,forest_s(rk,rl),nR,L_(m,lambda p:'(%d,%d)'%p),L_(a,lambda x:'('+x+')')) for lk,ll,nL,rk,rl,nR,m,a in cases))
        f.write('].\nDefinition bad := filter (fun ic => negb (run (snd ic))) (combine (seq 0 (length cases)) cases).\n')
        f.write('Eval vm_compute in (length cases, length bad, map fst (firstn 5 bad)).\n')
    print(len(cases))
