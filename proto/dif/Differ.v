From Coq Require Import List ZArith Bool Arith Lia.
Import ListNotations.
Require Import LCS.

(* ---------- prototype model of Differ.diff given a matching ---------- *)
Definition id := nat.
Record lab := { tag : nat;             (* 0 = comment *)
                attrs : list (nat * nat);   (* document order; names coded in sort order *)
                text : option nat; tail : option nat }.
Record forest := { kids : list (id * list id); labs : list (id * lab) }.

Fixpoint alook {A} (l : list (id * A)) (k : id) : option A :=
  match l with [] => None | (k', v) :: r => if Nat.eqb k k' then Some v else alook r k end.
Definition aset {A} (l : list (id * A)) (k : id) (v : A) := (k, v) :: l.
Definition kidsof (f : forest) (n : id) : list id := match alook (kids f) n with Some l => l | None => [] end.
Definition labof (f : forest) (n : id) : lab :=
  match alook (labs f) n with Some l => l | None => {| tag := 0; attrs := []; text := None; tail := None |} end.
Definition mem (x : id) (l : list id) := existsb (Nat.eqb x) l.

(* parent by search over the (shadowing) association list: use only current binding of each key *)
Fixpoint keys_dedup (l : list (id * list id)) (seen : list id) : list (id * list id) :=
  match l with [] => [] | (k, v) :: r => if mem k seen then keys_dedup r seen else (k, v) :: keys_dedup r (k :: seen) end.
Definition parentof (f : forest) (n : id) : option id :=
  match filter (fun kv => mem n (snd kv)) (keys_dedup (kids f) []) with
  | (p, _) :: _ => Some p | [] => None end.
Definition set_kids (f : forest) (n : id) (l : list id) := {| kids := aset (kids f) n l; labs := labs f |}.
Definition set_lab (f : forest) (n : id) (l : lab) := {| kids := kids f; labs := aset (labs f) n l |}.
Definition detach (f : forest) (n : id) : forest :=
  match parentof f n with
  | Some p => set_kids f p (filter (fun c => negb (Nat.eqb c n)) (kidsof f p))
  | None => f end.
Definition insert_at (f : forest) (p : id) (pos : nat) (n : id) : forest :=
  let ks := kidsof f p in set_kids f p (firstn pos ks ++ n :: skipn pos ks).

Inductive act :=
| AInsert (target : id) (tg : nat) (pos : nat)        (* tg = 0: comment, payload text below *)
| AInsertComment (target : id) (pos : nat) (t : option nat)
| AMove (n target : id) (pos : nat)
| ADelete (n : id)
| ARename (n : id) (tg : nat)
| AText (n : id) (t : option nat)
| ATail (n : id) (t : option nat)
| AUpdAttr (n : id) (k v : nat)
| AInsAttr (n : id) (k v : nat)
| ADelAttr (n : id) (k : nat)
| ARenAttr (n : id) (k k' : nat).

Record st := { W : forest; l2r : list (id * id); r2l : list (id * id);
               inoL : list id; inoR : list id; fresh : id; out : list act }.
Definition emit (s : st) (a : act) : st :=
  {| W := W s; l2r := l2r s; r2l := r2l s; inoL := inoL s; inoR := inoR s; fresh := fresh s; out := out s ++ [a] |}.
Definition withW (s : st) (w : forest) : st :=
  {| W := w; l2r := l2r s; r2l := r2l s; inoL := inoL s; inoR := inoR s; fresh := fresh s; out := out s |}.
Definition mark (s : st) (l r : id) : st :=
  {| W := W s; l2r := l2r s; r2l := r2l s; inoL := l :: inoL s; inoR := r :: inoR s; fresh := fresh s; out := out s |}.
Definition addmatch (s : st) (l r : id) : st :=
  {| W := W s; l2r := aset (l2r s) l r; r2l := aset (r2l s) r l; inoL := inoL s; inoR := inoR s; fresh := fresh s; out := out s |}.

Section D.
Variable R : forest.

Fixpoint index_of (x : id) (l : list id) : nat :=
  match l with [] => 0 | y :: r => if Nat.eqb x y then 0 else S (index_of x r) end.

(* last sibling before position i (exclusive) that is in order, scanning backwards *)
Fixpoint last_inorder (ino : list id) (prefix_rev : list id) : option id :=
  match prefix_rev with [] => None | s :: r => if mem s ino then Some s else last_inorder ino r end.

Fixpoint count_to (node_match : option id) (sib : id) (cs : list id) (i : nat) : nat :=
  match cs with
  | [] => i
  | c :: r => if match node_match with Some m => Nat.eqb c m | None => false end
              then count_to node_match sib r i
              else if Nat.eqb c sib then S i else count_to node_match sib r (S i)
  end.

Definition find_pos (s : st) (rnode : id) : nat :=
  match parentof R rnode with
  | None => 0
  | Some rp =>
    let sibs := kidsof R rp in
    let i := index_of rnode sibs in
    match last_inorder (inoR s) (rev (firstn i sibs)) with
    | None => 0
    | Some sib =>
      match alook (r2l s) sib with
      | None => 0 (* KeyError *)
      | Some sm =>
        match parentof (W s) sm with
        | None => 0 (* AttributeError *)
        | Some p => count_to (alook (r2l s) rnode) sm (kidsof (W s) p) 0
        end
      end
    end
  end.

(* ----- attributes ----- *)
Fixpoint insert_sorted (x : nat) (l : list nat) : list nat :=
  match l with [] => [x] | y :: r => if Nat.leb x y then x :: l else y :: insert_sorted x r end.
Definition sort (l : list nat) := fold_right insert_sorted [] l.
Definition amem (k : nat) (l : list (nat * nat)) := existsb (fun kv => Nat.eqb k (fst kv)) l.
Fixpoint aget (l : list (nat * nat)) (k : nat) : option nat :=
  match l with [] => None | (k', v) :: r => if Nat.eqb k k' then Some v else aget r k end.
Definition adel (l : list (nat * nat)) (k : nat) := filter (fun kv => negb (Nat.eqb k (fst kv))) l.
Definition aput (l : list (nat * nat)) (k v : nat) :=
  if amem k l then map (fun kv => if Nat.eqb k (fst kv) then (k, v) else kv) l else l ++ [(k, v)].
(* dict comprehension {v: k for k,v in items if k in new}: later wins *)
Definition newattrmap (ritems : list (nat * nat)) (newk : list nat) : list (nat * nat) :=
  fold_left (fun m kv => if existsb (Nat.eqb (fst kv)) newk then aput m (snd kv) (fst kv) else m) ritems [].

Definition set_attrs (s : st) (n : id) (a : list (nat * nat)) : st :=
  let l := labof (W s) n in withW s (set_lab (W s) n {| tag := tag l; attrs := a; text := text l; tail := tail l |}).

Definition upd_attr (s : st) (ln rn : id) : st :=
  let ra := attrs (labof R rn) in
  let la0 := attrs (labof (W s) ln) in
  let lk := map fst la0 in let rk := map fst ra in
  let newk := filter (fun k => negb (existsb (Nat.eqb k) lk)) rk in
  let remk := filter (fun k => negb (existsb (Nat.eqb k) rk)) lk in
  let comk := filter (fun k => existsb (Nat.eqb k) rk) lk in
  (* updates *)
  let s1 := fold_left (fun s k =>
      let la := attrs (labof (W s) ln) in
      match aget la k, aget ra k with
      | Some a, Some b => if Nat.eqb a b then s else set_attrs (emit s (AUpdAttr ln k b)) ln (aput la k b)
      | _, _ => s end) (sort comk) s in
  (* renames *)
  let '(s2, newk2, _) := fold_left (fun '(s, newk, nmap) lk_ =>
      let la := attrs (labof (W s) ln) in
      match aget la lk_ with
      | None => (s, newk, nmap)
      | Some v => match aget nmap v with
                  | None => (s, newk, nmap)
                  | Some rk_ => (set_attrs (emit s (ARenAttr ln lk_ rk_)) ln (adel (aput la rk_ v) lk_),
                                filter (fun k => negb (Nat.eqb k rk_)) newk, adel nmap v)
                  end
      end) (sort remk) (s1, newk, newattrmap ra newk) in
  (* inserts *)
  let s3 := fold_left (fun s k =>
      match aget ra k with
      | Some b => set_attrs (emit s (AInsAttr ln k b)) ln (aput (attrs (labof (W s) ln)) k b)
      | None => s end) (sort newk2) s2 in
  (* deletes *)
  fold_left (fun s k =>
      let la := attrs (labof (W s) ln) in
      if amem k la then set_attrs (emit s (ADelAttr ln k)) ln (adel la k) else s) (sort remk) s3.

Definition opt_eqb (a b : option nat) := match a, b with None, None => true | Some x, Some y => Nat.eqb x y | _, _ => false end.

Definition upd_tag (s : st) (ln rn : id) : st :=
  let l := labof (W s) ln in let r := labof R rn in
  if Nat.eqb (tag l) (tag r) then s
  else withW (emit s (ARename ln (tag r))) (set_lab (W s) ln {| tag := tag r; attrs := attrs l; text := text l; tail := tail l |}).

Definition upd_text (s : st) (ln rn : id) : st :=
  let r := labof R rn in
  let s1 := let l := labof (W s) ln in
            if opt_eqb (text l) (text r) then s
            else withW (emit s (AText ln (text r))) (set_lab (W s) ln {| tag := tag l; attrs := attrs l; text := text r; tail := tail l |}) in
  let l := labof (W s1) ln in
  if opt_eqb (tail l) (tail r) then s1
  else withW (emit s1 (ATail ln (tail r))) (set_lab (W s1) ln {| tag := tag l; attrs := attrs l; text := text l; tail := tail r |}).

(* ----- align ----- *)
Definition oeq (a b : option id) := match a, b with Some x, Some y => Nat.eqb x y | None, None => true | _, _ => false end.

Definition align (s : st) (ln rn : id) : st :=
  let lch := filter (fun c => match alook (l2r s) c with Some r => oeq (parentof R r) (Some rn) | None => false end) (kidsof (W s) ln) in
  let rch := filter (fun c => match alook (r2l s) c with Some l => oeq (parentof (W s) l) (Some ln) | None => false end) (kidsof R rn) in
  match lch, rch with
  | [], _ | _, [] => s
  | _, _ =>
    let eqf := fun (i j : Z) => oeq (alook (l2r s) (nth (Z.to_nat i) lch 0)) (Some (nth (Z.to_nat j) rch 0)) in
    match lcs eqf (Z.of_nat (length lch)) (Z.of_nat (length rch)) with
    | None => s
    | Some ps =>
      let s1 := fold_left (fun s p => mark s (nth (Z.to_nat (fst p)) lch 0) (nth (Z.to_nat (snd p)) rch 0)) ps s in
      fold_left (fun s lchild =>
        if mem lchild (inoL s) then s else
        match alook (l2r s) lchild with
        | None => s
        | Some rchild =>
          let pos := find_pos s rchild in
          let s' := emit s (AMove lchild ln pos) in
          mark (withW s' (insert_at (detach (W s') lchild) ln pos lchild)) lchild rchild
        end) lch s1
    end
  end.

(* ----- main loop ----- *)
Fixpoint bfs (fuel : nat) (queue : list id) : list id :=
  match fuel with O => [] | S f =>
    match queue with [] => [] | n :: q => n :: bfs f (q ++ kidsof R n) end end.

Definition visit (s : st) (rnode : id) : st :=
  let ltarget := match parentof R rnode with Some rp => alook (r2l s) rp | None => None end in
  let r := labof R rnode in
  let '(s1, lnode) :=
    match alook (r2l s) rnode with
    | None =>
      match ltarget with
      | None => (s, 0)  (* crash in Python *)
      | Some lt =>
        let pos := find_pos s rnode in
        let n := fresh s in
        let s' := emit s (if Nat.eqb (tag r) 0 then AInsertComment lt pos (text r) else AInsert lt (tag r) pos) in
        let newlab := if Nat.eqb (tag r) 0 then {| tag := 0; attrs := []; text := text r; tail := None |}
                      else {| tag := tag r; attrs := []; text := None; tail := None |} in
        let s' := addmatch s' n rnode in
        let w := insert_at (set_kids (set_lab (W s') n newlab) n []) lt pos n in
        let s' := {| W := w; l2r := l2r s'; r2l := r2l s'; inoL := n :: inoL s'; inoR := rnode :: inoR s';
                     fresh := S n; out := out s' |} in
        (upd_attr s' n rnode, n)
      end
    | Some lnode =>
      let lparent := parentof (W s) lnode in
      let s' := if oeq ltarget lparent then s else
                match ltarget with
                | None => s
                | Some lt =>
                  let pos := find_pos s rnode in
                  let s' := emit s (AMove lnode lt pos) in
                  mark (withW s' (insert_at (detach (W s') lnode) lt pos lnode)) lnode rnode
                end in
      (upd_attr (upd_tag s' lnode rnode) lnode rnode, lnode)
    end in
  let s2 := align s1 lnode rnode in
  match alook (r2l s2) rnode with Some ln => upd_text s2 ln rnode | None => s2 end.

Fixpoint rpost (fuel : nat) (f : forest) (n : id) : list id :=
  match fuel with O => [] | S fu => flat_map (rpost fu f) (rev (kidsof f n)) ++ [n] end.

Definition diff (L : forest) (rootL rootR nL nR : id) (m : list (id * id)) : list act :=
  let s0 := {| W := L; l2r := m; r2l := map (fun p => (snd p, fst p)) m; inoL := []; inoR := [];
               fresh := nL; out := [] |} in
  let s1 := fold_left visit (bfs (S nR) [rootR]) s0 in
  let s2 := fold_left (fun s n => match alook (l2r s) n with
                                  | Some _ => s
                                  | None => withW (emit s (ADelete n)) (detach (W s) n) end)
                      (rpost (S (fresh s1)) (W s1) rootL) s1 in
  out s2.
End D.
