# independent tree model + action interpreter with precondition checks
import re
from lxml import etree
class N:
    __slots__=('tag','attrs','text','tail','kids','parent','created')
    def __init__(s,tag,attrs=None,text=None,tail=None):
        s.tag=tag;s.attrs=dict(attrs or {});s.text=text;s.tail=tail;s.kids=[];s.parent=None;s.created=False
def from_lxml(e):
    n=N('#comment' if e.tag is etree.Comment else e.tag, {} if e.tag is etree.Comment else e.attrib, e.text, e.tail)
    for c in e:
        k=from_lxml(c); k.parent=n; n.kids.append(k)
    return n
def canon(n, top=True):
    return (n.tag, tuple(sorted(n.attrs.items())), n.text or '', '' if top else (n.tail or ''), tuple(canon(k,False) for k in n.kids))
def size(n): return 1+sum(size(k) for k in n.kids)
def nattrs(n): return len(n.attrs)+sum(nattrs(k) for k in n.kids)
STEP=re.compile(r'^(?:(?P<pfx>[^:\[\]/]+):)?(?P<name>[^:\[\]/()]+|\*|comment\(\))(?:\[(?P<idx>\d+)\])?$')
def clark(pfx,name,ns):
    if pfx is None: return name
    return '{%s}%s'%(ns[pfx],name)
def step_matches(n,pfx,name,ns):
    if name=='comment()': return n.tag=='#comment'
    if n.tag=='#comment': return False
    if name=='*' : return True
    if pfx is not None:
        if pfx not in ns: raise KeyError('unbound prefix '+pfx)
        return n.tag=='{%s}%s'%(ns[pfx],name)
    return n.tag==name
def evalpath(root,path,ns):
    assert path.startswith('/'),path
    steps=path[1:].split('/')
    cur=None; cands=[root]
    for i,s in enumerate(steps):
        m=STEP.match(s); assert m,(path,s)
        pool=cands if i==0 else [k for c in cands for k in c.kids]
        hits=[]
        if i==0:
            hits=[n for n in pool if step_matches(n,m['pfx'],m['name'],ns)]
            if m['idx']: hits=hits[int(m['idx'])-1:int(m['idx'])]
        else:
            for c in cands:
                h=[k for k in c.kids if step_matches(k,m['pfx'],m['name'],ns)]
                if m['idx']: h=h[int(m['idx'])-1:int(m['idx'])]
                hits+=h
        cands=hits
    return cands, bool(STEP.match(steps[-1])['idx'])
class Viol(Exception): pass
def subtree(n):
    yield n
    for k in n.kids: yield from subtree(k)
def apply(root,acts,lns):
    """returns list of per-action notes; raises Viol(kind,msg)"""
    ns=dict((k,v) for k,v in lns.items() if k is not None)
    changed=[]
    def one(path):
        hits,idx=evalpath(root,path,ns)
        if len(hits)!=1: raise Viol('C04','path %s selects %d nodes'%(path,len(hits)))
        if not idx: raise Viol('C04','no index on last step '+path)
        return hits[0]
    for a in acts:
        t=type(a).__name__
        before=canon(root)
        if t=='InsertNamespace': ns[a.prefix]=a.uri; changed.append(True); continue
        if t=='DeleteNamespace': changed.append(True); continue
        if t in('InsertNode','InsertComment'):
            tg=one(a.target)
            if not (0<=a.position<=len(tg.kids)): raise Viol('C05','insert pos %d of %d'%(a.position,len(tg.kids)))
            n=N(a.tag) if t=='InsertNode' else N('#comment',text=a.text)
            n.created=True; n.parent=tg; tg.kids.insert(a.position,n)
        elif t=='MoveNode':
            n=one(a.node); tg=one(a.target)
            if tg in list(subtree(n)): raise Viol('C05','move into own subtree')
            cnt=len([k for k in tg.kids if k is not n])
            if not (0<=a.position<=cnt): raise Viol('C05','move pos %d of %d'%(a.position,cnt))
            n.parent.kids.remove(n); tg.kids.insert(a.position,n); n.parent=tg
        elif t=='DeleteNode':
            n=one(a.node)
            if n.kids: raise Viol('C05','delete of non-leaf')
            if n.created: raise Viol('C17','delete of created node')
            if n.parent is None: raise Viol('C05','delete root')
            n.parent.kids.remove(n)
        elif t=='RenameNode': one(a.node).tag=a.tag
        elif t=='UpdateTextIn': one(a.node).text=a.text
        elif t=='UpdateTextAfter': one(a.node).tail=a.text
        elif t=='UpdateAttrib':
            n=one(a.node)
            if a.name not in n.attrs: raise Viol('C05','update of missing attr')
            n.attrs[a.name]=a.value
        elif t=='InsertAttrib':
            n=one(a.node)
            if a.name in n.attrs: raise Viol('C05','insert of existing attr')
            n.attrs[a.name]=a.value
        elif t=='DeleteAttrib':
            n=one(a.node)
            if a.name not in n.attrs: raise Viol('C05','delete of missing attr')
            del n.attrs[a.name]
        elif t=='RenameAttrib':
            n=one(a.node)
            if a.oldname not in n.attrs or a.newname in n.attrs: raise Viol('C05','bad rename attr')
            n.attrs[a.newname]=n.attrs.pop(a.oldname)
        else: raise Viol('X','unknown '+t)
        # irredundancy: structural identity, not canon (move to same place)
        if t=='MoveNode': pass
        changed.append(canon(root)!=before)
    return changed
