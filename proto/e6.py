from lxml import etree
from xmldiff import main, formatting
t=etree.fromstring('<a xmlns="urn:d" xmlns:p="urn:p"><b/><p:b/><!--c--><b><c/></b>x<!--d--></a>')
tr=t.getroottree()
for e in t.iter(): print(tr.getpath(e), end=' | ')
print()
# C13
print('C13', main.diff_texts('<r><a id="1"/></r>','<r><a id="2"/></r>',diff_options={'ignored_attrs':['id'],'uniqueattrs':['id']}))
print('C13b', main.diff_texts('<r><a id="1" x="1"/></r>','<r><a id="2" x="1"/></r>',diff_options={'ignored_attrs':['id']}))
# default ns insertion
try: print('C02 defaultns', main.diff_texts('<a/>','<a xmlns="urn:d"/>',formatter=formatting.DiffFormatter()))
except Exception as e: print('C02 defaultns EXC',type(e).__name__,e)
try: print(main.diff_texts('<a/>','<a xmlns="urn:d"/>'))
except Exception as e: print('EXC',type(e).__name__,e)
# comment tail in xml formatter
print(main.diff_texts('<a><!--c-->tail<b/></a>','<a><!--c-->tail<b/></a>',formatter=formatting.XMLFormatter(pretty_print=False)))
# prefix new in R
s=main.diff_texts('<a><b/></a>','<a xmlns:z="urn:z"><b/><z:c><z:d/></z:c></a>')
print(s)
print(etree.tostring(main.patch_tree(s, etree.fromstring('<a><b/></a>'))))
# same prefix different uri
try: print(main.diff_texts('<a xmlns:z="urn:y"><z:b/></a>','<a xmlns:z="urn:z"><z:b/></a>'))
except Exception as e: print('EXC',type(e).__name__,e)
