import random, sys, traceback
from lxml import etree
from xmldiff import main, formatting
def canon(e):
    if e.tag is etree.Comment:
        return ('#c', e.text or '', e.tail or '')
    return (e.tag, tuple(sorted(e.attrib.items())), e.text or '', e.tail or '', tuple(canon(c) for c in e))
NS={'p':'urn:p','q':'urn:q'}
def gen(rng, n, nsok=True, comments=True, texts=True):
    tags=['a','b','c']+(['{urn:p}a','{urn:q}b'] if nsok else [])
    words=['','x','y','x y','hello world','z']
    def mk(parent):
        if comments and parent is not None and rng.random()<0.15:
            e=etree.Comment(rng.choice(['c1','c2','']))
            parent.append(e)
        else:
            t=rng.choice(tags)
            if parent is None:
                e=etree.Element(t,nsmap=NS if nsok else None)
            else:
                e=etree.SubElement(parent,t)
            for k in rng.sample(['i','j','k','{urn:p}i'] if nsok else ['i','j','k'], rng.choice([0,0,1,2])):
                e.set(k,rng.choice(['1','2','3']))
            if texts and rng.random()<0.4: e.text=rng.choice(words) or None
        if texts and parent is not None and rng.random()<0.3: e.tail=rng.choice(words) or None
        return e
    root=mk(None)
    nodes=[root]
    for i in range(n-1):
        p=rng.choice([x for x in nodes if x.tag is not etree.Comment])
        nodes.append(mk(p))
    return root
def mutate(rng, root):
    from copy import deepcopy
    r=deepcopy(root)
    nodes=list(r.iter())
    for _ in range(rng.randint(1,4)):
        nodes=list(r.iter())
        n=rng.choice(nodes)
        op=rng.randint(0,6)
        if op==0 and n is not r: n.getparent().remove(n)  # note: drops tail
        elif op==1 and n.tag is not etree.Comment: etree.SubElement(n,rng.choice(['a','b','c']))
        elif op==2 and n is not r:
            tgt=rng.choice([x for x in nodes if x.tag is not etree.Comment])
            if n not in list(tgt.iterancestors()) and tgt is not n and tgt not in list(n.iter()):
                n.getparent().remove(n); tgt.insert(rng.randint(0,len(tgt)),n)
        elif op==3: n.text=rng.choice(['q','x y z',None])
        elif op==4 and n.tag is not etree.Comment: n.set(rng.choice(['i','j','k']),rng.choice(['1','2']))
        elif op==5 and n.tag is not etree.Comment and n.tag in ('a','b','c'): n.tag=rng.choice(['a','b','c'])
        elif op==6 and n is not r: n.tail=rng.choice(['t',None])
    return r
if __name__=='__main__':
    seed=int(sys.argv[1]); N=int(sys.argv[2])
    rng=random.Random(seed)
    optsl=[{}, {'fast_match':True}, {'best_match':True},{'F':0.9},{'F':0.1},{'ratio_mode':'accurate'},{'ratio_mode':'faster'},{'uniqueattrs':['i']},{'uniqueattrs':[('a','i')],'fast_match':True}]
    bad={}
    for it in range(N):
        L=gen(rng, rng.randint(1,8))
        R=mutate(rng,L) if rng.random()<0.6 else gen(rng, rng.randint(1,8))
        for opts in optsl:
            try:
                s=main.diff_trees(L,R,diff_options=opts)
                P=main.patch_tree(s,L)
                ok=canon(P)==canon(R); info=s
            except Exception as ex:
                ok=False; info=traceback.format_exc().splitlines()[-3:]
            if not ok:
                k=str(sorted(opts.items()))
                bad.setdefault(k,[]).append((etree.tostring(L).decode(),etree.tostring(R).decode(),info))
    for k,v in bad.items():
        print(k,len(v))
        for x in sorted(v,key=lambda x:len(x[0])+len(x[1]))[:3]: print('   ',x)
