(* From identity-level scripts to the actions Differ.diff actually yields: each
   node is rendered as utils.getpath(node) IN THE TREE AS IT IS BEFORE THE ACTION.
   Model only -- no proofs in this file. *)
From Coq Require Import List NArith ZArith Bool Arith.
Import ListNotations.
Require Import XV.Str XV.Json XV.TextFormat XV.Forest XV.Matcher XV.Differ XV.Spec XV.Path.

Local Open Scope N_scope.
Definition s_of (l : list N) : str := l.
Definition n_DeleteNode := s_of [68;101;108;101;116;101;78;111;100;101].
Definition n_InsertNode := s_of [73;110;115;101;114;116;78;111;100;101].
Definition n_RenameNode := s_of [82;101;110;97;109;101;78;111;100;101].
Definition n_MoveNode := s_of [77;111;118;101;78;111;100;101].
Definition n_UpdateTextIn := s_of [85;112;100;97;116;101;84;101;120;116;73;110].
Definition n_UpdateTextAfter := s_of [85;112;100;97;116;101;84;101;120;116;65;102;116;101;114].
Definition n_UpdateAttrib := s_of [85;112;100;97;116;101;65;116;116;114;105;98].
Definition n_DeleteAttrib := s_of [68;101;108;101;116;101;65;116;116;114;105;98].
Definition n_InsertAttrib := s_of [73;110;115;101;114;116;65;116;116;114;105;98].
Definition n_RenameAttrib := s_of [82;101;110;97;109;101;65;116;116;114;105;98].
Definition n_InsertComment := s_of [73;110;115;101;114;116;67;111;109;109;101;110;116].
Definition n_InsertNamespace := s_of [73;110;115;101;114;116;78;97;109;101;115;112;97;99;101].
Definition n_DeleteNamespace := s_of [68;101;108;101;116;101;78;97;109;101;115;112;97;99;101].

Definition po (o : option str) : pyval := match o with Some s => PStr s | None => PNone end.

Section R.
Variable pe : penv.
Variable root : id.

Definition gp (f : forest) (n : id) : pyval := PStr (path_to_str (getpath pe f root n)).
Definition pn (n : nat) : pyval := PInt (Z.of_nat n).

(* the namedtuple the implementation yields, field order as in actions.py *)
Definition render (f : forest) (a : iact) : gaction :=
  match a with
  | IInsert t tag pos _ => GA n_InsertNode [gp f t; PStr tag; pn pos]
  | IInsertComment t pos txt _ => GA n_InsertComment [gp f t; pn pos; po txt]
  | IMove n t pos => GA n_MoveNode [gp f n; gp f t; pn pos]
  | IDelete n => GA n_DeleteNode [gp f n]
  | IRename n tag => GA n_RenameNode [gp f n; PStr tag]
  | IText n t => GA n_UpdateTextIn [gp f n; po t]
  | ITail n t => GA n_UpdateTextAfter [gp f n; po t]
  | IUpdAttr n k v => GA n_UpdateAttrib [gp f n; PStr k; PStr v]
  | IInsAttr n k v => GA n_InsertAttrib [gp f n; PStr k; PStr v]
  | IDelAttr n k => GA n_DeleteAttrib [gp f n; PStr k]
  | IRenAttr n k k' => GA n_RenameAttrib [gp f n; PStr k; PStr k']
  | IInsNs p u => GA n_InsertNamespace [po p; PStr u]
  | IDelNs p => GA n_DeleteNamespace [po p]
  end.

(* render a whole script, advancing the tree with the documented semantics *)
Fixpoint render_script (f : forest) (script : list iact) : option (list gaction) :=
  match script with
  | [] => Some []
  | a :: r =>
      match spec_apply root f a with
      | Some f' => option_map (cons (render f a)) (render_script f' r)
      | None => None
      end
  end.
End R.
