(* Totality, part 1: the loops of the string helpers of the DMP model never run
   out of fuel and never index out of range. *)
From Coq Require Import List ZArith NArith Bool Lia.
Import ListNotations.
Require Import XV.DMP XV.DMPBase XV.DMPCommon.
Local Open Scope Z_scope.

Definition total {A} (r : result A) : Prop := exists a, r = Ok a.

Lemma total_ok {A} (a : A) : total (Ok a).
Proof. now exists a. Qed.

Lemma total_bind {A B} (e : result A) (f : A -> result B) :
  total e -> (forall a, e = Ok a -> total (f a)) -> total (bind e f).
Proof. intros (a & ->) H. cbn. now apply H. Qed.

(* a loop whose body always succeeds and decreases a measure does not run out of fuel *)
Lemma loop_total {St R} (Inv : St -> Prop) (mu : St -> nat) (step : St -> result (St + R)) :
  (forall s, Inv s -> exists r, step s = Ok r /\
     match r with inl s' => Inv s' /\ (mu s' < mu s)%nat | inr _ => True end) ->
  forall fuel s, Inv s -> (mu s < fuel)%nat -> total (loop fuel step s).
Proof.
  intros Hs. induction fuel as [|f IH]; intros s Hi Hm; [lia|].
  destruct (Hs s Hi) as (r & Er & Hr). cbn [loop]. rewrite Er.
  destruct r as [s'|r].
  - destruct Hr as [Hi' Hm']. apply IH; [assumption|lia].
  - apply total_ok.
Qed.

Lemma for_loop_total {St R A} (Inv : St -> Prop) (body : A -> St -> result (St + R)) (xs : list A) :
  (forall x s, In x xs -> Inv s -> exists r, body x s = Ok r /\ match r with inl s' => Inv s' | inr _ => True end) ->
  forall s, Inv s -> total (for_loop xs body s).
Proof.
  induction xs as [|x xs IH]; intros Hb s Hi; cbn [for_loop]; [apply total_ok|].
  destruct (Hb x s (or_introl eq_refl) Hi) as (r & Er & Hr). rewrite Er.
  destruct r as [s'|r]; [|apply total_ok].
  apply IH; [|assumption]. intros x' s0 Hin. apply Hb. now right.
Qed.

(* ------------------------------------------------------------------ *)
(** * diff_commonPrefix / diff_commonSuffix *)

Lemma bs_total (P : Z -> Z -> bool) (m : Z) : 0 <= m ->
  total (loop (Z.to_nat (2 * m + 3)) (bs_step P) (0, m, m, 0)).
Proof.
  intros Hm.
  apply (loop_total (fun s : Z * Z * Z * Z => let '(pmin, pmax, pmid, _) := s in pmin <= pmid <= pmax)
                    (fun s : Z * Z * Z * Z => let '(pmin, pmax, pmid, _) := s in
                       Z.to_nat (2 * (pmax - pmin) + (if pmid =? pmax then 1 else 0)))).
  - intros [[[pmin pmax] pmid] pstart] Hi. cbn [bs_step].
    destruct (pmin <? pmid) eqn:Elt.
    + destruct (P pstart pmid).
      * eexists. split; [reflexivity|]. cbn beta iota. split; [lia|].
        destruct (pmid =? pmax) eqn:E1; destruct ((pmax - pmid) / 2 + pmid =? pmax) eqn:E2; lia.
      * eexists. split; [reflexivity|]. cbn beta iota. split; [lia|].
        destruct (pmid =? pmax) eqn:E1; destruct ((pmid - pmin) / 2 + pmin =? pmid) eqn:E2; lia.
    + eexists. split; [reflexivity|]. exact I.
  - lia.
  - rewrite Z.eqb_refl. lia.
Qed.

Lemma commonPrefix_total t1 t2 : total (commonPrefix t1 t2).
Proof.
  unfold commonPrefix. destruct t1 as [|x t1']; [apply total_ok|]. destruct t2 as [|y t2']; [apply total_ok|].
  destruct (N.eqb x y); [|apply total_ok].
  rewrite (loop_ext _ _ (cp_step_bs (x :: t1') (y :: t2'))).
  apply bs_total. pose proof (zlen_nonneg (x :: t1')). pose proof (zlen_nonneg (y :: t2')). lia.
Qed.

Lemma commonSuffix_total t1 t2 : total (commonSuffix t1 t2).
Proof.
  unfold commonSuffix. destruct t1 as [|x t1']; [apply total_ok|]. destruct t2 as [|y t2']; [apply total_ok|].
  destruct (py_get_last_cons x t1') as (p1 & l1 & E1 & G1).
  destruct (py_get_last_cons y t2') as (p2 & l2 & E2 & G2).
  rewrite G1, G2. cbn [bind].
  destruct (N.eqb l1 l2); [|apply total_ok].
  rewrite (loop_ext _ _ (cs_step_bs (x :: t1') (y :: t2'))).
  apply bs_total. pose proof (zlen_nonneg (x :: t1')). pose proof (zlen_nonneg (y :: t2')). lia.
Qed.

(* ------------------------------------------------------------------ *)
(** * diff_commonOverlap *)

Lemma commonOverlap_total x y : total (commonOverlap x y).
Proof.
  unfold commonOverlap.
  pose proof (zlen_nonneg x) as Hx. pose proof (zlen_nonneg y) as Hy.
  destruct ((zlen x =? 0) || (zlen y =? 0)) eqn:E0; [apply total_ok|].
  apply orb_false_iff in E0 as [E1 E2].
  set (t1 := if zlen x >? zlen y then slice_from x (- zlen y) else x).
  set (t2 := if zlen x >? zlen y then y else if zlen x <? zlen y then slice_to y (zlen x) else y).
  set (tl := Z.min (zlen x) (zlen y)).
  assert (Ht : zlen t1 = tl /\ zlen t2 = tl).
  { subst t1 t2 tl. destruct (zlen x >? zlen y) eqn:Eg.
    - destruct (slice_from_neg_spec x (zlen y)) as (a & Ha & Hl); [lia|].
      split; [|lia]. destruct Hl as [Hl|[Hl _]]; lia.
    - destruct (zlen x <? zlen y) eqn:El.
      + destruct (slice_to_spec y (zlen x)) as (b & Hb & Hl); [lia|].
        split; [lia|]. destruct Hl as [Hl|[Hl _]]; lia.
      + split; lia. }
  destruct Ht as [Hl1 Hl2]. clearbody t1 t2.
  destruct (str_eqb t1 t2) eqn:Eeq; [apply total_ok|].
  apply str_eqb_neq in Eeq.
  apply (loop_total (fun s : Z * Z => let '(_, length) := s in 1 <= length <= tl + 1)
                    (fun s : Z * Z => let '(_, length) := s in Z.to_nat (tl + 1 - length))).
  - intros [best length] Hlen. unfold co_step.
    set (pattern := slice_from t1 (- length)).
    destruct (find_spec pattern t2 _ eq_refl) as [Hf | (pre & post & Hf & Hfl)].
    + rewrite Hf. cbn. eexists. split; [reflexivity|exact I].
    + set (found := find pattern t2) in *.
      pose proof (zlen_nonneg pre). pose proof (zlen_nonneg post).
      destruct (found =? -1) eqn:Em1; [lia|].
      (* found + |pattern| <= tl, and |pattern| = length unless length = tl + 1 *)
      assert (Hb : length + found <= tl).
      { destruct (slice_from_neg_spec t1 length) as (a & Ha & Hl); [lia|]. fold pattern in Ha, Hl.
        pose proof (f_equal zlen Hf) as Hz. rewrite !zlen_app in Hz.
        destruct Hl as [Hl|[Hl ->]]; [lia|].
        exfalso. cbn in Ha. apply Eeq. rewrite <- Ha in Hf. rewrite <- Ha in Hz.
        assert (pre = []) by (apply zlen_0; lia). assert (post = []) by (apply zlen_0; lia).
        subst pre post. cbn in Hf. now rewrite app_nil_r in Hf. }
      destruct (found =? 0) eqn:Ef0; cbn [orb].
      * eexists. split; [reflexivity|]. cbn beta iota. split; lia.
      * destruct (str_eqb (slice_from t1 (- (length + found))) (slice_to t2 (length + found))).
        -- eexists. split; [reflexivity|]. cbn beta iota. split; lia.
        -- eexists. split; [reflexivity|]. cbn beta iota. split; lia.
  - lia.
  - lia.
Qed.

(* ------------------------------------------------------------------ *)
(** * diff_halfMatch *)

Lemma halfMatchI_total longtext shorttext i : 1 <= zlen longtext -> total (halfMatchI longtext shorttext i).
Proof.
  intros Hl. unfold halfMatchI.
  set (seed := slice longtext i (i + zlen longtext / 4)).
  apply total_bind.
  - apply (loop_total (fun s : Z * option hm_t => let '(j, _) := s in j = -1 \/ 0 <= j <= zlen shorttext)
                      (fun s : Z * option hm_t => let '(j, _) := s in
                         if j =? -1 then O else Z.to_nat (zlen shorttext + 1 - j))).
    + intros [j best] Hj. unfold hmi_step.
      destruct (j =? -1) eqn:Ej; cbn [negb].
      * eexists. split; [reflexivity|exact I].
      * destruct (commonPrefix_total (slice_from longtext i) (slice_from shorttext j)) as (pl & ->).
        destruct (commonSuffix_total (slice_to longtext i) (slice_to shorttext j)) as (sl & ->).
        cbn [bind]. eexists. split; [reflexivity|]. cbn beta iota.
        destruct (find_from_spec seed shorttext (j + 1) _ eq_refl) as [Hf|(pre & post & Hf & Hfl & Hge)]; [lia| |].
        -- rewrite Hf. cbn. split; [now left|lia].
        -- pose proof (f_equal zlen Hf) as Hz. rewrite !zlen_app in Hz.
           pose proof (zlen_nonneg pre). pose proof (zlen_nonneg seed). pose proof (zlen_nonneg post).
           set (j' := find_from seed shorttext (j + 1)) in *.
           split; [right; lia|]. destruct (j' =? -1) eqn:Ej'; lia.
    + destruct (find_spec seed shorttext _ eq_refl) as [Hf|(pre & post & Hf & Hfl)]; [now left|].
      right. pose proof (f_equal zlen Hf) as Hz. rewrite !zlen_app in Hz.
      pose proof (zlen_nonneg pre). pose proof (zlen_nonneg seed). pose proof (zlen_nonneg post). lia.
    + destruct (find_spec seed shorttext _ eq_refl) as [Hf|(pre & post & Hf & Hfl)].
      * rewrite Hf. cbn. pose proof (zlen_nonneg shorttext). lia.
      * pose proof (f_equal zlen Hf) as Hz. rewrite !zlen_app in Hz.
        pose proof (zlen_nonneg pre). pose proof (zlen_nonneg seed). pose proof (zlen_nonneg post).
        destruct (find seed shorttext =? -1); lia.
  - intros best _. destruct (zlen (hm_common best) * 2 >=? zlen longtext) eqn:E; [|apply total_ok].
    destruct best as [h|]; [apply total_ok|]. exfalso. cbn in E. lia.
Qed.

Lemma halfMatch_total text1 text2 : total (halfMatch text1 text2).
Proof.
  unfold halfMatch.
  set (swap := zlen text1 >? zlen text2).
  set (longtext := if swap then text1 else text2).
  set (shorttext := if swap then text2 else text1).
  destruct ((zlen longtext <? 4) || (zlen shorttext * 2 <? zlen longtext)) eqn:E0; [apply total_ok|].
  apply orb_false_iff in E0 as [E1 E2].
  apply total_bind; [apply halfMatchI_total; lia|]. intros hm1 _.
  apply total_bind; [apply halfMatchI_total; lia|]. intros hm2 _.
  destruct hm1 as [[[[[? ?] ?] ?] ?]|], hm2 as [[[[[? ?] ?] ?] ?]|]; cbn [hm_common];
    repeat match goal with |- context [if ?c then _ else _] => destruct c end; apply total_ok.
Qed.
