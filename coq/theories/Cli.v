(* main.py: the command-line / API plumbing of xmldiff.

   Part 1  types of the tables that translator/xl_main.py reads out of
           /repo/xmldiff/main.py, formatting.py (constructors, WS_* constants,
           _make_diff_tags' WS_TEXT branch) and diff.py (Differ.__init__'s
           parameter names) on every build: Gen/Flags.v, Gen/CliPlumbing.v,
           Gen/EntryPoints.v.
   Part 2  the whitespace switch (C14): generic interpreter over Gen/Flags.v.
   Part 3  hand-written models of _parse_uniqueattrs, _parse_ignored_attrs,
           validate_F (decimal strings and exact integer arithmetic -- no floats).
   Part 4  a model of the fragment of argparse that main.py uses, generic in the
           option table.
   Part 5  diff_command / patch_command as interpreters over Gen/CliPlumbing.v.
   Part 6  the API entry points as interpreters over Gen/EntryPoints.v, with the
           library calls (lxml parse functions, Differ.diff, formatter methods,
           Patcher.patch, DiffParser.parse) as abstract primitives.
   Part 7  boolean checkers (plumbing_ok, entrypoints_ok, flags_ok).
   Model only -- proofs are in CliProofs.v. *)
From Coq Require Import List NArith ZArith Bool.
From Coq Require String Ascii.
Import ListNotations.
Require Export XV.Str.
Import String.StringSyntax.
Delimit Scope string_scope with string.
Local Open Scope N_scope.

(* readable literals: L "abc" is the code-point list of an ASCII string *)
Definition L (s : String.string) : str := map Ascii.N_of_ascii (String.list_ascii_of_string s).
Arguments L s%string.

(* ------------------------------------------------------------------------- *)
(* Part 1: table types                                                        *)

Inductive pyconst := PCNone | PCBool (b : bool) | PCStr (s : str) | PCInt (z : Z).

Record formatter_class := {
  fc_name : str;                      (* class name in formatting.py *)
  fc_norm_default : str;              (* the WS_* name that is the default of `normalize` *)
  fc_pretty_default : bool;           (* default of `pretty_print` *)
  fc_stores : list (str * str) }.     (* every `self.<attr> = <parameter>` of __init__ *)

Record flags_tables := {
  ft_ws : list (str * N);             (* WS_X = value, in source order *)
  ft_classes : list formatter_class;
  ft_formatters : list (str * str);   (* FORMATTERS: key -> formatting.<class> *)
  (* _diff: bool(getattr(formatter, <attr>, <default>) & formatting.<mask>),
     etree.XMLParser(<kw>=<that value>) *)
  ft_diff_attr : str; ft_diff_default : N; ft_diff_mask : str; ft_diff_parser_kw : str;
  (* _make_diff_tags: if bool(self.<attr> & <mask>): v = f_n(..f_1(v or "")) for both values *)
  ft_text_attr : str; ft_text_mask : str; ft_text_ops : list str }.

Inductive choices := CLit (l : list str) | CKeysOf (table : str).

Record cli_opt := {
  co_flags : list str;                (* ["-f"; "--formatter"], or ["file1"] for a positional *)
  co_dest : option str;               (* dest= *)
  co_default : option pyconst;        (* default= *)
  co_type : option str;               (* type=<function name> *)
  co_choices : option choices;
  co_action : option str;             (* action= *)
  co_nargs : option str;              (* nargs= *)
  co_group : option nat }.            (* index of its mutually exclusive group *)

Inductive argsrc := AVar (v : str) | AArg (attr : str).       (* <v>  |  args.<attr> *)
Inductive optsrc := OArg (attr : str) | OCall (fn attr : str). (* args.<attr> | fn(args.<attr>) *)

Record fmt_ctor := {                  (* <table>[args.<key>](kw..)  or  formatting.<cls>(kw..) *)
  fk_table : option str; fk_key : str; fk_kwargs : list (str * argsrc) }.

Record api_call := {                  (* callee(args.a1, args.a2, k=v, ..., formatter=<ctor or var>) *)
  ac_callee : str; ac_args : list str; ac_kwargs : list (str * str) }.

Record diff_cmd := {
  dcm_parser_fn : str;
  dcm_norm_var : str; dcm_norm_test : str; dcm_norm_then : str; dcm_norm_else : str;
  dcm_fmt_var : str; dcm_fmt : fmt_ctor;
  dcm_opts_var : str; dcm_options : list (str * optsrc);
  dcm_result_var : str; dcm_call : api_call;
  dcm_printed : str;                  (* print(<var>) *)
  dcm_check_attr : str;               (* if args.<attr>: *)
  dcm_recheck_attr : str; dcm_recheck_value : str;   (* if args.<attr> == "<value>": *)
  dcm_recheck_target : str; dcm_recheck_call : api_call; dcm_recheck_fmt : fmt_ctor;
  dcm_check_fn : str; dcm_check_var : str; dcm_check_op : str; dcm_check_bound : Z;  (* if len(result) > 0: *)
  dcm_check_ret : Z }.                (* return 1 *)

Record patch_cmd := {
  pcm_parser_fn : str; pcm_result_var : str; pcm_callee : str; pcm_args : list str; pcm_printed : str }.

Record split_fn := {                  (* _parse_uniqueattrs / _parse_ignored_attrs *)
  sf_name : str; sf_none_empty : bool;     (* if x is None: return [] *)
  sf_sep : str;                            (* x.split(<sep>) *)
  sf_at : option (str * Z) }.              (* a if "<at>" not in a else a.split("<at>", <n>) *)

Record float_check := { fck_op : str; fck_bound : Z; fck_msg : str }.   (* if F <op> <bound>: raise ..(msg) *)
Record validate_fn := { vf_name : str; vf_conv : str; vf_exc : str; vf_conv_msg : str; vf_checks : list float_check }.

Record cli_tables := {
  ct_diff_opts : list cli_opt; ct_patch_opts : list cli_opt;
  ct_diff_cmd : diff_cmd; ct_patch_cmd : patch_cmd;
  ct_split_fns : list split_fn; ct_validate : validate_fn;
  ct_differ_params : list str }.   (* the keyword parameters of diff.Differ.__init__ *)

(* ---- entry points ---- *)
Record wrapper := {                   (* def w(p..): return callee(<parse>, a.., k=v..) *)
  w_name : str; w_params : list (str * option pyconst); w_callee : str; w_parse : str;
  w_pos : list str; w_kw : list (str * str) }.

Record diff_core := {                 (* _diff *)
  dco_name : str; dco_params : list (str * option pyconst);
  dco_norm_var : str;                 (* <v> = bool(getattr(<formatter param>, ..) & ..): data in Gen/Flags.v *)
  dco_norm_obj : str;
  dco_parser_var : str; dco_parser_ctor : str; dco_parser_kw : list (str * str);
  dco_parses : list (str * str * list str);   (* <target> = <fn var>(<args>) *)
  dco_callee : str; dco_pos : list str; dco_kw : list (str * str) }.

Inductive dstep :=
| DPrepare (guard l r : str)          (* if <guard> is not None: <guard>.prepare(l, r) *)
| DDefaultOpts (v : str)              (* if <v> is None: <v> = {} *)
| DMakeDiffer (target cls opts : str) (* <target> = diff.<cls>( ** <opts>) *)
| DDiff (target obj l r : str)        (* <target> = <obj>.diff(l, r) *)
| DReturnList (guard v : str)         (* if <guard> is None: return list(<v>) *)
| DReturnFormat (obj d l : str).      (* return <obj>.format(d, l) *)

Inductive pstep :=
| PParseTree (target fn arg : str)    (* <target> = etree.<fn>(<arg>) *)
| PReadActions (v enc : str)          (* the isinstance(<v>, str) / open(.., encoding=<enc>) / .read() block (pinned) *)
| PParseActions (target cls arg : str)(* <target> = patch.<cls>().parse(<arg>) *)
| PPatch (target callee a t : str)    (* <target> = <callee>(a, t) *)
| PReturnUnicode (fn arg : str).      (* return etree.<fn>(<arg>) *)

Record pfun := { pf_name : str; pf_params : list (str * option pyconst); pf_steps : list pstep }.
Record patch_tree_fn := {             (* patcher = patch.<cls>(); return patcher.<method>(a, t) *)
  pt_name : str; pt_params : list str; pt_cls : str; pt_method : str; pt_args : list str }.

Record entry_tables := {
  et_wrappers : list wrapper; et_core : diff_core;
  et_trees_name : str; et_trees_params : list (str * option pyconst); et_trees : list dstep;
  et_patch_tree : patch_tree_fn; et_patch_fns : list pfun }.

(* ------------------------------------------------------------------------- *)
(* small helpers                                                              *)

Fixpoint assoc {A} (k : str) (l : list (str * A)) : option A :=
  match l with
  | [] => None
  | (k', v) :: r => if str_eqb k k' then Some v else assoc k r
  end.

Definition s_normalize : str := L "normalize".
Definition s_pretty_print : str := L "pretty_print".
Definition s_DiffFormatter : str := L "DiffFormatter".
Definition s_XmlDiffFormatter : str := L "XmlDiffFormatter".
Definition s_XMLFormatter : str := L "XMLFormatter".
Definition s_FORMATTERS : str := L "FORMATTERS".
Definition s_WS_NONE : str := L "WS_NONE".
Definition s_WS_TAGS : str := L "WS_TAGS".
Definition s_WS_TEXT : str := L "WS_TEXT".
Definition s_WS_BOTH : str := L "WS_BOTH".
Definition s_diff : str := L "diff".
Definition s_xml : str := L "xml".
Definition s_old : str := L "old".

(* ------------------------------------------------------------------------- *)
(* Part 2: the whitespace switch                                              *)

Inductive fkind := FNone | FDiff | FOld | FXml.
Definition fkind_is_none (k : fkind) : bool := match k with FNone => true | _ => false end.
Definition class_name (k : fkind) : option str :=
  match k with FNone => None | FDiff => Some s_DiffFormatter | FOld => Some s_XmlDiffFormatter
             | FXml => Some s_XMLFormatter end.

Definition find_class (T : flags_tables) (name : str) : option formatter_class :=
  find (fun c => str_eqb (fc_name c) name) (ft_classes T).
Definition ws_value (T : flags_tables) (name : str) : option N := assoc name (ft_ws T).

(* obj.<attr> after `cls(normalize=n)` (n = None: the argument is left out);
   None = the object has no such attribute / the tables are not understood *)
Definition ctor_attr (T : flags_tables) (c : formatter_class) (attr : str) (n : option N) : option (option N) :=
  match assoc attr (fc_stores c) with
  | None => Some None                                   (* attribute never set *)
  | Some param =>
      if str_eqb param s_normalize then
        match n with
        | Some v => Some (Some v)
        | None => option_map Some (ws_value T (fc_norm_default c))
        end
      else None                                         (* stores something that is not a flag *)
  end.

(* getattr(formatter, <attr>, <default>) in _diff; cn = None: formatter is None *)
Definition effective_normalize_class (T : flags_tables) (cn : option str) (n : option N) : option N :=
  match cn with
  | None => Some (ft_diff_default T)                    (* None has no attributes *)
  | Some cn =>
      match find_class T cn with
      | None => None
      | Some c => match ctor_attr T c (ft_diff_attr T) n with
                  | Some (Some v) => Some v
                  | Some None => Some (ft_diff_default T)
                  | None => None
                  end
      end
  end.
Definition effective_normalize (T : flags_tables) (k : fkind) (n : option N) : option N :=
  effective_normalize_class T (class_name k) n.

(* the remove_blank_text argument of the parser _diff creates *)
Definition remove_blank_class (T : flags_tables) (cn : option str) (n : option N) : option bool :=
  match effective_normalize_class T cn n, ws_value T (ft_diff_mask T) with
  | Some e, Some m => Some (negb (N.land e m =? 0))
  | _, _ => None
  end.
Definition remove_blank (T : flags_tables) (k : fkind) (n : option N) : option bool :=
  remove_blank_class T (class_name k) n.

(* the same for an already constructed formatter object whose `normalize`
   attribute is known (used by the entry-point model) *)
Definition remove_blank_of_attr (T : flags_tables) (a : option N) : option bool :=
  match ws_value T (ft_diff_mask T) with
  | Some m => Some (negb (N.land (match a with Some v => v | None => ft_diff_default T end) m =? 0))
  | None => None
  end.

(* the test of _make_diff_tags for a formatter object with normalize = v *)
Definition ws_text_on (T : flags_tables) (v : N) : option bool :=
  option_map (fun m => negb (N.land v m =? 0)) (ws_value T (ft_text_mask T)).

Definition s_cleanup_whitespace : str := L "cleanup_whitespace".
Definition s_strip : str := L "strip".
Definition text_op (name : str) : option (str -> str) :=
  if str_eqb name s_cleanup_whitespace then Some cleanup_whitespace
  else if str_eqb name s_strip then Some strip else None.
Fixpoint apply_text_ops (ops : list str) (s : str) : option str :=
  match ops with
  | [] => Some s
  | o :: r => match text_op o with Some f => apply_text_ops r (f s) | None => None end
  end.
(* what _make_diff_tags makes of one of its two values when the WS_TEXT test succeeds *)
Definition ws_text_normal (T : flags_tables) (v : option str) : option str :=
  apply_text_ops (ft_text_ops T) (match v with Some s => s | None => [] end).

(* ------------------------------------------------------------------------- *)
(* Part 3: _parse_uniqueattrs, _parse_ignored_attrs, validate_F               *)

(* s.split(c) for a one-character separator: never empty *)
Fixpoint split_on_aux (c : N) (cur : str) (s : str) : list str :=
  match s with
  | [] => [rev cur]
  | x :: r => if x =? c then rev cur :: split_on_aux c [] r else split_on_aux c (x :: cur) r
  end.
Definition split_on (c : N) (s : str) : list str := split_on_aux c [] s.

(* s.split(c, 1) *)
Fixpoint split1_aux (c : N) (cur : str) (s : str) : str * option str :=
  match s with
  | [] => (rev cur, None)
  | x :: r => if x =? c then (rev cur, Some r) else split1_aux c (x :: cur) r
  end.
Definition split1 (c : N) (s : str) : str * option str := split1_aux c [] s.

Definition has_char (c : N) (s : str) : bool := existsb (N.eqb c) s.

(* an element of the uniqueattrs list: a str, or the 2-element list [tag, attr] *)
Inductive uattr := UPlain (a : str) | UPair (tag attr : str).
Definition uattr_eqb (x y : uattr) : bool :=
  match x, y with
  | UPlain a, UPlain b => str_eqb a b
  | UPair a b, UPair c d => str_eqb a c && str_eqb b d
  | _, _ => false
  end.

Definition parse_uniqueattrs_with (sep at_ : N) (v : option str) : list uattr :=
  match v with
  | None => []
  | Some s => map (fun a => if has_char at_ a
                            then match split1 at_ a with (t, Some r) => UPair t r | (t, None) => UPlain t end
                            else UPlain a) (split_on sep s)
  end.
Definition parse_ignored_attrs_with (sep : N) (v : option str) : list str :=
  match v with None => [] | Some s => split_on sep s end.
Definition parse_uniqueattrs := parse_uniqueattrs_with 44 64.
Definition parse_ignored_attrs := parse_ignored_attrs_with 44.

Definition render_uattr (u : uattr) : str :=
  match u with UPlain a => a | UPair t a => t ++ [64] ++ a end.
Definition render_uniqueattrs (l : list uattr) : option str :=
  match l with [] => None | _ => Some (join [44] (map render_uattr l)) end.
Definition render_ignored_attrs (l : list str) : option str :=
  match l with [] => None | _ => Some (join [44] l) end.

(* validate_F on decimal literals  [+-]? (d+ (. d* )? | . d+)  with at most 15
   fractional digits (for these float(arg) <= 0 and float(arg) > 1 coincide
   with the exact comparisons: the nearest double of a decimal >= 10^-15 is
   positive, of a decimal >= 1 + 10^-15 is above 1.0) *)
Inductive fres :=
| FOk (num : Z) (places : nat)        (* returns float(arg) = num / 10^places *)
| FRejected (msg : str)               (* raises ArgumentTypeError(msg) *)
| FNotFloat                           (* float(arg) raises ValueError (for strings over 0-9 . + -) *)
| FUnmodelled.                        (* outside the modelled literals *)

Fixpoint take_digits (s : str) : str * str :=
  match s with
  | c :: r => if is_digit c then let (d, t) := take_digits r in (c :: d, t) else ([], s)
  | [] => ([], [])
  end.
Definition digits_N (d : str) : N := fold_left (fun acc c => acc * 10 + (c - 48)) d 0.
Definition decimal_alphabet (s : str) : bool :=
  forallb (fun c => is_digit c || (c =? 46) || (c =? 43) || (c =? 45)) s.

(* Some (negative, integer digits, fraction digits) *)
Definition parse_decimal (s : str) : option (bool * str * str) :=
  let '(neg, body) := match s with
                      | c :: r => if c =? 45 then (true, r) else if c =? 43 then (false, r) else (false, s)
                      | [] => (false, [])
                      end in
  let (ip, rest) := take_digits body in
  match rest with
  | [] => match ip with [] => None | _ => Some (neg, ip, []) end
  | c :: r => if c =? 46 then
                let (fp, rest') := take_digits r in
                match rest' with
                | [] => match ip, fp with [], [] => None | _, _ => Some (neg, ip, fp) end
                | _ => None
                end
              else None
  end.

Definition cmp_op (op : str) (a b : Z) : option bool :=
  if str_eqb op (L "<=") then Some (a <=? b)%Z
  else if str_eqb op (L ">") then Some (a >? b)%Z
  else if str_eqb op (L "<") then Some (a <? b)%Z
  else if str_eqb op (L ">=") then Some (a >=? b)%Z
  else None.

Fixpoint run_float_checks (cs : list float_check) (num : Z) (places : nat) : fres :=
  match cs with
  | [] => FOk num places
  | c :: r => match cmp_op (fck_op c) num (fck_bound c * 10 ^ Z.of_nat places)%Z with
              | None => FUnmodelled
              | Some true => FRejected (fck_msg c)
              | Some false => run_float_checks r num places
              end
  end.

Definition validate_F_with (V : validate_fn) (arg : str) : fres :=
  if negb (decimal_alphabet arg) then FUnmodelled
  else match parse_decimal arg with
       | None => FNotFloat
       | Some (neg, ip, fp) =>
           if (15 <? length fp)%nat then FUnmodelled
           else let m := Z.of_N (digits_N (ip ++ fp)) in
                run_float_checks (vf_checks V) (if neg then (- m)%Z else m) (length fp)
       end.


(* ------------------------------------------------------------------------- *)
(* Part 4: argparse, as far as main.py uses it (CPython 3.12 argparse:        *)
(* _parse_optional, _get_option_tuples, consume_optional, consume_positionals,*)
(* _get_values, take_action; validated by the correspondence in C15.py)       *)

Inductive argval :=
| AVNone | AVBool (b : bool) | AVStr (s : str)
| AVFloat (s : str).                  (* the float denoted by the (validated) literal s *)
Definition argval_eqb (a b : argval) : bool :=
  match a, b with
  | AVNone, AVNone => true
  | AVBool x, AVBool y => Bool.eqb x y
  | AVStr x, AVStr y => str_eqb x y
  | AVFloat x, AVFloat y => str_eqb x y
  | _, _ => false
  end.

Inductive parsed :=
| PUsage                              (* parser.error(..): SystemExit(2) *)
| PExit0                              (* -h / -v: prints and exits with status 0 *)
| PUnmodelled                         (* argv or table outside the modelled fragment *)
| PArgs (ns : list (str * argval)).   (* the Namespace *)

Definition starts_with (p s : str) : bool := str_eqb p (firstn (length p) s).
Definition is_positional (o : cli_opt) : bool :=
  match co_flags o with f :: _ => negb (starts_with [45] f) | [] => false end.
Definition is_long (f : str) : bool := starts_with [45;45] f.
Fixpoint lstrip_dashes (s : str) : str :=
  match s with c :: r => if c =? 45 then lstrip_dashes r else s | [] => [] end.

(* argparse's dest: dest= if given; else the first long flag, else the first
   flag, without leading dashes and with '-' replaced by '_' *)
Definition dest_of (o : cli_opt) : str :=
  match co_dest o with
  | Some d => d
  | None =>
      if is_positional o then hd [] (co_flags o)
      else let f := match find is_long (co_flags o) with Some f => f | None => hd [] (co_flags o) end in
           replace_char 45 95 (lstrip_dashes f)
  end.

Inductive okind := KStoreTrue | KHelp | KVersion | KStore.
Definition opt_kind (o : cli_opt) : option okind :=
  match co_action o with
  | None => Some KStore
  | Some a => if str_eqb a (L "store_true") then Some KStoreTrue
              else if str_eqb a (L "help") then Some KHelp
              else if str_eqb a (L "version") then Some KVersion
              else if str_eqb a (L "store") then Some KStore
              else None
  end.
Definition nargs_optional (o : cli_opt) : option bool :=   (* Some true: nargs="?" *)
  match co_nargs o with
  | None => Some false
  | Some n => if str_eqb n (L "?") then Some true else None
  end.

(* the context a parser is built in: FORMATTERS keys and validate_F *)
Record pctx := { px_formatters : list str; px_validate : validate_fn }.

Definition resolve_choices (X : pctx) (c : choices) : option (list str) :=
  match c with
  | CLit l => Some l
  | CKeysOf t => if str_eqb t s_FORMATTERS then Some (px_formatters X) else None
  end.

Inductive conv := CvOk (v : argval) | CvErr | CvUnm.
Definition apply_type (X : pctx) (ty : option str) (s : str) : conv :=
  match ty with
  | None => CvOk (AVStr s)
  | Some t =>
      if str_eqb t (L "str") then CvOk (AVStr s)
      else if str_eqb t (vf_name (px_validate X)) then
        match validate_F_with (px_validate X) s with
        | FOk _ _ => CvOk (AVFloat s)
        | FRejected _ | FNotFloat => CvErr
        | FUnmodelled => CvUnm
        end
      else CvUnm
  end.

(* _get_value + _check_value *)
Definition convert (X : pctx) (o : cli_opt) (s : str) : conv :=
  match apply_type X (co_type o) s with
  | CvOk v =>
      match co_choices o with
      | None => CvOk v
      | Some c => match resolve_choices X c, v with
                  | Some l, AVStr s' => if smem s' l then CvOk v else CvErr
                  | _, _ => CvUnm
                  end
      end
  | r => r
  end.

Definition default_of (X : pctx) (o : cli_opt) : option argval :=
  match opt_kind o with
  | Some KStoreTrue => match co_default o with
                       | None => Some (AVBool false)
                       | Some (PCBool b) => Some (AVBool b)
                       | _ => None
                       end
  | Some KStore => match co_default o with
                   | None | Some PCNone => Some AVNone
                   | Some (PCBool b) => Some (AVBool b)
                   | Some (PCStr s) => match apply_type X (co_type o) s with CvOk v => Some v | _ => None end
                   | Some (PCInt _) => None
                   end
  | _ => None
  end.

Definition has_dest (o : cli_opt) : bool :=
  match opt_kind o with Some KStoreTrue | Some KStore => true | _ => false end.

Fixpoint initial_ns (X : pctx) (opts : list cli_opt) : option (list (str * argval)) :=
  match opts with
  | [] => Some []
  | o :: r => if has_dest o then
                match default_of X o, initial_ns X r with
                | Some v, Some ns => Some ((dest_of o, v) :: ns)
                | _, _ => None
                end
              else match opt_kind o with Some _ => initial_ns X r | None => None end
  end.

Fixpoint set_ns (k : str) (v : argval) (ns : list (str * argval)) : list (str * argval) :=
  match ns with
  | [] => [(k, v)]
  | (k', v') :: r => if str_eqb k k' then (k, v) :: r else (k', v') :: set_ns k v r
  end.

Definition optionals (opts : list cli_opt) := filter (fun o => negb (is_positional o)) opts.
Definition positionals (opts : list cli_opt) := filter is_positional opts.
Definition find_flag (opts : list cli_opt) (f : str) : option cli_opt :=
  find (fun o => smem f (co_flags o)) (optionals opts).
Definition all_flags (opts : list cli_opt) : list (cli_opt * str) :=
  flat_map (fun o => map (fun f => (o, f)) (co_flags o)) (optionals opts).

(* ^-\d+$|^-\d*\.\d+$ *)
Definition negative_number_like (s : str) : bool :=
  match s with
  | c :: r => if c =? 45 then
                let (d, t) := take_digits r in
                match t with
                | [] => negb (Nat.eqb (length d) 0)
                | c' :: r' => if c' =? 46 then
                                let (d', t') := take_digits r' in
                                match t' with [] => negb (Nat.eqb (length d') 0) | _ => false end
                              else false
                end
              else false
  | [] => false
  end.

Inductive tok :=
| TPos (s : str)                                  (* 'A' *)
| TOpt (o : cli_opt) (flag : str) (explicit : option str)   (* 'O' *)
| TUnknown                                        (* 'O', no such option: an "extra" *)
| TAmbiguous                                      (* error raised while classifying *)
| TUnm.

Definition classify (opts : list cli_opt) (t : str) : tok :=
  match t with
  | [] => TPos t
  | c :: _ =>
      if negb (c =? 45) then TPos t
      else match find_flag opts t with
      | Some o => TOpt o t None
      | None =>
          if Nat.eqb (length t) 1 then TPos t
          else if str_eqb t [45;45] then TUnm
          else
            let '(name, expl) := split1 61 t in
            match (match expl with Some _ => find_flag opts name | None => None end) with
            | Some o => TOpt o name expl
            | None =>
                let tuples :=
                  if is_long t then
                    map (fun of : cli_opt * str => (fst of, snd of, expl))
                        (filter (fun of : cli_opt * str => starts_with name (snd of)) (all_flags opts))
                  else
                    flat_map (fun of : cli_opt * str =>
                                if str_eqb (snd of) (firstn 2 t) then [(fst of, snd of, Some (skipn 2 t))]
                                else if starts_with t (snd of) then [(fst of, snd of, None)] else [])
                             (all_flags opts) in
                match tuples with
                | [(o, f, e)] => TOpt o f e
                | _ :: _ :: _ => TAmbiguous
                | [] => if negative_number_like t then TPos t
                        else if has_char 32 t then TPos t
                        else TUnknown
                end
            end
      end
  end.

Record pstate := {
  ps_ns : list (str * argval);
  ps_pos : list str;                  (* positional values, reversed *)
  ps_groups : list (nat * str);       (* (group, dest) of the group members seen *)
  ps_extras : bool }.

Inductive sres :=
| SErr | SExit | SUnm
| SNeed (o : cli_opt) (st : pstate)   (* the option looks at the following tokens *)
| SDone (st : pstate).

Definition group_conflict (o : cli_opt) (st : pstate) : bool :=
  match co_group o with
  | None => false
  | Some g => existsb (fun p : nat * str => Nat.eqb (fst p) g && negb (str_eqb (snd p) (dest_of o))) (ps_groups st)
  end.
Definition note_group (o : cli_opt) (st : pstate) : list (nat * str) :=
  match co_group o with None => ps_groups st | Some g => (g, dest_of o) :: ps_groups st end.

(* take_action for a value-less occurrence / for a value *)
Definition store (o : cli_opt) (v : argval) (st : pstate) : sres :=
  if group_conflict o st then SErr
  else SDone {| ps_ns := set_ns (dest_of o) v (ps_ns st); ps_pos := ps_pos st;
                ps_groups := note_group o st; ps_extras := ps_extras st |}.

Definition store_converted (X : pctx) (o : cli_opt) (s : str) (st : pstate) : sres :=
  match convert X o s with
  | CvOk v => store o v st
  | CvErr => SErr
  | CvUnm => SUnm
  end.

(* consume_optional up to the point where following tokens are needed;
   fuel bounds the -xyz chain by the length of the token *)
Fixpoint consume_opt (X : pctx) (opts : list cli_opt) (fuel : nat) (o : cli_opt) (flag : str)
         (explicit : option str) (st : pstate) : sres :=
  match opt_kind o, nargs_optional o with
  | None, _ | _, None => SUnm
  | Some KStore, Some _ =>
      match explicit with
      | Some v => store_converted X o v st
      | None => SNeed o st
      end
  | Some k, Some _ =>
      match explicit with
      | None => match k with
                | KStoreTrue => store o (AVBool true) st
                | _ => SExit
                end
      | Some [] => SErr                             (* ignored explicit argument '' *)
      | Some (c :: r) =>
          if is_long flag then SErr                  (* --check=x *)
          else match k with
               | KStoreTrue =>
                   match store o (AVBool true) st, fuel with
                   | SDone st', S fuel' =>
                       match find_flag opts [45; c] with
                       | Some o' => consume_opt X opts fuel' o' [45; c] (match r with [] => None | _ => Some r end) st'
                       | None => SErr
                       end
                   | SDone _, O => SUnm
                   | r', _ => r'
                   end
               | _ => SUnm                           (* -hx: not modelled *)
               end
      end
  end.

Fixpoint run_tokens (X : pctx) (opts : list cli_opt) (toks : list (tok * nat)) (st : pstate) : parsed + pstate :=
  match toks with
  | [] => inr st
  | (TPos v, _) :: rest =>
      run_tokens X opts rest {| ps_ns := ps_ns st; ps_pos := v :: ps_pos st; ps_groups := ps_groups st;
                                ps_extras := ps_extras st |}
  | (TUnknown, _) :: rest =>
      run_tokens X opts rest {| ps_ns := ps_ns st; ps_pos := ps_pos st; ps_groups := ps_groups st;
                                ps_extras := true |}
  | (TAmbiguous, _) :: _ => inl PUsage
  | (TUnm, _) :: _ => inl PUnmodelled
  | (TOpt o flag expl, len) :: rest =>
      match consume_opt X opts len o flag expl st with
      | SErr => inl PUsage
      | SExit => inl PExit0
      | SUnm => inl PUnmodelled
      | SDone st' => run_tokens X opts rest st'
      | SNeed o' st' =>
          match rest with
          | (TPos v, _) :: rest' =>
              match store_converted X o' v st' with
              | SDone st'' => run_tokens X opts rest' st''
              | SErr => inl PUsage
              | SExit => inl PExit0
              | _ => inl PUnmodelled
              end
          | _ =>
              match nargs_optional o' with
              | Some true => match store o' AVNone st' with      (* const=None *)
                             | SDone st'' => run_tokens X opts rest st''
                             | SErr => inl PUsage
                             | _ => inl PUnmodelled
                             end
              | _ => inl PUsage                                    (* expected one argument *)
              end
          end
      end
  end.

Fixpoint assign_positionals (ps : list cli_opt) (vals : list str) (ns : list (str * argval))
  : option (list (str * argval)) :=                (* None: too few or too many *)
  match ps, vals with
  | [], [] => Some ns
  | p :: ps', v :: vals' => assign_positionals ps' vals' (set_ns (dest_of p) (AVStr v) ns)
  | _, _ => None
  end.

Definition parse_args (X : pctx) (opts : list cli_opt) (argv : list str) : parsed :=
  let toks := map (fun t => (classify opts t, length t)) argv in
  if existsb (fun t : tok * nat => match fst t with TAmbiguous => true | _ => false end) toks then PUsage
  else if existsb (fun o => match co_type o with
                            | None => false
                            | Some t => negb (str_eqb t (L "str")) end) (positionals opts) then PUnmodelled
  else match initial_ns X (optionals opts) with
  | None => PUnmodelled
  | Some ns0 =>
      match run_tokens X opts toks {| ps_ns := ns0; ps_pos := []; ps_groups := []; ps_extras := false |} with
      | inl (PArgs _) => PUnmodelled                   (* never: run_tokens stops only with the other three *)
      | inl r => r
      | inr st =>
          (* required positionals are checked before left-over arguments; both are status 2.
             Positionals come first in the Namespace only for readability. *)
          match assign_positionals (positionals opts) (rev (ps_pos st)) (ps_ns st) with
          | None => PUsage
          | Some ns => if ps_extras st then PUsage else PArgs ns
          end
      end
  end.

(* ------------------------------------------------------------------------- *)
(* Part 5: diff_command and patch_command                                     *)

Inductive optval := OVal (v : argval) | OUniq (l : list uattr) | OIgn (l : list str).
Inductive kwval := KN (n : N) | KA (v : argval).
Record fmt_spec := { fs_class : str; fs_kwargs : list (str * kwval) }.
Inductive callarg := CAOpts (o : list (str * optval)) | CAFmt (f : fmt_spec).
Record df_call := { c_callee : str; c_args : list argval; c_kwargs : list (str * callarg) }.

Inductive plan :=
| PlanUsage | PlanExit0 | PlanUnmodelled
| PlanRun (first : df_call) (check : bool) (recheck : option df_call).

Definition truthy (v : argval) : bool :=
  match v with AVNone => false | AVBool b => b | AVStr s => negb (Nat.eqb (length s) 0) | AVFloat _ => true end.

Fixpoint mapO {A B} (f : A -> option B) (l : list A) : option (list B) :=
  match l with
  | [] => Some []
  | x :: r => match f x, mapO f r with Some y, Some ys => Some (y :: ys) | _, _ => None end
  end.

Definition apply_split_fn (T : cli_tables) (fn : str) (v : argval) : option optval :=
  match find (fun f => str_eqb (sf_name f) fn) (ct_split_fns T) with
  | None => None
  | Some f =>
      if negb (sf_none_empty f) then None else
      let arg := match v with AVNone => Some None | AVStr s => Some (Some s) | _ => None end in
      match arg, sf_sep f with
      | Some a, [sep] =>
          match sf_at f with
          | None => Some (OIgn (parse_ignored_attrs_with sep a))
          | Some ([at_], 1%Z) => Some (OUniq (parse_uniqueattrs_with sep at_ a))
          | _ => None
          end
      | _, _ => None
      end
  end.

Definition build_fmt (F : flags_tables) (C : fmt_ctor) (normvar : str) (norm : N) (ns : list (str * argval))
  : option fmt_spec :=
  let cls := match fk_table C with
             | None => Some (fk_key C)
             | Some t => if str_eqb t s_FORMATTERS then
                           match assoc (fk_key C) ns with
                           | Some (AVStr k) => assoc k (ft_formatters F)
                           | _ => None
                           end
                         else None
             end in
  match cls, mapO (fun p : str * argsrc =>
                     match snd p with
                     | AVar v => if str_eqb v normvar then Some (fst p, KN norm) else None
                     | AArg a => option_map (fun x => (fst p, KA x)) (assoc a ns)
                     end) (fk_kwargs C) with
  | Some c, Some kw => Some {| fs_class := c; fs_kwargs := kw |}
  | _, _ => None
  end.

Definition build_call (A : api_call) (ns : list (str * argval)) (optsvar : str) (opts : list (str * optval))
           (fmtvar : str) (fmt : fmt_spec) : option df_call :=
  match mapO (fun a => assoc a ns) (ac_args A),
        mapO (fun p : str * str =>
                if str_eqb (snd p) optsvar then Some (fst p, CAOpts opts)
                else if str_eqb (snd p) fmtvar then Some (fst p, CAFmt fmt) else None) (ac_kwargs A) with
  | Some args, Some kw => Some {| c_callee := ac_callee A; c_args := args; c_kwargs := kw |}
  | _, _ => None
  end.

(* diff_command after parse_args *)
Definition diff_plan_of_ns (F : flags_tables) (T : cli_tables) (ns : list (str * argval)) : plan :=
  let D := ct_diff_cmd T in
  let r :=
    match assoc (dcm_norm_test D) ns with
    | None => None
    | Some kw =>
    match ws_value F (if truthy kw then dcm_norm_then D else dcm_norm_else D) with
    | None => None
    | Some norm =>
    match build_fmt F (dcm_fmt D) (dcm_norm_var D) norm ns with
    | None => None
    | Some fmt =>
    match mapO (fun p : str * optsrc =>
                  match snd p with
                  | OArg a => option_map (fun v => (fst p, OVal v)) (assoc a ns)
                  | OCall fn a => match assoc a ns with
                                  | Some v => option_map (fun x => (fst p, x)) (apply_split_fn T fn v)
                                  | None => None
                                  end
                  end) (dcm_options D) with
    | None => None
    | Some opts =>
    match build_call (dcm_call D) ns (dcm_opts_var D) opts (dcm_fmt_var D) fmt, assoc (dcm_check_attr D) ns with
    | Some c1, Some chk =>
        if negb (truthy chk) then Some (PlanRun c1 false None)
        else
          (* the variable tested by the check must be the result variable *)
          if negb (str_eqb (dcm_check_var D) (dcm_result_var D) && str_eqb (dcm_recheck_target D) (dcm_result_var D))
          then None else
          match assoc (dcm_recheck_attr D) ns with
          | Some (AVStr f) =>
              if str_eqb f (dcm_recheck_value D) then
                match build_fmt F (dcm_recheck_fmt D) (dcm_norm_var D) norm ns with
                | Some fmt2 =>
                    (* the formatter of the second call is an inline constructor: bound to a fresh name *)
                    match build_call (dcm_recheck_call D) ns (dcm_opts_var D) opts (L "<inline>") fmt2 with
                    | Some c2 => Some (PlanRun c1 true (Some c2))
                    | None => None
                    end
                | None => None
                end
              else Some (PlanRun c1 true None)
          | _ => None
          end
    | _, _ => None
    end end end end end in
  match r with Some p => p | None => PlanUnmodelled end.

Definition pctx_of (F : flags_tables) (T : cli_tables) : pctx :=
  {| px_formatters := map fst (ft_formatters F); px_validate := ct_validate T |}.

Definition diff_command_plan (F : flags_tables) (T : cli_tables) (argv : list str) : plan :=
  match parse_args (pctx_of F T) (ct_diff_opts T) argv with
  | PUsage => PlanUsage
  | PExit0 => PlanExit0
  | PUnmodelled => PlanUnmodelled
  | PArgs ns => diff_plan_of_ns F T ns
  end.

(* what the process does: stdout and exit status (None = the function returns
   None, i.e. status 0), given what the API calls return *)
Record cmd_result := { cr_stdout : str; cr_status : option Z }.

Definition check_test (D : diff_cmd) (result : str) : option bool :=
  if str_eqb (dcm_check_fn D) (L "len") then cmp_op (dcm_check_op D) (Z.of_nat (length result)) (dcm_check_bound D)
  else None.

(* print(<the variable the first call's result is bound to>) *)
Definition diff_prints (T : cli_tables) : bool := str_eqb (dcm_printed (ct_diff_cmd T)) (dcm_result_var (ct_diff_cmd T)).

Definition diff_command_run (F : flags_tables) (T : cli_tables) (api : df_call -> str) (argv : list str)
  : option cmd_result :=
  match diff_command_plan F T argv with
  | PlanUsage => Some {| cr_stdout := []; cr_status := Some 2%Z |}
  | PlanExit0 => None                                  (* help / version text: not modelled *)
  | PlanUnmodelled => None
  | PlanRun c1 chk c2 =>
      let r1 := api c1 in
      let out := if diff_prints T then r1 ++ [10] else [] in
      if negb chk then Some {| cr_stdout := out; cr_status := None |}
      else let r := match c2 with Some c => api c | None => r1 end in
           match check_test (ct_diff_cmd T) r with
           | Some true => Some {| cr_stdout := out; cr_status := Some (dcm_check_ret (ct_diff_cmd T)) |}
           | Some false => Some {| cr_stdout := out; cr_status := None |}
           | None => None
           end
  end.

(* patch_command: patch_file(args.patchfile, args.xmlfile, args.diff_encoding) *)
Inductive pplan := PPUsage | PPExit0 | PPUnmodelled | PPRun (callee : str) (args : list argval).
Definition patch_prints (T : cli_tables) : bool := str_eqb (pcm_printed (ct_patch_cmd T)) (pcm_result_var (ct_patch_cmd T)).
Definition patch_command_plan (F : flags_tables) (T : cli_tables) (argv : list str) : pplan :=
  match parse_args (pctx_of F T) (ct_patch_opts T) argv with
  | PUsage => PPUsage
  | PExit0 => PPExit0
  | PUnmodelled => PPUnmodelled
  | PArgs ns => match mapO (fun a => assoc a ns) (pcm_args (ct_patch_cmd T)) with
                | Some args => PPRun (pcm_callee (ct_patch_cmd T)) args
                | None => PPUnmodelled
                end
  end.

(* ---- the plumbing as it should be (the specification C15_plumbing compares with) ---- *)
Definition get (ns : list (str * argval)) (k : str) : argval :=
  match assoc k ns with Some v => v | None => AVNone end.
Definition as_ostr (v : argval) : option str := match v with AVStr s => Some s | _ => None end.

Definition spec_formatter_class (key : argval) : option str :=
  match key with
  | AVStr k => if str_eqb k s_diff then Some s_DiffFormatter
               else if str_eqb k s_xml then Some s_XMLFormatter
               else if str_eqb k s_old then Some s_XmlDiffFormatter else None
  | _ => None
  end.

Definition spec_opts (ns : list (str * argval)) : list (str * optval) :=
  [ (L "ignored_attrs", OIgn (parse_ignored_attrs (as_ostr (get ns (L "ignored_attributes")))));
    (L "ratio_mode", OVal (get ns (L "ratio_mode")));
    (L "F", OVal (get ns (L "F")));
    (L "fast_match", OVal (get ns (L "fast_match")));
    (L "best_match", OVal (get ns (L "best_match")));
    (L "uniqueattrs", OUniq (parse_uniqueattrs (as_ostr (get ns (L "unique_attributes"))))) ].

Definition spec_normalize (ns : list (str * argval)) : N :=
  if truthy (get ns (L "keep_whitespace")) then 0 else 3.

Definition spec_call (ns : list (str * argval)) (fmt : fmt_spec) : df_call :=
  {| c_callee := L "diff_files"; c_args := [get ns (L "file1"); get ns (L "file2")];
     c_kwargs := [(L "diff_options", CAOpts (spec_opts ns)); (L "formatter", CAFmt fmt)] |}.

Definition spec_plan (ns : list (str * argval)) : plan :=
  match spec_formatter_class (get ns (L "formatter")) with
  | None => PlanUnmodelled
  | Some cls =>
      let fmt := {| fs_class := cls; fs_kwargs := [(s_normalize, KN (spec_normalize ns));
                                                    (s_pretty_print, KA (get ns (L "pretty_print")))] |} in
      let c1 := spec_call ns fmt in
      if negb (truthy (get ns (L "check"))) then PlanRun c1 false None
      else if str_eqb (match get ns (L "formatter") with AVStr k => k | _ => [] end) s_xml
           then PlanRun c1 true
                  (Some (spec_call ns {| fs_class := s_DiffFormatter;
                                         fs_kwargs := [(s_normalize, KN (spec_normalize ns))] |}))
           else PlanRun c1 true None
  end.

(* a Namespace as parse_args of make_diff_parser produces it: every dest bound *)
Definition diff_dests : list str :=
  [L "file1"; L "file2"; L "check"; L "formatter"; L "keep_whitespace"; L "pretty_print"; L "F";
   L "unique_attributes"; L "ratio_mode"; L "fast_match"; L "best_match"; L "ignored_attributes"].

(* ------------------------------------------------------------------------- *)
(* Part 6: the API entry points, interpreted over Gen/EntryPoints.v           *)

Section EntrySem.
  (* what the library calls work on: sources (file names, streams, str, bytes),
     parsed trees, edit scripts, Differ options, formatter objects, results *)
  Variables (src tree script optsT fmtT outT actionsT : Type).

  Record prims := {
    p_fromstring : option bool -> src -> tree;   (* etree.fromstring(x[, parser]); Some b: XMLParser(remove_blank_text=b) *)
    p_parse : option bool -> src -> tree;        (* etree.parse(x[, parser]) *)
    p_norm_attr : fmtT -> option N;              (* the object's `normalize` attribute, if it has one *)
    p_prepare : fmtT -> tree -> tree -> tree * tree;   (* formatter.prepare(l, r): the trees afterwards *)
    p_empty_opts : optsT;                        (* {} *)
    p_diff : optsT -> tree -> tree -> script;    (* diff.Differ( **o).diff(l, r) *)
    p_list : script -> outT;                     (* list(diffs) *)
    p_format : fmtT -> script -> tree -> outT;   (* formatter.format(diffs, l) *)
    p_read : src -> option src -> src;           (* the text of a diff file (name or stream), given diff_encoding *)
    p_diffparse : src -> actionsT;               (* patch.DiffParser().parse(text) *)
    p_patch : actionsT -> tree -> tree;          (* patch.Patcher().patch(actions, tree) *)
    p_tounicode : tree -> outT }.                (* etree.tounicode(tree) *)

  Inductive value :=
  | VNone | VSrc (s : src) | VTree (t : tree) | VOpts (o : optsT) | VFmt (f : fmtT)
  | VParser (rb : bool) | VFn (name : str) | VDiffer (o : optsT) | VScript (d : script)
  | VActions (a : actionsT) | VOut (o : outT) | VBoolV (b : bool).

  Variable P : prims.
  Variable F : flags_tables.
  Variable E : entry_tables.

  Definition env := list (str * value).
  Fixpoint setv (k : str) (v : value) (e : env) : env :=
    match e with
    | [] => [(k, v)]
    | (k', v') :: r => if str_eqb k k' then (k, v) :: r else (k', v') :: setv k v r
    end.

  (* bind positional and keyword arguments to a parameter list; only None defaults *)
  Fixpoint bind_params (params : list (str * option pyconst)) (pos : list value) (kw : list (str * value))
    : option env :=
    match params with
    | [] => match pos with [] => Some [] | _ => None end
    | (p, d) :: ps =>
        match pos with
        | v :: pos' => if existsb (fun q : str * value => str_eqb (fst q) p) kw then None
                       else option_map (cons (p, v)) (bind_params ps pos' kw)
        | [] =>
            match assoc p kw, d with
            | Some v, _ => option_map (cons (p, v)) (bind_params ps [] kw)
            | None, Some PCNone => option_map (cons (p, VNone)) (bind_params ps [] kw)
            | None, _ => None
            end
        end
    end.
  Definition kw_known (params : list (str * option pyconst)) (kw : list (str * value)) : bool :=
    forallb (fun q : str * value => existsb (fun p : str * option pyconst => str_eqb (fst p) (fst q)) params) kw.

  (* diff_trees *)
  Fixpoint run_dsteps (steps : list dstep) (e : env) : option value :=
    match steps with
    | [] => None
    | DPrepare g l r :: rest =>
        match assoc g e with
        | Some VNone => run_dsteps rest e
        | Some (VFmt f) =>
            match assoc l e, assoc r e with
            | Some (VTree a), Some (VTree b) =>
                let ab := p_prepare P f a b in
                run_dsteps rest (setv r (VTree (snd ab)) (setv l (VTree (fst ab)) e))
            | _, _ => None
            end
        | _ => None
        end
    | DDefaultOpts v :: rest =>
        match assoc v e with
        | Some VNone => run_dsteps rest (setv v (VOpts (p_empty_opts P)) e)
        | Some (VOpts _) => run_dsteps rest e
        | _ => None
        end
    | DMakeDiffer t cls o :: rest =>
        if negb (str_eqb cls (L "Differ")) then None else
        match assoc o e with
        | Some (VOpts ov) => run_dsteps rest (setv t (VDiffer ov) e)
        | _ => None
        end
    | DDiff t obj l r :: rest =>
        match assoc obj e, assoc l e, assoc r e with
        | Some (VDiffer ov), Some (VTree a), Some (VTree b) => run_dsteps rest (setv t (VScript (p_diff P ov a b)) e)
        | _, _, _ => None
        end
    | DReturnList g v :: rest =>
        match assoc g e with
        | Some VNone => match assoc v e with Some (VScript d) => Some (VOut (p_list P d)) | _ => None end
        | Some (VFmt _) => run_dsteps rest e
        | _ => None
        end
    | DReturnFormat obj d l :: _ =>
        match assoc obj e, assoc d e, assoc l e with
        | Some (VFmt f), Some (VScript s), Some (VTree a) => Some (VOut (p_format P f s a))
        | _, _, _ => None
        end
    end.

  Definition call_diff_trees (pos : list value) (kw : list (str * value)) : option value :=
    if negb (kw_known (et_trees_params E) kw) then None else
    match bind_params (et_trees_params E) pos kw with
    | Some e => run_dsteps (et_trees E) e
    | None => None
    end.

  Definition parse_with (fname : str) (parser : option bool) (s : src) : option tree :=
    if str_eqb fname (L "fromstring") then Some (p_fromstring P parser s)
    else if str_eqb fname (L "parse") then Some (p_parse P parser s) else None.

  Fixpoint run_parses (ps : list (str * str * list str)) (e : env) : option env :=
    match ps with
    | [] => Some e
    | (t, fn, args) :: rest =>
        match assoc fn e, args with
        | Some (VFn name), [a; p] =>
            match assoc a e, assoc p e with
            | Some (VSrc s), Some (VParser rb) =>
                match parse_with name (Some rb) s with
                | Some tr => run_parses rest (setv t (VTree tr) e)
                | None => None
                end
            | _, _ => None
            end
        | _, _ => None
        end
    end.

  Definition lookup_all (names : list str) (e : env) : option (list value) := mapO (fun n => assoc n e) names.
  Definition lookup_kw (kw : list (str * str)) (e : env) : option (list (str * value)) :=
    mapO (fun p : str * str => option_map (fun v => (fst p, v)) (assoc (snd p) e)) kw.

  (* _diff *)
  Definition call_core (pos : list value) (kw : list (str * value)) : option value :=
    let C := et_core E in
    if negb (kw_known (dco_params C) kw) then None else
    match bind_params (dco_params C) pos kw with
    | None => None
    | Some e =>
        let attr := match assoc (dco_norm_obj C) e with
                    | Some VNone => Some None
                    | Some (VFmt f) => Some (p_norm_attr P f)
                    | _ => None
                    end in
        match attr with
        | None => None
        | Some a =>
        match remove_blank_of_attr F a with
        | None => None
        | Some rb =>
            let e1 := setv (dco_norm_var C) (VBoolV rb) e in
            if negb (str_eqb (dco_parser_ctor C) (L "XMLParser")) then None else
            match dco_parser_kw C with
            | [(k, v)] =>
                if negb (str_eqb k (ft_diff_parser_kw F) && str_eqb k (L "remove_blank_text")) then None else
                match assoc v e1 with
                | Some (VBoolV b) =>
                    let e2 := setv (dco_parser_var C) (VParser b) e1 in
                    match run_parses (dco_parses C) e2 with
                    | Some e3 =>
                        if negb (str_eqb (dco_callee C) (et_trees_name E)) then None else
                        match lookup_all (dco_pos C) e3, lookup_kw (dco_kw C) e3 with
                        | Some p, Some k' => call_diff_trees p k'
                        | _, _ => None
                        end
                    | None => None
                    end
                | _ => None
                end
            | _ => None
            end
        end end
    end.

  (* diff_texts / diff_files *)
  Definition call_wrapper (name : str) (pos : list value) (kw : list (str * value)) : option value :=
    match find (fun w => str_eqb (w_name w) name) (et_wrappers E) with
    | None => None
    | Some w =>
        if negb (kw_known (w_params w) kw) then None else
        match bind_params (w_params w) pos kw with
        | None => None
        | Some e =>
            if negb (str_eqb (w_callee w) (dco_name (et_core E))) then None else
            match lookup_all (w_pos w) e, lookup_kw (w_kw w) e with
            | Some p, Some k => call_core (VFn (w_parse w) :: p) k
            | _, _ => None
            end
        end
    end.

  (* patch_tree *)
  Definition call_patch_tree (pos : list value) : option value :=
    let T := et_patch_tree E in
    if negb (str_eqb (pt_cls T) (L "Patcher") && str_eqb (pt_method T) (L "patch")) then None else
    match bind_params (map (fun p => (p, None)) (pt_params T)) pos [] with
    | None => None
    | Some e => match lookup_all (pt_args T) e with
                | Some [VActions a; VTree t] => Some (VTree (p_patch P a t))
                | _ => None
                end
    end.

  Fixpoint run_psteps (steps : list pstep) (e : env) : option value :=
    match steps with
    | [] => None
    | PParseTree t fn a :: rest =>
        match assoc a e with
        | Some (VSrc s) => match parse_with fn None s with
                           | Some tr => run_psteps rest (setv t (VTree tr) e)
                           | None => None
                           end
        | _ => None
        end
    | PReadActions v enc :: rest =>
        match assoc v e, assoc enc e with
        | Some (VSrc s), Some VNone => run_psteps rest (setv v (VSrc (p_read P s None)) e)
        | Some (VSrc s), Some (VSrc c) => run_psteps rest (setv v (VSrc (p_read P s (Some c))) e)
        | _, _ => None
        end
    | PParseActions t cls a :: rest =>
        if negb (str_eqb cls (L "DiffParser")) then None else
        match assoc a e with
        | Some (VSrc s) => run_psteps rest (setv t (VActions (p_diffparse P s)) e)
        | _ => None
        end
    | PPatch t callee a tr :: rest =>
        if negb (str_eqb callee (pt_name (et_patch_tree E))) then None else
        match lookup_all [a; tr] e with
        | Some vs => match call_patch_tree vs with
                     | Some v => run_psteps rest (setv t v e)
                     | None => None
                     end
        | None => None
        end
    | PReturnUnicode fn a :: _ =>
        if negb (str_eqb fn (L "tounicode")) then None else
        match assoc a e with
        | Some (VTree t) => Some (VOut (p_tounicode P t))
        | _ => None
        end
    end.

  Definition call_patch_fn (name : str) (pos : list value) : option value :=
    match find (fun f => str_eqb (pf_name f) name) (et_patch_fns E) with
    | None => None
    | Some f => match bind_params (pf_params f) pos [] with
                | Some e => run_psteps (pf_steps f) e
                | None => None
                end
    end.

  (* the public functions *)
  Definition ofmt (f : option fmtT) : value := match f with Some x => VFmt x | None => VNone end.
  Definition oopts (o : option optsT) : value := match o with Some x => VOpts x | None => VNone end.
  Definition api_diff_trees (l r : tree) (o : option optsT) (f : option fmtT) : option value :=
    call_diff_trees [VTree l; VTree r] [(L "diff_options", oopts o); (L "formatter", ofmt f)].
  Definition api_diff_texts (l r : src) (o : option optsT) (f : option fmtT) : option value :=
    call_wrapper (L "diff_texts") [VSrc l; VSrc r] [(L "diff_options", oopts o); (L "formatter", ofmt f)].
  Definition api_diff_files (l r : src) (o : option optsT) (f : option fmtT) : option value :=
    call_wrapper (L "diff_files") [VSrc l; VSrc r] [(L "diff_options", oopts o); (L "formatter", ofmt f)].
  Definition api_patch_text (a t : src) : option value := call_patch_fn (L "patch_text") [VSrc a; VSrc t].
  Definition api_patch_file (a t : src) (enc : option src) : option value :=
    call_patch_fn (L "patch_file") [VSrc a; VSrc t; match enc with Some c => VSrc c | None => VNone end].

  (* what the entry points should be: one function of the parsed trees *)
  Definition spec_rb (f : option fmtT) : option bool :=
    remove_blank_of_attr F (match f with Some x => p_norm_attr P x | None => None end).
  Definition spec_diff_trees (l r : tree) (o : option optsT) (f : option fmtT) : value :=
    let ov := match o with Some x => x | None => p_empty_opts P end in
    match f with
    | None => VOut (p_list P (p_diff P ov l r))
    | Some x => let ab := p_prepare P x l r in
                VOut (p_format P x (p_diff P ov (fst ab) (snd ab)) (fst ab))
    end.
  Definition spec_patch (a : src) (t : tree) : value :=
    VOut (p_tounicode P (p_patch P (p_diffparse P a) t)).
End EntrySem.
Arguments api_diff_trees {src tree script optsT fmtT outT actionsT} P E l r o f.
Arguments api_diff_texts {src tree script optsT fmtT outT actionsT} P F E l r o f.
Arguments api_diff_files {src tree script optsT fmtT outT actionsT} P F E l r o f.
Arguments api_patch_text {src tree script optsT fmtT outT actionsT} P E a t.
Arguments api_patch_file {src tree script optsT fmtT outT actionsT} P E a t enc.
Arguments spec_rb {src tree script optsT fmtT outT actionsT} P F f.
Arguments spec_diff_trees {src tree script optsT fmtT outT actionsT} P l r o f.
Arguments spec_patch {src tree script optsT fmtT outT actionsT} P a t.
Arguments p_fromstring {src tree script optsT fmtT outT actionsT} p _ _.
Arguments p_parse {src tree script optsT fmtT outT actionsT} p _ _.
Arguments p_norm_attr {src tree script optsT fmtT outT actionsT} p _.
Arguments p_read {src tree script optsT fmtT outT actionsT} p _ _.
Arguments VOut {src tree script optsT fmtT outT actionsT} o.

(* ------------------------------------------------------------------------- *)
(* Part 7: checkers over the generated tables                                 *)

Fixpoint leqb {A} (f : A -> A -> bool) (a b : list A) : bool :=
  match a, b with
  | [], [] => true
  | x :: a', y :: b' => f x y && leqb f a' b'
  | _, _ => false
  end.
Definition oeqb {A} (f : A -> A -> bool) (a b : option A) : bool :=
  match a, b with None, None => true | Some x, Some y => f x y | _, _ => false end.
Definition strs_eqb := leqb str_eqb.
Definition spair_eqb (p q : str * str) : bool := str_eqb (fst p) (fst q) && str_eqb (snd p) (snd q).
Definition spairs_eqb := leqb spair_eqb.
Definition argsrc_eqb (a b : argsrc) : bool :=
  match a, b with AVar x, AVar y | AArg x, AArg y => str_eqb x y | _, _ => false end.
Definition kwsrc_eqb := leqb (fun p q : str * argsrc => str_eqb (fst p) (fst q) && argsrc_eqb (snd p) (snd q)).
Definition pyconst_eqb (a b : pyconst) : bool :=
  match a, b with
  | PCNone, PCNone => true
  | PCBool x, PCBool y => Bool.eqb x y
  | PCStr x, PCStr y => str_eqb x y
  | PCInt x, PCInt y => Z.eqb x y
  | _, _ => false
  end.
Definition params_eqb := leqb (fun p q : str * option pyconst => str_eqb (fst p) (fst q) && oeqb pyconst_eqb (snd p) (snd q)).
Definition choices_eqb (a b : choices) : bool :=
  match a, b with CLit x, CLit y => strs_eqb x y | CKeysOf x, CKeysOf y => str_eqb x y | _, _ => false end.

(* the Differ keyword, the command-line flag it must come from, and the parser function in between *)
Definition expected_plumbing : list (str * (str * option str)) :=
  [ (L "F", (L "-F", None));
    (L "ratio_mode", (L "--ratio-mode", None));
    (L "fast_match", (L "--fast-match", None));
    (L "best_match", (L "--best-match", None));
    (L "uniqueattrs", (L "--unique-attributes", Some (L "_parse_uniqueattrs")));
    (L "ignored_attrs", (L "--ignored-attributes", Some (L "_parse_ignored_attrs"))) ].

Definition dest_of_flag (opts : list cli_opt) (flag : str) : option str := option_map dest_of (find_flag opts flag).
Definition dest_is (opts : list cli_opt) (flag : str) (d : str) : bool :=
  match dest_of_flag opts flag with Some d' => str_eqb d d' | None => false end.
Definition positional_dests (opts : list cli_opt) : list str := map dest_of (positionals opts).

Definition row_ok (T : cli_tables) (row : str * (str * option str)) : bool :=
  let '(key, (flag, fn)) := row in
  match assoc key (dcm_options (ct_diff_cmd T)) with
  | Some (OArg a) => match fn with None => dest_is (ct_diff_opts T) flag a | Some _ => false end
  | Some (OCall f a) => match fn with Some f' => str_eqb f f' && dest_is (ct_diff_opts T) flag a | None => false end
  | None => false
  end.

Definition flag_has (T : cli_tables) (flag : str) (p : cli_opt -> bool) : bool :=
  match find_flag (ct_diff_opts T) flag with Some o => p o | None => false end.
Definition is_store_true (o : cli_opt) : bool := oeqb str_eqb (co_action o) (Some (L "store_true")).

Definition plumbing_ok (T : cli_tables) : bool :=
  let D := ct_diff_cmd T in
  let O := ct_diff_opts T in
  (* every Differ keyword comes from the like-named option through the right function *)
  forallb (row_ok T) expected_plumbing
  && Nat.eqb (length (dcm_options D)) (length expected_plumbing)
  && forallb (fun p : str * optsrc => smem (fst p) (ct_differ_params T)) (dcm_options D)
  && forallb (fun k => smem k (map fst (dcm_options D))) (ct_differ_params T)
  (* types of the options *)
  && flag_has T (L "-F") (fun o => oeqb str_eqb (co_type o) (Some (vf_name (ct_validate T))) && oeqb str_eqb (co_action o) None
                                   && oeqb str_eqb (co_nargs o) None)
  && str_eqb (vf_name (ct_validate T)) (L "validate_F")
  && flag_has T (L "--ratio-mode") (fun o => oeqb choices_eqb (co_choices o) (Some (CLit [L "accurate"; L "fast"; L "faster"]))
                                             && oeqb str_eqb (co_action o) None)
  && flag_has T (L "--unique-attributes") (fun o => oeqb str_eqb (co_nargs o) (Some (L "?")) && oeqb str_eqb (co_action o) None)
  && flag_has T (L "--ignored-attributes") (fun o => oeqb str_eqb (co_nargs o) (Some (L "?")) && oeqb str_eqb (co_action o) None)
  && forallb (fun f => flag_has T f is_store_true)
             [L "--fast-match"; L "--best-match"; L "--check"; L "-w"; L "--keep-whitespace"; L "-p"; L "--pretty-print"]
  (* --fast-match and --best-match exclude each other, and nothing else is in their group *)
  && match find_flag O (L "--fast-match"), find_flag O (L "--best-match") with
     | Some a, Some b =>
         match co_group a, co_group b with
         | Some g, Some g' =>
             Nat.eqb g g' && negb (str_eqb (dest_of a) (dest_of b))
             && Nat.eqb (length (filter (fun o => oeqb Nat.eqb (co_group o) (Some g)) O)) 2
         | _, _ => false
         end
     | _, _ => false
     end
  (* normalize: -w -> WS_NONE, otherwise WS_BOTH *)
  && dest_is O (L "-w") (dcm_norm_test D) && dest_is O (L "--keep-whitespace") (dcm_norm_test D)
  && str_eqb (dcm_norm_then D) s_WS_NONE && str_eqb (dcm_norm_else D) s_WS_BOTH
  (* formatter = FORMATTERS[-f](normalize=normalize, pretty_print=-p) *)
  && oeqb str_eqb (fk_table (dcm_fmt D)) (Some s_FORMATTERS)
  && dest_is O (L "-f") (fk_key (dcm_fmt D)) && dest_is O (L "--formatter") (fk_key (dcm_fmt D))
  && flag_has T (L "-f") (fun o => oeqb choices_eqb (co_choices o) (Some (CKeysOf s_FORMATTERS)) && oeqb str_eqb (co_action o) None)
  && match dest_of_flag O (L "-p") with
     | Some p => kwsrc_eqb (fk_kwargs (dcm_fmt D)) [(s_normalize, AVar (dcm_norm_var D)); (s_pretty_print, AArg p)]
     | None => false
     end
  (* result = diff_files(file1, file2, diff_options=.., formatter=..); print(result) *)
  && str_eqb (ac_callee (dcm_call D)) (L "diff_files")
  && strs_eqb (ac_args (dcm_call D)) (positional_dests O) && strs_eqb (positional_dests O) [L "file1"; L "file2"]
  && spairs_eqb (ac_kwargs (dcm_call D)) [(L "diff_options", dcm_opts_var D); (L "formatter", dcm_fmt_var D)]
  && str_eqb (dcm_printed D) (dcm_result_var D)
  && negb (str_eqb (dcm_opts_var D) (dcm_fmt_var D))
  (* --check: for -f xml the script is recomputed with DiffFormatter(normalize); status 1 iff len(result) > 0 *)
  && dest_is O (L "--check") (dcm_check_attr D)
  && str_eqb (dcm_recheck_attr D) (fk_key (dcm_fmt D)) && str_eqb (dcm_recheck_value D) s_xml
  && str_eqb (dcm_recheck_target D) (dcm_result_var D) && str_eqb (dcm_check_var D) (dcm_result_var D)
  && str_eqb (ac_callee (dcm_recheck_call D)) (ac_callee (dcm_call D))
  && strs_eqb (ac_args (dcm_recheck_call D)) (ac_args (dcm_call D))
  && spairs_eqb (ac_kwargs (dcm_recheck_call D)) [(L "diff_options", dcm_opts_var D); (L "formatter", L "<inline>")]
  && oeqb str_eqb (fk_table (dcm_recheck_fmt D)) None && str_eqb (fk_key (dcm_recheck_fmt D)) s_DiffFormatter
  && kwsrc_eqb (fk_kwargs (dcm_recheck_fmt D)) [(s_normalize, AVar (dcm_norm_var D))]
  && str_eqb (dcm_check_fn D) (L "len") && str_eqb (dcm_check_op D) (L ">")
  && Z.eqb (dcm_check_bound D) 0 && Z.eqb (dcm_check_ret D) 1
  (* the two list parsers and validate_F *)
  && match ct_split_fns T with
     | [u; i] =>
         str_eqb (sf_name u) (L "_parse_uniqueattrs") && sf_none_empty u && str_eqb (sf_sep u) [44]
         && match sf_at u with Some (a, n) => str_eqb a [64] && Z.eqb n 1 | None => false end
         && str_eqb (sf_name i) (L "_parse_ignored_attrs") && sf_none_empty i && str_eqb (sf_sep i) [44]
         && match sf_at i with None => true | Some _ => false end
     | _ => false
     end
  && str_eqb (vf_conv (ct_validate T)) (L "float") && str_eqb (vf_exc (ct_validate T)) (L "ValueError")
  && leqb (fun c e : str * Z => str_eqb (fst c) (fst e) && Z.eqb (snd c) (snd e))
          (map (fun c => (fck_op c, fck_bound c)) (vf_checks (ct_validate T))) [(L "<=", 0%Z); (L ">", 1%Z)]
  (* xmlpatch: print(patch_file(patchfile, xmlfile, --diff-encoding)) *)
  && str_eqb (pcm_callee (ct_patch_cmd T)) (L "patch_file")
  && match dest_of_flag (ct_patch_opts T) (L "--diff-encoding") with
     | Some e => strs_eqb (pcm_args (ct_patch_cmd T)) (positional_dests (ct_patch_opts T) ++ [e])
     | None => false
     end
  && strs_eqb (positional_dests (ct_patch_opts T)) [L "patchfile"; L "xmlfile"]
  && str_eqb (pcm_printed (ct_patch_cmd T)) (pcm_result_var (ct_patch_cmd T)).

(* the entry points: diff_texts / diff_files differ from diff_trees only in the
   parse primitive; one parser object for both inputs; prepare before diffing;
   Differ( **opts).diff; list(..) without formatter; formatter.format(diffs, left) *)
Definition wrapper_ok (E : entry_tables) (w : wrapper) (name parse : str) : bool :=
  str_eqb (w_name w) name && str_eqb (w_parse w) parse && str_eqb (w_callee w) (dco_name (et_core E))
  && params_eqb (w_params w) (et_trees_params E)
  && match et_trees_params E with
     | (l, None) :: (r, None) :: rest =>
         strs_eqb (w_pos w) [l; r]
         && spairs_eqb (w_kw w) (map (fun p : str * option pyconst => (fst p, fst p)) rest)
         && forallb (fun p : str * option pyconst => oeqb pyconst_eqb (snd p) (Some PCNone)) rest
     | _ => false
     end.

Definition entrypoints_ok (F : flags_tables) (E : entry_tables) : bool :=
  let C := et_core E in
  match et_wrappers E, et_trees_params E, dco_params C with
  | [wt; wf], [(l, None); (r, None); (o, Some PCNone); (f, Some PCNone)], (pm, None) :: cps =>
      wrapper_ok E wt (L "diff_texts") (L "fromstring") && wrapper_ok E wf (L "diff_files") (L "parse")
      && str_eqb o (L "diff_options") && str_eqb f (L "formatter")
      (* _diff(parse_method, <the parameters of diff_trees>) *)
      && params_eqb cps (et_trees_params E)
      && str_eqb (dco_norm_obj C) f
      && str_eqb (dco_parser_ctor C) (L "XMLParser")
      && spairs_eqb (dco_parser_kw C) [(ft_diff_parser_kw F, dco_norm_var C)]
      && str_eqb (ft_diff_parser_kw F) (L "remove_blank_text")
      && match dco_parses C with
         | [(tl, fl, al); (tr, fr, ar)] =>
             str_eqb fl pm && str_eqb fr pm                      (* the same parse function *)
             && strs_eqb al [l; dco_parser_var C] && strs_eqb ar [r; dco_parser_var C]   (* the same parser *)
             && strs_eqb (dco_pos C) [tl; tr] && negb (str_eqb tl tr)
             && negb (smem tl [pm; l; r; o; f; dco_norm_var C; dco_parser_var C])
             && negb (smem tr [pm; l; r; o; f; dco_norm_var C; dco_parser_var C])
         | _ => false
         end
      && negb (smem (dco_norm_var C) [pm; l; r; o; f]) && negb (smem (dco_parser_var C) [pm; l; r; o; f; dco_norm_var C])
      && str_eqb (dco_callee C) (et_trees_name E)
      && spairs_eqb (dco_kw C) [(o, o); (f, f)]
      (* diff_trees *)
      && match et_trees E with
         | [DPrepare g1 a1 b1; DDefaultOpts o1; DMakeDiffer dv cls o2; DDiff sv dv' a2 b2; DReturnList g2 sv';
            DReturnFormat g3 sv'' a3] =>
             str_eqb g1 f && str_eqb g2 f && str_eqb g3 f
             && str_eqb a1 l && str_eqb b1 r && str_eqb a2 l && str_eqb b2 r && str_eqb a3 l
             && str_eqb o1 o && str_eqb o2 o && str_eqb cls (L "Differ")
             && str_eqb dv dv' && str_eqb sv sv' && str_eqb sv sv''
             && negb (smem dv [l; r; o; f]) && negb (smem sv [l; r; o; f; dv])
         | _ => false
         end
      (* patch_tree, patch_text, patch_file *)
      && (let T := et_patch_tree E in
          str_eqb (pt_name T) (L "patch_tree") && str_eqb (pt_cls T) (L "Patcher") && str_eqb (pt_method T) (L "patch")
          && strs_eqb (pt_args T) (pt_params T) && Nat.eqb (length (pt_params T)) 2)
      && match et_patch_fns E with
         | [pt; pf] =>
             str_eqb (pf_name pt) (L "patch_text") && str_eqb (pf_name pf) (L "patch_file")
             && match pf_params pt, pf_steps pt with
                | [(a, None); (t, None)],
                  [PParseTree t1 fn t2; PParseActions a1 cls a2; PPatch t3 callee a3 t4; PReturnUnicode u t5] =>
                    forallb (str_eqb t) [t1; t2; t3; t4; t5] && forallb (str_eqb a) [a1; a2; a3] && negb (str_eqb a t)
                    && str_eqb fn (L "fromstring") && str_eqb cls (L "DiffParser")
                    && str_eqb callee (pt_name (et_patch_tree E)) && str_eqb u (L "tounicode")
                | _, _ => false
                end
             && match pf_params pf, pf_steps pf with
                | [(a, None); (t, None); (e, Some PCNone)],
                  [PParseTree t1 fn t2; PReadActions a0 e'; PParseActions a1 cls a2; PPatch t3 callee a3 t4;
                   PReturnUnicode u t5] =>
                    forallb (str_eqb t) [t1; t2; t3; t4; t5] && forallb (str_eqb a) [a0; a1; a2; a3] && str_eqb e e'
                    && negb (str_eqb a t) && negb (str_eqb a e) && negb (str_eqb t e)
                    && str_eqb fn (L "parse") && str_eqb cls (L "DiffParser")
                    && str_eqb callee (pt_name (et_patch_tree E)) && str_eqb u (L "tounicode")
                | _, _ => false
                end
         | _ => false
         end
  | _, _, _ => false
  end.

(* the whitespace switch as a finite table (C14_switch) *)
Definition all_fkinds : list fkind := [FNone; FDiff; FOld; FXml].
Definition all_normalize_args : list (option N) := [None; Some 0; Some 1; Some 2; Some 3].
(* the value the `normalize` argument denotes for each kind, as documented *)
Definition expected_normalize (k : fkind) (n : option N) : N :=
  match k, n with
  | FNone, _ => 1
  | _, Some v => v
  | FXml, None => 0
  | _, None => 1
  end.
Definition switch_ok (T : flags_tables) : bool :=
  forallb (fun k => forallb (fun n =>
    match effective_normalize T k n, remove_blank T k n with
    | Some e, Some b => (e =? expected_normalize k n) && Bool.eqb b (fkind_is_none k || N.testbit e 0)
    | _, _ => false
    end) all_normalize_args) all_fkinds.

(* the CLI: -w -> WS_NONE -> nothing stripped; otherwise WS_BOTH -> stripped, for every -f *)
Definition cli_switch_ok (F : flags_tables) (T : cli_tables) : bool :=
  forallb (fun keep : bool =>
    match ws_value F (if keep then dcm_norm_then (ct_diff_cmd T) else dcm_norm_else (ct_diff_cmd T)) with
    | Some n =>
        (n =? (if keep then 0 else 3))
        && forallb (fun kc : str * str =>
                      match remove_blank_class F (Some (snd kc)) (Some n), ws_text_on F n with
                      | Some b, Some t => Bool.eqb b (negb keep) && Bool.eqb t (negb keep)
                      | _, _ => false
                      end) (ft_formatters F)
        && negb (Nat.eqb (length (ft_formatters F)) 0)
    | None => false
    end) [true; false].
