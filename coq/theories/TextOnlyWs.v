(* TextOnlyWs.v -- when do the similarity strings (Differ.node_text) of two nodes
   agree although their texts differ?  node_text is
       cleanup_whitespace (strip (" ".join([tag] + text nodes + attributes)))
   so white-space-only text nodes do not show in it:

   - [norm_join_filter]: the normalised join of a list of strings does not change
     when the white-space-only (in particular the empty) strings are dropped;
   - [node_text_mod_blank]: two nodes with equal tags and attributes (up to
     order) whose lists of text nodes agree once the white-space-only ones are
     removed have the same node_text;
   - [node_text_reindent]: in particular when the text of the node and the tail
     of each of its children are, on the two sides, equal or both
     white-space-only (None counts as empty).  This is the situation of a
     re-indented layered document (elements contain child elements or text, not
     both): it discharges the node_text hypothesis of
     TextOnly.text_only_differences_text_only_script (property C14). *)
From Coq Require Import List NArith ZArith Bool Arith Lia Sorting.Permutation.
Import ListNotations.
Require Import XV.Str XV.StrProofs XV.Forest XV.Matcher XV.Differ XV.WF XV.AttrProofs XV.TextOnly.

Definition blank (s : str) : bool := forallb is_space s.

(* ------------------------------------------------------------------ *)
(** * A one-pass description of cleanup_whitespace (strip s)            *)
(* ------------------------------------------------------------------ *)
(* state 0: nothing emitted yet; 1: just after a non-space character;
   2: after a word, inside white space (a separator is pending) *)
Fixpoint nz (st : nat) (s : str) : str :=
  match s with
  | [] => []
  | c :: r =>
      if is_space c then nz (match st with 0 => 0 | _ => 2 end) r
      else match st with
           | 2 => 32%N :: c :: nz 1 r
           | _ => c :: nz 1 r
           end
  end.

Definition sp_state (st : nat) : nat := match st with 0 => 0 | _ => 2 end.

(* the state after reading s *)
Fixpoint after (st : nat) (s : str) : nat :=
  match s with
  | [] => st
  | c :: r => after (if is_space c then sp_state st else 1) r
  end.

Lemma nz_app : forall a st b, nz st (a ++ b) = nz st a ++ nz (after st a) b.
Proof.
  induction a as [|c a IH]; intros st b; cbn [app nz after]; [reflexivity|].
  destruct (is_space c).
  - apply IH.
  - destruct st as [|[|[|st]]]; cbn [app]; rewrite IH; reflexivity.
Qed.

Lemma nz_blank : forall s st, blank s = true -> nz st s = [] /\ (s <> [] -> after st s = sp_state st)
                                                /\ after (sp_state st) s = sp_state st.
Proof.
  induction s as [|c s IH]; intros st H; cbn [nz after].
  - split; [reflexivity|]. split; [congruence|reflexivity].
  - cbn [blank forallb] in H. apply andb_true_iff in H as [Hc Hs]. rewrite Hc.
    fold (sp_state st).
    assert (Hidem : sp_state (sp_state st) = sp_state st) by (destruct st; reflexivity).
    destruct (IH (sp_state st) Hs) as (I1 & I2 & I3). rewrite Hidem in I3.
    split; [exact I1|]. split.
    + intros _. destruct s as [|d s]; [reflexivity|]. rewrite I2 by discriminate. exact Hidem.
    + rewrite Hidem. exact I3.
Qed.

Lemma nz_space_head st s : nz st (32%N :: s) = nz (sp_state st) s.
Proof. reflexivity. Qed.

(* ---- lstrip / rstrip ---- *)
Lemma lstrip_app : forall x y, lstrip (x ++ y) = if blank x then lstrip y else lstrip x ++ y.
Proof.
  induction x as [|c x IH]; intros y; cbn [app lstrip blank forallb]; [reflexivity|].
  destruct (is_space c); cbn [andb]; [apply IH|reflexivity].
Qed.

Lemma blank_app x y : blank (x ++ y) = blank x && blank y.
Proof. unfold blank. apply forallb_app. Qed.

Lemma blank_rev x : blank (rev x) = blank x.
Proof.
  induction x as [|c x IH]; [reflexivity|]. cbn [rev]. rewrite blank_app, IH.
  cbn [blank forallb]. rewrite andb_true_r. apply andb_comm.
Qed.

Lemma lstrip_blank x : blank x = true -> lstrip x = [].
Proof.
  induction x as [|c x IH]; intros H; [reflexivity|]. cbn [blank forallb] in H.
  apply andb_true_iff in H as [Hc Hx]. cbn [lstrip]. rewrite Hc. apply IH, Hx.
Qed.

Lemma rstrip_blank x : blank x = true -> rstrip x = [].
Proof. intros H. unfold rstrip. rewrite lstrip_blank; [reflexivity|]. rewrite blank_rev. exact H. Qed.

Lemma rstrip_cons c r : rstrip (c :: r) = if blank (c :: r) then [] else c :: rstrip r.
Proof.
  destruct (blank (c :: r)) eqn:B; [apply rstrip_blank, B|].
  unfold rstrip. cbn [rev]. rewrite lstrip_app, blank_rev.
  destruct (blank r) eqn:Br.
  - cbn [blank forallb] in B. fold (blank r) in B. rewrite Br, andb_true_r in B.
    cbn [lstrip]. rewrite B. cbn [rev app].
    rewrite lstrip_blank by (rewrite blank_rev; exact Br). reflexivity.
  - rewrite rev_app_distr. reflexivity.
Qed.

(* ---- cleanup after rstrip, against nz ---- *)
Lemma cleanup_rstrip : forall u,
  cleanup_ws_aux false (rstrip u) = nz 1 u /\
  (blank u = false -> 32%N :: cleanup_ws_aux true (rstrip u) = nz 2 u).
Proof.
  induction u as [|c u [IHa IHb]]; [split; [reflexivity|discriminate]|].
  rewrite rstrip_cons. destruct (blank (c :: u)) eqn:B.
  - split; [|discriminate]. destruct (nz_blank (c :: u) 1 B) as (E & _). rewrite E. reflexivity.
  - cbn [cleanup_ws_aux nz]. cbn [blank forallb] in B. fold (blank u) in B.
    destruct (is_space c) eqn:Hc; cbn [andb] in B.
    + split; [apply IHb, B|]. intros _. apply IHb, B.
    + split; [rewrite IHa; reflexivity|]. intros _. rewrite IHa. reflexivity.
Qed.

Lemma nz0_lstrip : forall s, nz 0 s = nz 1 (lstrip s).
Proof.
  induction s as [|c s IH]; [reflexivity|]. cbn [nz lstrip].
  destruct (is_space c) eqn:Hc; [exact IH|]. cbn [nz]. rewrite Hc. reflexivity.
Qed.

Theorem norm_nz s : cleanup_whitespace (strip s) = nz 0 s.
Proof.
  unfold cleanup_whitespace, strip. rewrite (proj1 (cleanup_rstrip (lstrip s))).
  symmetry. apply nz0_lstrip.
Qed.

(* ---- joins ---- *)
Definition spaced (ps : list str) : str := flat_map (fun p => 32%N :: p) ps.

Lemma join_spaced p ps : join [32%N] (p :: ps) = p ++ spaced ps.
Proof.
  revert p. induction ps as [|q ps IH]; intros p.
  - cbn [join spaced flat_map]. rewrite app_nil_r. reflexivity.
  - rewrite StrProofs.join_cons2, IH. cbn [spaced flat_map app]. reflexivity.
Qed.

Definition nonblank (p : str) : bool := negb (blank p).

Lemma sp_state_idem st : sp_state (sp_state st) = sp_state st.
Proof. destruct st; reflexivity. Qed.

Lemma nz_spaced_sp st qs : nz (sp_state st) (spaced qs) = nz st (spaced qs).
Proof.
  destruct qs as [|q qs]; [reflexivity|]. cbn [spaced flat_map app].
  rewrite !nz_space_head, sp_state_idem. reflexivity.
Qed.

Lemma nz_spaced_filter : forall ps st, nz st (spaced ps) = nz st (spaced (filter nonblank ps)).
Proof.
  induction ps as [|p ps IH]; intros st; [reflexivity|].
  cbn [spaced flat_map filter]. fold (spaced ps). cbn [app]. rewrite nz_space_head.
  unfold nonblank at 1. destruct (blank p) eqn:B; cbn [negb].
  - rewrite nz_app. destruct (nz_blank p st B) as (E & _ & E3).
    destruct (nz_blank p (sp_state st) B) as (E' & _). rewrite E'. cbn [app]. rewrite E3.
    rewrite IH. apply nz_spaced_sp.
  - cbn [spaced flat_map app]. fold (spaced (filter nonblank ps)). rewrite nz_space_head.
    rewrite !nz_app. f_equal. apply IH.
Qed.

Theorem norm_join_filter (parts : list str) :
  cleanup_whitespace (strip (join [32%N] parts))
  = cleanup_whitespace (strip (join [32%N] (filter nonblank parts))).
Proof.
  rewrite !norm_nz. destruct parts as [|t ps]; [reflexivity|].
  rewrite join_spaced, nz_app. cbn [filter]. unfold nonblank at 1.
  destruct (blank t) eqn:B; cbn [negb].
  - destruct (nz_blank t 0 B) as (E & _ & E3). rewrite E. cbn [app sp_state] in *. rewrite E3.
    rewrite nz_spaced_filter. destruct (filter nonblank ps) as [|q qs]; [reflexivity|].
    rewrite join_spaced. cbn [spaced flat_map app]. fold (spaced qs). reflexivity.
  - rewrite join_spaced, nz_app. f_equal. apply nz_spaced_filter.
Qed.

(* ------------------------------------------------------------------ *)
(** * node_text                                                         *)
(* ------------------------------------------------------------------ *)
Lemma filter_filter_weaker {A} (p q : A -> bool) (l : list A) :
  (forall x, p x = true -> q x = true) -> filter p (filter q l) = filter p l.
Proof.
  intros H. induction l as [|x l IH]; [reflexivity|]. cbn [filter].
  destruct (q x) eqn:Q; cbn [filter].
  - rewrite IH. reflexivity.
  - destruct (p x) eqn:P; [rewrite (H x P) in Q; discriminate|exact IH].
Qed.

Lemma nonblank_nonempty s : nonblank s = true -> negb (str_eqb s []) = true.
Proof. destruct s; [discriminate|reflexivity]. Qed.

Theorem node_text_mod_blank sim (o : mopts sim) L R root n :
  wf_forest L root -> same_doc_mod_text L R -> n < fnext L ->
  filter nonblank (text_nodes R n) = filter nonblank (text_nodes L n) ->
  node_text sim o R n = node_text sim o L n.
Proof.
  intros Hwf (_ & _ & Hlab) Hn Ht. destruct (Hlab n Hn) as [Htag Hperm].
  assert (Hs : sort_attrs (node_attribs sim o (lattrs (labof R n)))
               = sort_attrs (node_attribs sim o (lattrs (labof L n)))).
  { change (node_attribs sim o) with (node_attribs_d (oignored sim o)). unfold labof.
    assert (NDl : NoDup (map fst (lattrs (flab L n)))) by apply (wf_attrs L root Hwf n Hn).
    assert (NDr : NoDup (map fst (lattrs (flab R n)))).
    { eapply Permutation_NoDup; [apply Permutation_map; exact Hperm|exact NDl]. }
    apply sort_attrs_aeq.
    + apply node_attribs_NoDup, NDr.
    + apply node_attribs_NoDup, NDl.
    + apply node_attribs_aeq, aeq_sym, aget_perm; assumption. }
  unfold node_text. rewrite Hs. unfold labof at 1. rewrite <- Htag. fold (labof L n).
  rewrite norm_join_filter. symmetry. rewrite norm_join_filter. symmetry.
  cbn [filter]. rewrite !filter_app, Ht. reflexivity.
Qed.

(* equal, or both white-space-only *)
Definition ws_rel (a b : str) : Prop := a = b \/ (blank a = true /\ blank b = true).

Lemma filter_nonblank_rel (l l' : list str) :
  Forall2 ws_rel l l' -> filter nonblank l = filter nonblank l'.
Proof.
  induction 1 as [|a b l l' Hab _ IH]; [reflexivity|]. cbn [filter].
  destruct Hab as [->|[Ba Bb]]; [rewrite IH; reflexivity|].
  unfold nonblank. rewrite Ba, Bb. exact IH.
Qed.

Theorem node_text_reindent sim (o : mopts sim) L R root n :
  wf_forest L root -> same_doc_mod_text L R -> n < fnext L ->
  ws_rel (otext (ltext (flab L n))) (otext (ltext (flab R n))) ->
  (forall c, In c (fkids L n) -> ws_rel (otext (ltail (flab L c))) (otext (ltail (flab R c)))) ->
  node_text sim o R n = node_text sim o L n.
Proof.
  intros Hwf Hmod Hn Htext Htails. apply (node_text_mod_blank sim o L R root n Hwf Hmod Hn).
  unfold text_nodes, labof, kidsof.
  rewrite !(filter_filter_weaker nonblank _ _ nonblank_nonempty).
  symmetry. apply filter_nonblank_rel. constructor; [exact Htext|].
  destruct Hmod as (_ & Hk & _). rewrite <- (Hk n Hn).
  induction (fkids L n) as [|c ks IH]; cbn [map]; constructor.
  - apply Htails. left; reflexivity.
  - apply IH. intros c' Hc'. apply Htails. right; exact Hc'.
Qed.

(* ------------------------------------------------------------------ *)
(** * The C14 statement with the white-space hypothesis                 *)
(* ------------------------------------------------------------------ *)
Require Import XV.Spec XV.EqualDocsBase.

Corollary reindent_text_only_script :
  forall (sim : Type) (sim_ltb sim_leb : sim -> sim -> bool) (sim_is_one : sim -> bool)
         (zero one : sim) (leaf_sim : str -> str -> sim) (combine : sim -> nat -> nat -> sim)
         (o : mopts sim) (L R : forest) (root : id) (lns : nsmap),
  (forall s, sim_is_one (leaf_sim s s) = true) ->
  (forall m n, sim_is_one m = true -> 0 < n -> sim_is_one (combine m n n) = true) ->
  sim_is_one one = true ->
  (forall x, sim_is_one x = true -> sim_ltb zero x = true) ->
  (forall x, sim_is_one x = true -> sim_leb (oF sim o) x = true) ->
  (ofast sim o = true -> sim_leb (oF sim o) zero = false) ->
  (ofast sim o = true ->
   forall s t n x n', 0 < n -> sim_leb (oF sim o) (combine (leaf_sim s t) 0 n) = true ->
                      sim_is_one x = true -> 0 < n' ->
                      sim_leb (oF sim o) (combine x 0 n') = true) ->
  wf_forest L root -> wf_forest R root ->
  same_doc_mod_text L R ->
  (* texts and tails: equal, or white-space-only on both sides (None = "") *)
  (forall n, desc L root n ->
     ws_rel (otext (ltext (flab L n))) (otext (ltext (flab R n))) /\
     ws_rel (otext (ltail (flab L n))) (otext (ltail (flab R n)))) ->
  (forall n, desc L root n -> is_comment (ltag (flab L n)) = true ->
             otext (ltext (flab R n)) = otext (ltext (flab L n))) ->
  (forall k v, In (k, v) lns -> ns_get lns k = Some v) ->
  exists m script Wf,
    match_nodes sim sim_ltb sim_leb sim_is_one zero one leaf_sim combine o L R root root = Some m /\
    (forall l r, In (l, r) m -> l = r) /\
    (forall n, desc L root n -> In (n, n) m) /\
    diff_given (oignored sim o) R root L root lns lns m = Some (script, Wf) /\
    script = flat_map (text_acts L R) (bfs R (S (fnext R)) [root]) /\
    Forall is_text_action script /\
    (forall n t, In (IText n t) script <->
                 desc L root n /\ ltext (labof L n) <> ltext (labof R n) /\ t = ltext (labof R n)) /\
    (forall n t, In (ITail n t) script <->
                 desc L root n /\ ltail (labof L n) <> ltail (labof R n) /\ t = ltail (labof R n)) /\
    (script = [] <->
     forall n, desc L root n -> ltext (labof L n) = ltext (labof R n) /\
                                ltail (labof L n) = ltail (labof R n)) /\
    run_spec root L script = Some Wf /\
    doc_equiv (oignored sim o) Wf root R root.
Proof.
  intros sim sim_ltb sim_leb sim_is_one zero one leaf_sim combine o L R root lns
         H1 H2 H3 H4 H5 H6 H7 Hwf HwfR Hmod Hws Hcm Hns.
  apply text_only_differences_text_only_script; try assumption.
  intros n Hd. apply (node_text_reindent sim o L R root n Hwf Hmod).
  - apply (desc_lt_root L root Hwf n Hd).
  - apply Hws, Hd.
  - intros c Hc. apply Hws. eapply desc_step; eauto.
Qed.
