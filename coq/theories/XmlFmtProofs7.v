(* XmlFmtProofs7 -- the ACCEPT side, part 2: the paths of the differ resolve, in the
   formatter's working tree (nodes marked deleted skipped), to the node that stands for
   the spec node the path was printed for.

   [resolve_getpath]: for a decorated working tree d related to the forest f, and a node n of
   the document of f, XMLFormatter._xpath on utils.getpath(n) succeeds (no ValueError) and
   returns a live position of d whose node carries the id n.  Uses the shape of getpath
   (XV.PathProofs: chain_steps, step_of, force_step).
   No axioms. *)
From Coq Require Import List NArith ZArith Bool Arith Lia.
Import ListNotations.
Require Import XV.Str XV.Json XV.TextFormat XV.Forest XV.Matcher XV.Differ XV.Spec XV.Path XV.WF XV.ForestProofs XV.TreeProofs
               XV.PathProofs XV.XmlFmt XV.Projections
               XV.XmlFmtProofs1 XV.XmlFmtProofs6.
Local Open Scope nat_scope.

(* ------------------------------------------------------------------ *)
(** * Appending a step *)

Lemma xp_steps_snoc e : forall p t acc q, xp_steps e t p acc = FOk q ->
  exists q1, q = rev acc ++ q1 /\
    forall k s i k', get_at t q1 = Some k -> xp_step e s (xkids k) = FOk (i, k') ->
                     xp_steps e t (p ++ [s]) acc = FOk (rev acc ++ q1 ++ [i]).
Proof.
  induction p as [|s0 p IH]; intros t acc q H; cbn [xp_steps app] in *.
  - inversion H; subst. exists []. split; [now rewrite app_nil_r|].
    intros k s i k' G E. cbn in G. inversion G; subst. rewrite E. cbn [xp_steps rev]. reflexivity.
  - destruct (xp_step e s0 (xkids t)) as [[i0 k0]|x] eqn:E0; [|discriminate].
    destruct (xp_step_sound _ _ _ _ _ E0) as [Hk0 _].
    destruct (IH k0 (i0 :: acc) q H) as (q1 & Eq & Hs).
    exists (i0 :: q1). split; [rewrite Eq; cbn [rev]; now rewrite <- app_assoc|].
    intros k s i k' G E. cbn [get_at] in G. rewrite Hk0 in G.
    rewrite (Hs k s i k' G E). cbn [rev]. rewrite <- !app_assoc. reflexivity.
Qed.

Lemma xpath_snoc e W p q : xpath_skip_deleted e W p = FOk q -> p <> [] ->
  forall k s i k', get_at W q = Some k -> xp_step e s (xkids k) = FOk (i, k') ->
                   xpath_skip_deleted e W (p ++ [s]) = FOk (q ++ [i]).
Proof.
  intros H Hne k s i k' G E. destruct p as [|s0 p]; [congruence|]. cbn [xpath_skip_deleted app] in *.
  destruct (xp_step e s0 [W]) as [[i0 k0]|x] eqn:E0; [|discriminate].
  destruct (xp_step_sound _ _ _ _ _ E0) as [Hk0 _].
  assert (k0 = W) as -> by (destruct i0 as [|[|?]]; cbn in Hk0; congruence).
  destruct (xp_steps_snoc e p W [] q H) as (q1 & Eq & Hs). cbn in Eq. subst q1.
  rewrite (Hs k s i k' G E). reflexivity.
Qed.

Lemma pick_map_gen {A} (g : A -> nat * xtree) idx (ms : list A) :
  pick idx (map g ms) = match idx with
                        | Some 0 => match rev ms with [] => FErr FIndexError | m :: _ => FOk (g m) end
                        | Some (S k) => match nth_error ms k with Some m => FOk (g m) | None => FErr FValueError end
                        | None => match ms with [m] => FOk (g m) | _ => FErr FValueError end
                        end.
Proof.
  destruct idx as [[|k]|]; cbn [pick].
  - rewrite <- map_rev. destruct (rev ms); reflexivity.
  - rewrite nth_error_map. destruct (nth_error ms k); reflexivity.
  - destruct ms as [|x [|y r]]; reflexivity.
Qed.

(* ------------------------------------------------------------------ *)
(** * One step among the children of a related node *)

Section Step.
Variable ws : bool.
Variable f : forest.
Variable pe : penv.
Variable e : nsenv.

(* the live children that the node test of t selects, with their indices *)
Fixpoint dmatches (t : tagt) (i : nat) (ks : list dt) : list (nat * dt) :=
  match ks with
  | [] => []
  | k :: r => if alive_d k && same_kind pe t (TElem (xtag (dlab k))) then (i, k) :: dmatches t (S i) r
              else dmatches t (S i) r
  end.

Lemma xtag_erase k : xtag (erase k) = xtag (dlab k).
Proof. destruct k as [n [tg at_ tx tl ks] kids]. reflexivity. Qed.

Lemma xmatches_erase t : tag_env_ok pe e t -> forall ks i,
  xmatches e (test_of pe t) i (map erase ks) = map (fun ik : nat * dt => (fst ik, erase (snd ik))) (dmatches t i ks).
Proof.
  intros Ht. induction ks as [|k r IH]; intros i; cbn [map xmatches dmatches]; [reflexivity|].
  rewrite xtag_erase, (test_matches_same_kind pe e t _ Ht), IH.
  unfold alive_d. fold (alive_d k). rewrite <- (alive_erase k). unfold alive_w.
  destruct (same_kind pe t (TElem (xtag (dlab k)))); destruct (is_deleted (erase k)); reflexivity.
Qed.

Lemma dmatches_ids t ks : Forall (fun k => alive_d k = true -> ltag (flab f (did k)) = TElem (xtag (dlab k))) ks ->
  forall i, map (fun ik : nat * dt => did (snd ik)) (dmatches t i ks) = filter (sk pe f t) (map did (filter alive_d ks)).
Proof.
  induction 1 as [|k r Hk _ IH]; intros i; cbn [dmatches filter map]; [reflexivity|].
  destruct (alive_d k) eqn:Ea; cbn [andb map filter].
  - assert (E : sk pe f t (did k) = same_kind pe t (TElem (xtag (dlab k)))) by (unfold sk, labof; now rewrite (Hk eq_refl)).
    rewrite E. destruct (same_kind pe t (TElem (xtag (dlab k)))); cbn [map]; [f_equal|]; apply IH.
  - apply IH.
Qed.

Lemma dmatches_sound t ks : forall i ik, In ik (dmatches t i ks) ->
  i <= fst ik /\ nth_error ks (fst ik - i) = Some (snd ik) /\ alive_d (snd ik) = true.
Proof.
  induction ks as [|k r IH]; intros i ik H; cbn [dmatches] in H; [contradiction|].
  assert (Hrest : In ik (dmatches t (S i) r) ->
                  i <= fst ik /\ nth_error (k :: r) (fst ik - i) = Some (snd ik) /\ alive_d (snd ik) = true).
  { intros Hin. destruct (IH _ _ Hin) as (Hle & Hn & Ha). split; [lia|]. split; [|exact Ha].
    replace (fst ik - i) with (S (fst ik - S i)) by lia. exact Hn. }
  destruct (alive_d k) eqn:Ea; cbn [andb] in H; [|auto].
  destruct (same_kind pe t (TElem (xtag (dlab k)))); [|auto].
  destruct H as [<-|H]; auto. cbn [fst snd]. rewrite Nat.sub_diag. auto.
Qed.

(* the step getpath prints for the child c of b selects, among the children of the node
   that stands for b, the one that stands for c *)
Lemma step_kid b node kids c forced :
  rel ws f (DN b node kids) -> In c (fkids f b) -> tag_env_ok pe e (ltag (labof f c)) ->
  exists i kc, nth_error kids i = Some kc /\ alive_d kc = true /\ did kc = c /\
    xp_step e (if forced : bool then force_step (step_of f pe c (kidsof f b)) else step_of f pe c (kidsof f b))
            (map erase kids) = FOk (i, erase kc).
Proof.
  intros HR Hin Henv. inversion HR as [? ? ? _ HK HA]; subst.
  set (t := ltag (labof f c)) in *.
  assert (Htags : Forall (fun k => alive_d k = true -> ltag (flab f (did k)) = TElem (xtag (dlab k))) kids).
  { rewrite Forall_forall in *. intros k Hk Ha. specialize (HA k Hk Ha). inversion HA as [? ? ? (M1 & _) _ _]; subst. exact M1. }
  pose proof (dmatches_ids t kids Htags 0) as Hids. rewrite HK in Hids.
  assert (Hc : sk pe f t c = true) by apply same_kind_refl.
  (* prefix_ok *)
  assert (Hpre : prefix_ok e (test_of pe t) = true).
  { unfold test_of. destruct t as [name|]; [|reflexivity]. destruct (unclark name) as [[u|] l] eqn:Eu; [|reflexivity].
    destruct (pe u) as [p|] eqn:Ep; [|reflexivity]. cbn [prefix_ok]. now rewrite (Henv name u l p eq_refl Eu Ep). }
  (* what pick finds *)
  assert (Hpick : forall idx, select_idx idx (filter (sk pe f t) (fkids f b)) = [c] -> idx <> Some 0 ->
            exists m, pick idx (map (fun ik : nat * dt => (fst ik, erase (snd ik))) (dmatches t 0 kids)) = FOk (fst m, erase (snd m))
                      /\ In m (dmatches t 0 kids) /\ did (snd m) = c).
  { intros idx Hsel Hnz. rewrite <- Hids in Hsel. rewrite pick_map_gen.
    destruct idx as [[|j]|]; cbn [select_idx] in *; [congruence| |].
    - rewrite nth_error_map in Hsel. destruct (nth_error (dmatches t 0 kids) j) as [m|] eqn:Em; [|discriminate].
      cbn [option_map] in Hsel. inversion Hsel. exists m. split; [reflexivity|]. split; [eapply nth_error_In; eauto|reflexivity].
    - destruct (dmatches t 0 kids) as [|m [|m2 r]]; cbn [map] in Hsel; try discriminate.
      inversion Hsel. exists m. split; [reflexivity|]. split; [now left|reflexivity]. }
  (* the index of the step *)
  unfold xp_step.
  assert (Hsteps : st_test (step_of f pe c (kidsof f b)) = test_of pe t /\
                   select_idx (st_idx (step_of f pe c (kidsof f b))) (filter (sk pe f t) (fkids f b)) = [c] /\
                   select_idx (st_idx (force_step (step_of f pe c (kidsof f b)))) (filter (sk pe f t) (fkids f b)) = [c] /\
                   st_idx (step_of f pe c (kidsof f b)) <> Some 0 /\ st_idx (force_step (step_of f pe c (kidsof f b))) <> Some 0).
  { unfold step_of, force_step, kidsof. cbn [st_test st_idx]. fold t. fold (sk pe f t).
    split; [reflexivity|].
    destruct (Nat.leb (length (filter (sk pe f t) (fkids f b))) 1) eqn:E.
    - apply Nat.leb_le in E. rewrite (filter_single _ _ c Hin Hc E). cbn. repeat split; congruence.
    - pose proof (count_before_nth pe f t c (fkids f b) 0 [] Hin Hc eq_refl) as Hn. cbn [app] in Hn.
      cbn [select_idx]. rewrite Hn. repeat split; congruence. }
  destruct Hsteps as (Ht & S1 & S2 & Z1 & Z2).
  assert (Htest : st_test (if forced then force_step (step_of f pe c (kidsof f b)) else step_of f pe c (kidsof f b)) = test_of pe t)
    by (destruct forced; [unfold force_step; cbn [st_test]; exact Ht|exact Ht]).
  rewrite Htest, Hpre, (xmatches_erase t Henv kids 0).
  destruct (Hpick (st_idx (if forced then force_step (step_of f pe c (kidsof f b)) else step_of f pe c (kidsof f b)))
              ltac:(destruct forced; assumption) ltac:(destruct forced; assumption)) as (m & Ep & Hm & Hd).
  destruct (dmatches_sound t kids 0 m Hm) as (_ & Hn & Ha). rewrite Nat.sub_0_r in Hn.
  exists (fst m), (snd m). rewrite Ep. auto.
Qed.
End Step.

(* ------------------------------------------------------------------ *)
(** * Along the path from the root *)

Section Resolve.
Variable ws : bool.
Variable f : forest.
Variable root : id.
Variable pe : penv.
Variable e : nsenv.
Hypothesis Hwf : wf_forest f root.
Hypothesis Henv : env_agrees pe e f root.

Lemma root_step d forced : rel ws f d -> did d = root -> alive_d d = true ->
  xp_step e (if forced : bool then force_step (step_of f pe root [root]) else step_of f pe root [root]) [erase d]
  = FOk (0, erase d).
Proof.
  intros HR Hid Ha. destruct d as [n node kids]. cbn [did] in Hid. subst n.
  inversion HR as [? ? ? (L1 & _) _ _]; subst.
  set (t := ltag (labof f root)).
  assert (Ht : tag_env_ok pe e t).
  { apply Henv. apply doc_nodes_iff; [exact Hwf|constructor]. }
  assert (Hpre : prefix_ok e (test_of pe t) = true).
  { unfold test_of. destruct t as [name|]; [|reflexivity]. destruct (unclark name) as [[u|] l] eqn:Eu; [|reflexivity].
    destruct (pe u) as [p|] eqn:Ep; [|reflexivity]. cbn [prefix_ok]. now rewrite (Ht name u l p eq_refl Eu Ep). }
  assert (Hsk : same_kind pe t (TElem (xtag node)) = true).
  { unfold t, labof. rewrite L1. apply same_kind_refl. }
  assert (Hidx : st_idx (step_of f pe root [root]) = None).
  { unfold step_of. cbn [st_idx filter].
    destruct (same_kind pe (ltag (labof f root)) (ltag (labof f root))); reflexivity. }
  unfold xp_step.
  assert (Htest : st_test (if forced then force_step (step_of f pe root [root]) else step_of f pe root [root]) = test_of pe t)
    by (destruct forced; reflexivity).
  rewrite Htest, Hpre. change [erase (DN root node kids)] with (map erase [DN root node kids]).
  rewrite (xmatches_erase pe e t Ht [DN root node kids] 0). cbn [dmatches dlab]. rewrite Ha, Hsk. cbn [andb map fst snd].
  destruct forced; [unfold force_step; cbn [st_idx]; rewrite Hidx|rewrite Hidx]; reflexivity.
Qed.

Lemma chain_resolve d : rel ws f d -> did d = root -> alive_d d = true ->
  forall l b, pathto f root l b ->
  exists q kb, xpath_skip_deleted e (erase d) (chain_steps f pe l) = FOk q /\
               dlpath d q /\ dget_at d q = Some kb /\ did kb = b.
Proof.
  intros HR Hid Ha. induction 1 as [|l b c Hp IH Hin].
  - exists [], d. cbn [chain_steps xpath_skip_deleted]. rewrite (root_step d false HR Hid Ha). cbn [xp_steps rev].
    repeat split. exact Hid.
  - destruct IH as (q & kb & E & HL & HG & Hb).
    destruct (path_head _ _ _ _ Hp) as [l' ->]. cbn [chain_steps].
    pose proof (rel_get ws f q d kb HR HL HG) as HRb. destruct kb as [nb node kids]. cbn [did] in Hb. subst nb.
    assert (Hdc : desc f root c).
    { eapply desc_step; [|exact Hin]. eapply path_desc; [exact Hp|left; reflexivity]. }
    destruct (step_kid ws f pe e b node kids c false HRb Hin (doc_tag_env_ok pe e f root c Hwf Henv Hdc))
      as (i & kc & Hn & Hac & Hdk & Es).
    exists (q ++ [i]), kc. split; [|split; [|split; [|exact Hdk]]].
    + eapply xpath_snoc; [exact E| |rewrite get_at_erase, HG; reflexivity|rewrite erase_kids; exact Es].
      destruct l'; cbn; [discriminate|destruct l'; [discriminate|intros H0; apply app_eq_nil in H0 as [_ H0]; discriminate]].
    + clear - HL HG Hn Hac. revert d HL HG. induction q as [|j q IHq]; intros d HL HG; cbn [app dlpath dget_at] in *.
      * inversion HG; subst. cbn [dkids]. eauto.
      * destruct HL as (k & Hk & Hak & HL). rewrite Hk in HG. exists k. eauto.
    + clear - HL HG Hn. revert d HL HG. induction q as [|j q IHq]; intros d HL HG; cbn [app dlpath dget_at] in *.
      * inversion HG; subst. cbn [dkids]. now rewrite Hn.
      * destruct HL as (k & Hk & Hak & HL). rewrite Hk in *. eauto.
Qed.

(* the node a getpath string was printed for *)
Theorem resolve_getpath d n : rel ws f d -> did d = root -> alive_d d = true -> desc f root n ->
  exists q kn, xpath_skip_deleted e (erase d) (getpath pe f root n) = FOk q /\
               dlpath d q /\ dget_at d q = Some kn /\ did kn = n.
Proof.
  intros HR Hid Ha Hd.
  destruct (getpath_shape pe f root n Hwf Hd) as [[-> E]|(l' & b & Hp & Hin & E)]; rewrite E.
  - exists [], d. cbn [xpath_skip_deleted]. rewrite (root_step d true HR Hid Ha). cbn [xp_steps rev]. repeat split. exact Hid.
  - destruct (chain_resolve d HR Hid Ha l' b Hp) as (q & kb & Eq & HL & HG & Hb).
    pose proof (rel_get ws f q d kb HR HL HG) as HRb. destruct kb as [nb node kids]. cbn [did] in Hb. subst nb.
    destruct (step_kid ws f pe e b node kids n true HRb Hin (doc_tag_env_ok pe e f root n Hwf Henv Hd))
      as (i & kc & Hn & Hac & Hdk & Es).
    exists (q ++ [i]), kc. split; [|split; [|split; [|exact Hdk]]].
    + eapply xpath_snoc; [exact Eq| |rewrite get_at_erase, HG; reflexivity|rewrite erase_kids; exact Es].
      inversion Hp; subst; cbn [chain_steps]; [discriminate|].
      match goal with |- context [match ?l with [] => _ | _ :: _ => _ end] => destruct l end;
        [discriminate|intros Hnil; apply app_eq_nil in Hnil as [_ Hnil]; discriminate].
    + clear - HL HG Hn Hac. revert d HL HG. induction q as [|j q IHq]; intros d HL HG; cbn [app dlpath dget_at] in *.
      * inversion HG; subst. cbn [dkids]. eauto.
      * destruct HL as (k & Hk & Hak & HL). rewrite Hk in HG. exists k. eauto.
    + clear - HL HG Hn. revert d HL HG. induction q as [|j q IHq]; intros d HL HG; cbn [app dlpath dget_at] in *.
      * inversion HG; subst. cbn [dkids]. now rewrite Hn.
      * destruct HL as (k & Hk & Hak & HL). rewrite Hk in *. eauto.
Qed.
End Resolve.
