(* AttrProofs.v -- the attribute phase of the differ.

   Python: Differ.update_node_attr / node_attribs (xmldiff/diff.py).
   Model:  Differ.upd_attr (validated by differential testing).
   Spec:   the attribute cases of Spec.spec_apply (strict, documented meaning).
   Every theorem below is closed under the global context (Print Assumptions).

   NOTATION.  ign = ignored attribute names; la / ra = attribute lists (document
   order) of the left / right node, keys pairwise distinct (NoDup (map fst _));
   aeq l l' := forall k, aget l k = aget l' k   (equal as finite maps / dicts).

   DEFINITIONS
     attr_act            AUpd k v | AIns k v | ADel k | ARen old new
     lift n a            the iact (IUpdAttr n .. etc.) on node n
     act_keys a          every attribute name the action mentions
     strict_attr_apply   documented meaning on an attribute list; None when a
                         precondition fails (update/delete: present; insert:
                         absent; rename: old present, new absent)
     run_strict          iterates strict_attr_apply
     changes l l'        exists k, aget l k <> aget l' k
     eff_run l acts l'   every action of acts is strictly applicable in turn AND
                         changes the map; the run leads from l to l'
     attr_run ign la ra  PURE mirror of upd_attr: record pst = (pacts, pcur, perr)
     attr_script ign la ra = (pacts p, pcur p)  for p := attr_run ign la ra
     apply_w n w a       the forest after the differ's mutation for action a
     attr_frame n w w'   kids, fnext, labels of other nodes, tag/text/tail of n equal

   EXPORTED THEOREMS (plain words)

   Section 1-2 (reusable): str_eqb_spec / str_eqb_eq / str_eqb_neq / str_eqb_sym
     (str_eqb reflects equality), str_dec; smem_In / smem_false / smem_spec;
     str_ltb_irrefl/trans/trich, str_leb_refl/total/antisym/trans (code-point order
     is a total order); sort_strs_perm / _In / _NoDup / _length / _sorted,
     sort_strs_perm_eq (sorted() of a permutation is the SAME list),
     sort_strs_set_eq; aget_None, aget_Some_key, aget_Some_In, In_aget, ahas_In,
     aget_app, aget_aput (d[k]=v; d.get(k')), aget_adel (del d[k]; d.get(k')),
     aput_NoDup, adel_NoDup, aput_aeq, adel_aeq, aget_perm, aeq_perm,
     aget_node_attribs, node_attribs_In, node_attribs_NoDup.

   spec_apply_lift: on an alive element node n,
     spec_apply root f (lift n a) = option_map (set_attrs_f f n) (strict_attr_apply (attrs of n) a)
     i.e. strict_attr_apply COINCIDES with Spec.spec_apply's attribute cases.
   run_spec_lift / run_checked_lift: a strictly applicable (resp. effective) attribute
     script on an alive element node passes Spec.run_spec (resp. Spec.run_checked) and
     yields (Leibniz) fold_left (apply_w n) acts f.

   upd_attr_lift (NO hypotheses): upd_attr ign R s ln rn is attr_run lifted to the state:
     out = out s ++ map (lift ln) acts; W = fold_left (apply_w ln) acts (W s);
     cur_attrs _ ln = final; serr = serr s || perr; l2r, r2l, inoL, inoR unchanged.

   attr_run_sound / attr_script_sound (la, ra NoDup-keyed, any ign): for
     (acts, final) = attr_script ign la ra
       - perr = false (the model's KeyError branches are unreachable)
       - run_strict la acts = Some final      (C05: every action applicable as documented)
       - NoDup (map fst final)
       - forall k not in ign, aget final k = aget ra k            (C01)
       - forall k in ign,     aget final k = aget la k            (C13: untouched)
       - no action mentions a name in ign (and every mentioned name is an attribute
         of la or ra)                                              (C13)
       - eff_run la acts final; explicitly: for every split acts = pre ++ a :: post the
         action a is strictly applicable to the map m reached after pre, and the map m'
         after it satisfies changes m m' and m <> m'              (C05 + C17)
       - length acts <= |left_keys| + |new_keys| <= length la + length ra   (C17)
         (the bound "max" is false: a=1 vs b=2 gives 2 actions)
     NOTHING is partial: all clauses hold of the model without extra hypotheses.

   upd_attr_correct, upd_attr_run_spec, upd_attr_final, upd_attr_final_sorted: the same
     facts stated on the differ state (serr unchanged; run_spec / run_checked of the emitted
     actions from W s give exactly W (upd_attr ..); final non-ignored attributes equal the
     right node's, also in the sort_attrs form used by Forest.label_equivb).

   C06 / order independence:
     attr_set_order_independent: enumerating the Python SETS common/removed/new keys in any
       order gives literally the same result (every loop runs over sorted(...)).
     attr_order_independent: permuting la changes neither the emitted actions nor the final
       map (final lists are permutations of each other).
     attr_run_congr: attr_run depends on la, ra only through the maps they denote and
       through newattrmap.
     attr_order_right_final: permuting ra does not change the final map.
     attr_order_right_counterexample: permuting ra CAN change the actions (a=1 vs b=1,c=1:
       the LATER new key with the value wins the rename) -- deterministic document order.
     attr_order_right_acts / attr_order_right_distinct: the actions are unchanged when
       newattrmap is, in particular when the new right attributes have distinct values. *)
From Coq Require Import List NArith ZArith Bool Arith Lia Permutation Sorted.
Import ListNotations.
Require Import XV.Str XV.Forest XV.LCS XV.Matcher XV.Differ XV.Spec.

(* ====================================================================== *)
(** * 1. Generally useful lemmas: str_eqb, smem, string order, sort_strs   *)
(* ====================================================================== *)

Lemma str_eqb_refl (a : str) : str_eqb a a = true.
Proof.
  induction a as [|x a IH]; [reflexivity|].
  cbn [str_eqb]. rewrite N.eqb_refl, IH. reflexivity.
Qed.

Lemma str_eqb_true (a b : str) : str_eqb a b = true -> a = b.
Proof.
  revert b; induction a as [|x a IH]; intros [|y b] H; cbn [str_eqb] in H;
    try reflexivity; try discriminate.
  apply andb_true_iff in H as [H1 H2].
  apply N.eqb_eq in H1. apply IH in H2. subst. reflexivity.
Qed.

Lemma str_eqb_eq (a b : str) : str_eqb a b = true <-> a = b.
Proof. split; [apply str_eqb_true|]. intros ->. apply str_eqb_refl. Qed.

Lemma str_eqb_spec (a b : str) : reflect (a = b) (str_eqb a b).
Proof.
  destruct (str_eqb a b) eqn:E; constructor.
  - apply str_eqb_true, E.
  - intros ->. rewrite str_eqb_refl in E. discriminate.
Qed.

Lemma str_eqb_neq (a b : str) : str_eqb a b = false <-> a <> b.
Proof. destruct (str_eqb_spec a b) as [H|H]; split; intros; congruence. Qed.

Lemma str_eqb_sym (a b : str) : str_eqb a b = str_eqb b a.
Proof.
  destruct (str_eqb_spec a b) as [H|H], (str_eqb_spec b a) as [H'|H']; congruence.
Qed.

Definition str_dec (a b : str) : {a = b} + {a <> b}.
Proof. destruct (str_eqb_spec a b); [left|right]; assumption. Defined.

(* rewrite str_eqb a b away when the answer is known *)
Ltac str_cases :=
  repeat match goal with
  | H : context [str_eqb ?a ?a] |- _ => rewrite str_eqb_refl in H
  | |- context [str_eqb ?a ?a] => rewrite str_eqb_refl
  | |- context [str_eqb ?a ?b] => destruct (str_eqb_spec a b); subst
  | H : context [str_eqb ?a ?b] |- _ => destruct (str_eqb_spec a b); subst
  end.

Lemma smem_In (x : str) (l : list str) : smem x l = true <-> In x l.
Proof.
  unfold smem. rewrite existsb_exists. split.
  - intros [y [Hy E]]. apply str_eqb_true in E. subst. exact Hy.
  - intros H. exists x. split; [exact H|apply str_eqb_refl].
Qed.

Lemma smem_false (x : str) (l : list str) : smem x l = false <-> ~ In x l.
Proof.
  rewrite <- smem_In. destruct (smem x l); split; intros; congruence.
Qed.

Lemma smem_spec (x : str) (l : list str) : reflect (In x l) (smem x l).
Proof.
  destruct (smem x l) eqn:E; constructor.
  - apply smem_In, E.
  - apply smem_false, E.
Qed.

Lemma smem_ext (x : str) (l l' : list str) :
  (In x l <-> In x l') -> smem x l = smem x l'.
Proof.
  intros H. destruct (smem_spec x l) as [H1|H1], (smem_spec x l') as [H2|H2];
    try reflexivity; exfalso; tauto.
Qed.

(* ---------- the string order ---------- *)

Lemma str_ltb_irrefl (a : str) : str_ltb a a = false.
Proof.
  induction a as [|x a IH]; [reflexivity|]. cbn [str_ltb].
  rewrite N.ltb_irrefl. exact IH.
Qed.

Lemma str_ltb_trans (a b c : str) :
  str_ltb a b = true -> str_ltb b c = true -> str_ltb a c = true.
Proof.
  revert b c. induction a as [|x a IH]; intros [|y b] [|z c] H1 H2;
    cbn [str_ltb] in *; try discriminate; try reflexivity.
  destruct (N.ltb_spec x y) as [Hxy|Hxy], (N.ltb_spec y x) as [Hyx|Hyx],
           (N.ltb_spec y z) as [Hyz|Hyz], (N.ltb_spec z y) as [Hzy|Hzy],
           (N.ltb_spec x z) as [Hxz|Hxz], (N.ltb_spec z x) as [Hzx|Hzx];
    try discriminate; try reflexivity; try lia.
  eapply IH; eassumption.
Qed.

Lemma str_ltb_trich (a b : str) : str_ltb a b = true \/ a = b \/ str_ltb b a = true.
Proof.
  revert b. induction a as [|x a IH]; intros [|y b]; cbn [str_ltb]; auto.
  destruct (N.ltb_spec x y) as [Hxy|Hxy], (N.ltb_spec y x) as [Hyx|Hyx]; auto; try lia.
  assert (x = y) by lia. subst y.
  destruct (IH b) as [H|[H|H]]; auto. subst. auto.
Qed.

Lemma str_ltb_asym (a b : str) : str_ltb a b = true -> str_ltb b a = false.
Proof.
  intros H. destruct (str_ltb b a) eqn:E; [|reflexivity].
  pose proof (str_ltb_trans _ _ _ H E) as T. rewrite str_ltb_irrefl in T. discriminate.
Qed.

Lemma str_leb_refl (a : str) : str_leb a a = true.
Proof. unfold str_leb. rewrite str_ltb_irrefl. reflexivity. Qed.

Lemma str_leb_total (a b : str) : str_leb a b = false -> str_leb b a = true.
Proof.
  unfold str_leb. intros H. apply negb_false_iff in H.
  rewrite (str_ltb_asym _ _ H). reflexivity.
Qed.

Lemma str_leb_antisym (a b : str) : str_leb a b = true -> str_leb b a = true -> a = b.
Proof.
  unfold str_leb. intros H1 H2. apply negb_true_iff in H1, H2.
  destruct (str_ltb_trich a b) as [H|[H|H]]; congruence.
Qed.

Lemma str_leb_trans (a b c : str) : str_leb a b = true -> str_leb b c = true -> str_leb a c = true.
Proof.
  unfold str_leb. intros H1 H2. apply negb_true_iff in H1, H2. apply negb_true_iff.
  destruct (str_ltb c a) eqn:E; [|reflexivity].
  destruct (str_ltb_trich a b) as [H|[H|H]]; [| |congruence].
  - pose proof (str_ltb_trans _ _ _ E H). congruence.
  - subst. congruence.
Qed.

(* ---------- sort_strs ---------- *)

Lemma insert_str_perm (x : str) (l : list str) : Permutation (x :: l) (insert_str x l).
Proof.
  induction l as [|y r IH]; cbn [insert_str]; [reflexivity|].
  destruct (str_leb x y) eqn:E; [reflexivity|].
  rewrite perm_swap. apply perm_skip. exact IH.
Qed.

Lemma sort_strs_perm (l : list str) : Permutation l (sort_strs l).
Proof.
  unfold sort_strs. induction l as [|x l IH]; cbn [fold_right]; [reflexivity|].
  rewrite <- insert_str_perm. apply perm_skip. exact IH.
Qed.

Lemma sort_strs_In (x : str) (l : list str) : In x (sort_strs l) <-> In x l.
Proof.
  split; apply Permutation_in; [symmetry|]; apply sort_strs_perm.
Qed.

Lemma sort_strs_NoDup (l : list str) : NoDup l -> NoDup (sort_strs l).
Proof. apply Permutation_NoDup, sort_strs_perm. Qed.

Lemma sort_strs_length (l : list str) : length (sort_strs l) = length l.
Proof. symmetry. apply Permutation_length, sort_strs_perm. Qed.

Lemma smem_sort_strs (x : str) (l : list str) : smem x (sort_strs l) = smem x l.
Proof. apply smem_ext, sort_strs_In. Qed.

Definition str_le (a b : str) : Prop := str_leb a b = true.

Lemma insert_str_sorted (x : str) (l : list str) :
  StronglySorted str_le l -> StronglySorted str_le (insert_str x l).
Proof.
  induction l as [|y r IH]; intros H; cbn [insert_str].
  - constructor; constructor.
  - inversion H as [|? ? Hr Hy]; subst.
    destruct (str_leb x y) eqn:E.
    + constructor; [exact H|]. constructor; [exact E|].
      eapply Forall_impl; [|exact Hy]. intros z Hz. eapply str_leb_trans; eassumption.
    + constructor; [apply IH, Hr|].
      apply str_leb_total in E.
      eapply Permutation_Forall; [apply insert_str_perm|].
      constructor; assumption.
Qed.

Lemma sort_strs_sorted (l : list str) : StronglySorted str_le (sort_strs l).
Proof.
  unfold sort_strs. induction l as [|x l IH]; cbn [fold_right]; [constructor|].
  apply insert_str_sorted, IH.
Qed.

Lemma sorted_perm_eq (l l' : list str) :
  StronglySorted str_le l -> StronglySorted str_le l' -> Permutation l l' -> l = l'.
Proof.
  revert l'. induction l as [|a l IH]; intros l' S S' HP.
  - apply Permutation_nil in HP. subst. reflexivity.
  - destruct l' as [|b l'']; [symmetry in HP; apply Permutation_nil in HP; discriminate|].
    inversion S as [|? ? Sl Fa]; subst. inversion S' as [|? ? Sl' Fb]; subst.
    assert (Hab : a = b).
    { assert (Ia : In a (b :: l'')) by (eapply Permutation_in; [exact HP|left; reflexivity]).
      assert (Ib : In b (a :: l)) by (eapply Permutation_in; [symmetry; exact HP|left; reflexivity]).
      destruct Ia as [->|Ia]; [reflexivity|]. destruct Ib as [->|Ib]; [reflexivity|].
      rewrite Forall_forall in Fa, Fb. apply str_leb_antisym; [apply Fa, Ib|apply Fb, Ia]. }
    subst b. f_equal. apply IH; try assumption.
    eapply Permutation_cons_inv. exact HP.
Qed.

(* sorted(...) does not depend on the order of its input *)
Lemma sort_strs_perm_eq (l l' : list str) : Permutation l l' -> sort_strs l = sort_strs l'.
Proof.
  intros HP. apply sorted_perm_eq; try apply sort_strs_sorted.
  rewrite <- (sort_strs_perm l), <- (sort_strs_perm l'). exact HP.
Qed.

Lemma sort_strs_set_eq (l l' : list str) :
  NoDup l -> NoDup l' -> (forall x, In x l <-> In x l') -> sort_strs l = sort_strs l'.
Proof. intros H1 H2 H. apply sort_strs_perm_eq, NoDup_Permutation; assumption. Qed.

(* ---------- filters ---------- *)

Lemma filter_length_le {A} (f : A -> bool) (l : list A) : length (filter f l) <= length l.
Proof. induction l as [|x l IH]; cbn [filter]; [lia|]. destruct (f x); cbn [length]; lia. Qed.

Lemma filter_length_partition {A} (f : A -> bool) (l : list A) :
  length (filter f l) + length (filter (fun x => negb (f x)) l) = length l.
Proof.
  induction l as [|x l IH]; cbn [filter]; [reflexivity|].
  destruct (f x); cbn [negb length]; lia.
Qed.

Lemma filter_length_lt {A} (f : A -> bool) (l : list A) (x : A) :
  In x l -> f x = false -> S (length (filter f l)) <= length l.
Proof.
  induction l as [|y l IH]; intros HI Hf; [contradiction|].
  cbn [filter]. destruct HI as [->|HI].
  - rewrite Hf. pose proof (filter_length_le f l). cbn [length]. lia.
  - specialize (IH HI Hf). destruct (f y); cbn [length]; lia.
Qed.

Lemma NoDup_filter' {A} (f : A -> bool) (l : list A) : NoDup l -> NoDup (filter f l).
Proof.
  induction l as [|x l IH]; intros H; cbn [filter]; [constructor|].
  inversion H as [|? ? Hx Hl]; subst. destruct (f x); [|apply IH, Hl].
  constructor; [|apply IH, Hl]. rewrite filter_In. tauto.
Qed.

Lemma map_fst_filter {A B} (g : A -> bool) (l : list (A * B)) :
  map fst (filter (fun kv => g (fst kv)) l) = filter g (map fst l).
Proof.
  induction l as [|[k v] l IH]; [reflexivity|]. cbn [filter map fst].
  destruct (g k); cbn [map fst]; rewrite IH; reflexivity.
Qed.

(* ====================================================================== *)
(** * 2. Association lists: aget / ahas / aput / adel                      *)
(* ====================================================================== *)

(* two attribute lists denote the same finite map (Python dict equality) *)
Definition aeq (l l' : list (str * str)) : Prop := forall k, aget l k = aget l' k.

Lemma aeq_refl l : aeq l l.
Proof. intros k. reflexivity. Qed.
Lemma aeq_sym l l' : aeq l l' -> aeq l' l.
Proof. intros H k. symmetry. apply H. Qed.
Lemma aeq_trans l l' l'' : aeq l l' -> aeq l' l'' -> aeq l l''.
Proof. intros H1 H2 k. rewrite H1. apply H2. Qed.

Lemma aget_cons k' v l k :
  aget ((k', v) :: l) k = if str_eqb k k' then Some v else aget l k.
Proof. reflexivity. Qed.

Lemma aget_None (l : list (str * str)) (k : str) : aget l k = None <-> ~ In k (map fst l).
Proof.
  induction l as [|[k' v] l IH]; cbn [map fst In]; [cbn; tauto|].
  rewrite aget_cons. destruct (str_eqb_spec k k') as [->|Hne].
  - split; [discriminate|]. intros H. exfalso. apply H. left. reflexivity.
  - rewrite IH. split; [intros H [E|E]; [congruence|tauto]|tauto].
Qed.

Lemma aget_Some_key (l : list (str * str)) (k : str) :
  (exists v, aget l k = Some v) <-> In k (map fst l).
Proof.
  destruct (aget l k) as [v|] eqn:E.
  - split; [intros _|intros _; eauto].
    destruct (in_dec str_dec k (map fst l)) as [H|H]; [exact H|].
    apply aget_None in H. congruence.
  - split; [intros [v Hv]; discriminate|]. intros H. apply aget_None in E. contradiction.
Qed.

Lemma aget_Some_In (l : list (str * str)) (k v : str) : aget l k = Some v -> In (k, v) l.
Proof.
  induction l as [|[k' v'] l IH]; [discriminate|]. rewrite aget_cons.
  destruct (str_eqb_spec k k') as [->|Hne].
  - intros H. injection H as ->. left. reflexivity.
  - intros H. right. apply IH, H.
Qed.

Lemma In_aget (l : list (str * str)) (k v : str) :
  NoDup (map fst l) -> In (k, v) l -> aget l k = Some v.
Proof.
  induction l as [|[k' v'] l IH]; intros ND HI; [contradiction|].
  cbn [map fst] in ND. inversion ND as [|? ? Hk' ND']; subst.
  rewrite aget_cons. destruct HI as [E|HI].
  - injection E as -> ->. rewrite str_eqb_refl. reflexivity.
  - destruct (str_eqb_spec k k') as [->|Hne]; [|apply IH; assumption].
    exfalso. apply Hk'. apply in_map_iff. exists (k', v). split; [reflexivity|exact HI].
Qed.

Lemma ahas_In (l : list (str * str)) (k : str) : ahas l k = true <-> In k (map fst l).
Proof.
  unfold ahas. rewrite <- aget_Some_key. destruct (aget l k) as [v|].
  - split; eauto.
  - split; [discriminate|]. intros [v H]. discriminate.
Qed.

Lemma ahas_false (l : list (str * str)) (k : str) : ahas l k = false <-> aget l k = None.
Proof. unfold ahas. destruct (aget l k); split; congruence. Qed.

Lemma ahas_true (l : list (str * str)) (k : str) : ahas l k = true <-> aget l k <> None.
Proof. unfold ahas. destruct (aget l k); split; congruence. Qed.

Lemma ahas_aeq l l' k : aeq l l' -> ahas l k = ahas l' k.
Proof. intros H. unfold ahas. rewrite (H k). reflexivity. Qed.

Lemma aget_app (l l' : list (str * str)) (k : str) :
  aget (l ++ l') k = match aget l k with Some x => Some x | None => aget l' k end.
Proof.
  induction l as [|[k' v] l IH]; [reflexivity|]. cbn [app]. rewrite !aget_cons.
  destruct (str_eqb k k'); [reflexivity|exact IH].
Qed.

Lemma aget_map_put (l : list (str * str)) (k v k' : str) :
  aget (map (fun kv => if str_eqb k (fst kv) then (k, v) else kv) l) k'
  = if str_eqb k k' then (if ahas l k then Some v else None) else aget l k'.
Proof.
  unfold ahas. induction l as [|[k0 v0] l IH]; cbn [map fst].
  - cbn. destruct (str_eqb k k'); reflexivity.
  - destruct (str_eqb_spec k k0) as [E|Hne].
    + subst k0. rewrite !aget_cons, str_eqb_refl. rewrite (str_eqb_sym k' k).
      destruct (str_eqb k k') eqn:E'; [reflexivity|]. rewrite IH. reflexivity.
    + rewrite !aget_cons. rewrite IH.
      destruct (str_eqb_spec k k') as [E'|Hne'].
      * subst k'. destruct (str_eqb_spec k k0) as [E''|_]; [contradiction|reflexivity].
      * reflexivity.
Qed.

(* Python:  d[k] = v ; d.get(k') *)
Lemma aget_aput (l : list (str * str)) (k v k' : str) :
  aget (aput l k v) k' = if str_eqb k k' then Some v else aget l k'.
Proof.
  unfold aput. destruct (ahas l k) eqn:E.
  - rewrite aget_map_put, E. reflexivity.
  - rewrite aget_app. apply ahas_false in E. cbn [aget].
    destruct (str_eqb_spec k k') as [->|Hne].
    + rewrite E, str_eqb_refl. reflexivity.
    + destruct (aget l k'); [reflexivity|].
      destruct (str_eqb_spec k' k); [congruence|reflexivity].
Qed.

(* Python:  del d[k] ; d.get(k') *)
Lemma aget_adel (l : list (str * str)) (k k' : str) :
  aget (adel l k) k' = if str_eqb k k' then None else aget l k'.
Proof.
  unfold adel. induction l as [|[k0 v0] l IH]; cbn [filter fst].
  - cbn. destruct (str_eqb k k'); reflexivity.
  - destruct (str_eqb_spec k k0) as [->|Hne]; cbn [negb].
    + rewrite IH, aget_cons. rewrite (str_eqb_sym k' k0).
      destruct (str_eqb k0 k'); reflexivity.
    + rewrite !aget_cons, IH.
      destruct (str_eqb_spec k k') as [->|Hne'].
      * destruct (str_eqb_spec k' k0) as [->|_]; [contradiction|reflexivity].
      * reflexivity.
Qed.

Lemma aput_aeq l l' k v : aeq l l' -> aeq (aput l k v) (aput l' k v).
Proof. intros H k'. rewrite !aget_aput, (H k'). reflexivity. Qed.

Lemma adel_aeq l l' k : aeq l l' -> aeq (adel l k) (adel l' k).
Proof. intros H k'. rewrite !aget_adel, (H k'). reflexivity. Qed.

Lemma aput_keys_has (l : list (str * str)) (k v : str) :
  ahas l k = true -> map fst (aput l k v) = map fst l.
Proof.
  intros H. unfold aput. rewrite H. rewrite map_map. apply map_ext.
  intros [k0 v0]. cbn [fst]. destruct (str_eqb_spec k k0) as [->|_]; reflexivity.
Qed.

Lemma aput_keys_new (l : list (str * str)) (k v : str) :
  ahas l k = false -> map fst (aput l k v) = map fst l ++ [k].
Proof. intros H. unfold aput. rewrite H, map_app. reflexivity. Qed.

Lemma adel_keys (l : list (str * str)) (k : str) :
  map fst (adel l k) = filter (fun x => negb (str_eqb k x)) (map fst l).
Proof. unfold adel. apply (map_fst_filter (fun x => negb (str_eqb k x))). Qed.

Lemma NoDup_snoc {A} (l : list A) (x : A) : NoDup l -> ~ In x l -> NoDup (l ++ [x]).
Proof.
  induction l as [|y l IH]; intros ND HI; cbn [app].
  - constructor; [intros []|constructor].
  - inversion ND as [|? ? Hy ND']; subst. constructor.
    + rewrite in_app_iff. intros [H|[H|[]]]; [contradiction|]. subst. apply HI. left. reflexivity.
    + apply IH; [exact ND'|]. intros H. apply HI. right. exact H.
Qed.

Lemma aput_NoDup (l : list (str * str)) (k v : str) :
  NoDup (map fst l) -> NoDup (map fst (aput l k v)).
Proof.
  intros ND. destruct (ahas l k) eqn:E.
  - rewrite aput_keys_has by exact E. exact ND.
  - rewrite aput_keys_new by exact E.
    apply NoDup_snoc; [exact ND|]. intros H. apply ahas_In in H. congruence.
Qed.

Lemma adel_NoDup (l : list (str * str)) (k : str) :
  NoDup (map fst l) -> NoDup (map fst (adel l k)).
Proof. intros ND. rewrite adel_keys. apply NoDup_filter', ND. Qed.

Lemma adel_length_le (l : list (str * str)) (k : str) : length (adel l k) <= length l.
Proof. apply filter_length_le. Qed.

(* a permutation of a duplicate-free attribute list is the same finite map *)
Lemma aget_perm (l l' : list (str * str)) :
  NoDup (map fst l) -> Permutation l l' -> aeq l l'.
Proof.
  intros ND HP k.
  assert (ND' : NoDup (map fst l')).
  { eapply Permutation_NoDup; [apply Permutation_map; exact HP|exact ND]. }
  destruct (aget l k) as [v|] eqn:E.
  - symmetry. apply In_aget; [exact ND'|].
    eapply Permutation_in; [exact HP|]. apply aget_Some_In, E.
  - symmetry. apply aget_None. apply aget_None in E. intros H. apply E.
    eapply Permutation_in; [apply Permutation_map; symmetry; exact HP|exact H].
Qed.

(* conversely: duplicate-free lists denoting the same map are permutations *)
Lemma aeq_perm (l l' : list (str * str)) :
  NoDup (map fst l) -> NoDup (map fst l') -> aeq l l' -> Permutation l l'.
Proof.
  intros ND ND' H. apply NoDup_Permutation.
  - eapply NoDup_map_inv. exact ND.
  - eapply NoDup_map_inv. exact ND'.
  - intros [k v]. split; intros HI.
    + apply aget_Some_In. rewrite <- H. apply In_aget; assumption.
    + apply aget_Some_In. rewrite H. apply In_aget; assumption.
Qed.

Lemma aeq_keys (l l' : list (str * str)) (k : str) :
  aeq l l' -> (In k (map fst l) <-> In k (map fst l')).
Proof. intros H. rewrite <- !aget_Some_key, (H k). reflexivity. Qed.

(* node_attribs: dropping the ignored attributes *)
Lemma aget_node_attribs (ign : list str) (l : list (str * str)) (k : str) :
  aget (node_attribs_d ign l) k = if smem k ign then None else aget l k.
Proof.
  unfold node_attribs_d. induction l as [|[k0 v0] l IH]; cbn [filter fst].
  - cbn. destruct (smem k ign); reflexivity.
  - destruct (smem k0 ign) eqn:E0; cbn [negb]; rewrite ?aget_cons, IH.
    + destruct (str_eqb_spec k k0) as [->|_]; [rewrite E0|]; reflexivity.
    + destruct (str_eqb_spec k k0) as [->|_]; [rewrite E0|]; reflexivity.
Qed.

Lemma node_attribs_keys (ign : list str) (l : list (str * str)) :
  map fst (node_attribs_d ign l) = filter (fun k => negb (smem k ign)) (map fst l).
Proof. unfold node_attribs_d. apply (map_fst_filter (fun k => negb (smem k ign))). Qed.

Lemma node_attribs_NoDup (ign : list str) (l : list (str * str)) :
  NoDup (map fst l) -> NoDup (map fst (node_attribs_d ign l)).
Proof. intros H. rewrite node_attribs_keys. apply NoDup_filter', H. Qed.

Lemma node_attribs_In (ign : list str) (l : list (str * str)) (k : str) :
  In k (map fst (node_attribs_d ign l)) <-> In k (map fst l) /\ ~ In k ign.
Proof.
  rewrite node_attribs_keys, filter_In, negb_true_iff, smem_false. reflexivity.
Qed.

Lemma node_attribs_aeq (ign : list str) (l l' : list (str * str)) :
  aeq l l' -> aeq (node_attribs_d ign l) (node_attribs_d ign l').
Proof. intros H k. rewrite !aget_node_attribs, (H k). reflexivity. Qed.

(* ====================================================================== *)
(** * 3. Attribute actions, their strict (documented) meaning              *)
(* ====================================================================== *)

Inductive attr_act :=
| AUpd (k v : str)      (* UpdateAttrib *)
| AIns (k v : str)      (* InsertAttrib *)
| ADel (k : str)        (* DeleteAttrib *)
| ARen (k k' : str).    (* RenameAttrib old new *)

Definition lift (n : id) (a : attr_act) : iact :=
  match a with
  | AUpd k v => IUpdAttr n k v
  | AIns k v => IInsAttr n k v
  | ADel k => IDelAttr n k
  | ARen k k' => IRenAttr n k k'
  end.

(* every attribute name an action mentions *)
Definition act_keys (a : attr_act) : list str :=
  match a with
  | AUpd k _ | AIns k _ | ADel k => [k]
  | ARen k k' => [k; k']
  end.

(* the documented meaning, refusing when a precondition fails: the attribute
   cases of Spec.spec_apply (lemma spec_apply_lift below) *)
Definition strict_attr_apply (l : list (str * str)) (a : attr_act) : option (list (str * str)) :=
  match a with
  | AUpd k v => if ahas l k then Some (aput l k v) else None
  | AIns k v => if negb (ahas l k) then Some (aput l k v) else None
  | ADel k => if ahas l k then Some (adel l k) else None
  | ARen k k' =>
      match aget l k with
      | Some v => if negb (ahas l k') then Some (adel (aput l k' v) k) else None
      | None => None
      end
  end.

(* what the differ does to left.attrib when it emits the action (no checks) *)
Definition raw_attr_apply (l : list (str * str)) (a : attr_act) : list (str * str) :=
  match a with
  | AUpd k v | AIns k v => aput l k v
  | ADel k => adel l k
  | ARen k k' => match aget l k with Some v => adel (aput l k' v) k | None => l end
  end.

Fixpoint run_strict (l : list (str * str)) (acts : list attr_act) : option (list (str * str)) :=
  match acts with
  | [] => Some l
  | a :: r => match strict_attr_apply l a with Some l' => run_strict l' r | None => None end
  end.

Lemma strict_raw l a l' : strict_attr_apply l a = Some l' -> l' = raw_attr_apply l a.
Proof.
  destruct a as [k v|k v|k|k k']; cbn [strict_attr_apply raw_attr_apply].
  - destruct (ahas l k); congruence.
  - destruct (negb (ahas l k)); congruence.
  - destruct (ahas l k); congruence.
  - destruct (aget l k) as [v|]; [|discriminate]. destruct (negb (ahas l k')); congruence.
Qed.

Lemma strict_attr_apply_NoDup l a l' :
  NoDup (map fst l) -> strict_attr_apply l a = Some l' -> NoDup (map fst l').
Proof.
  intros ND H. apply strict_raw in H. subst l'.
  destruct a as [k v|k v|k|k k']; cbn [raw_attr_apply];
    try apply aput_NoDup; try apply adel_NoDup; try exact ND.
  destruct (aget l k); [apply adel_NoDup, aput_NoDup|]; exact ND.
Qed.

Lemma strict_attr_apply_aeq l1 l2 a :
  aeq l1 l2 ->
  match strict_attr_apply l1 a, strict_attr_apply l2 a with
  | Some r1, Some r2 => aeq r1 r2
  | None, None => True
  | _, _ => False
  end.
Proof.
  intros H. destruct a as [k v|k v|k|k k']; cbn [strict_attr_apply].
  - rewrite (ahas_aeq _ _ k H). destruct (ahas l2 k); [apply aput_aeq, H|exact I].
  - rewrite (ahas_aeq _ _ k H). destruct (ahas l2 k); cbn [negb]; [exact I|apply aput_aeq, H].
  - rewrite (ahas_aeq _ _ k H). destruct (ahas l2 k); [apply adel_aeq, H|exact I].
  - rewrite (H k). destruct (aget l2 k) as [v|]; [|exact I].
    rewrite (ahas_aeq _ _ k' H). destruct (ahas l2 k'); cbn [negb]; [exact I|].
    apply adel_aeq, aput_aeq, H.
Qed.

Lemma run_strict_app l acts acts' :
  run_strict l (acts ++ acts') =
  match run_strict l acts with Some m => run_strict m acts' | None => None end.
Proof.
  revert l. induction acts as [|a r IH]; intros l; [reflexivity|].
  cbn [app run_strict]. destruct (strict_attr_apply l a); [apply IH|reflexivity].
Qed.

Lemma run_strict_NoDup l acts l' :
  NoDup (map fst l) -> run_strict l acts = Some l' -> NoDup (map fst l').
Proof.
  revert l. induction acts as [|a r IH]; intros l ND H; cbn [run_strict] in H.
  - injection H as <-. exact ND.
  - destruct (strict_attr_apply l a) as [m|] eqn:E; [|discriminate].
    eapply IH; [|exact H]. eapply strict_attr_apply_NoDup; eassumption.
Qed.

(* an action is EFFECTIVE when the attribute map after it differs from the map
   before it, as a finite map (hence also as a list) *)
Definition changes (l l' : list (str * str)) : Prop := exists k, aget l k <> aget l' k.

Lemma changes_neq l l' : changes l l' -> l <> l'.
Proof. intros [k H] E. subst. apply H. reflexivity. Qed.

(* a run in which every action is applicable as documented AND effective *)
Inductive eff_run : list (str * str) -> list attr_act -> list (str * str) -> Prop :=
| er_nil l : eff_run l [] l
| er_cons l a l' r l'' :
    strict_attr_apply l a = Some l' -> changes l l' -> eff_run l' r l'' -> eff_run l (a :: r) l''.

Lemma eff_run_app l a1 m a2 l' : eff_run l a1 m -> eff_run m a2 l' -> eff_run l (a1 ++ a2) l'.
Proof.
  intros H1 H2. induction H1 as [l|l a l1 r l2 Ha Hc Hr IH]; [exact H2|].
  cbn [app]. econstructor; [exact Ha|exact Hc|apply IH, H2].
Qed.

Lemma eff_run_one l a l' : strict_attr_apply l a = Some l' -> changes l l' -> eff_run l [a] l'.
Proof. intros H1 H2. econstructor; [exact H1|exact H2|constructor]. Qed.

Lemma eff_run_strict l acts l' : eff_run l acts l' -> run_strict l acts = Some l'.
Proof.
  intros H. induction H as [l|l a l1 r l2 Ha Hc Hr IH]; [reflexivity|].
  cbn [run_strict]. rewrite Ha. exact IH.
Qed.

(* the explicit reading of eff_run: at every position of the script the action
   is strictly applicable to the map reached so far and changes it *)
Lemma eff_run_each l acts l' :
  eff_run l acts l' ->
  forall pre a post, acts = pre ++ a :: post ->
  exists m m', run_strict l pre = Some m /\ strict_attr_apply m a = Some m' /\
               changes m m' /\ m <> m' /\ run_strict m' post = Some l'.
Proof.
  intros H. induction H as [l|l a0 l1 r l2 Ha Hc Hr IH]; intros pre a post E.
  - destruct pre; discriminate.
  - destruct pre as [|b pre]; cbn [app] in E; injection E as E1 E2; subst.
    + exists l, l1. repeat split; try assumption.
      * apply changes_neq, Hc.
      * apply eff_run_strict, Hr.
    + destruct (IH pre a post eq_refl) as [m [m' [H1 H2]]].
      exists m, m'. split; [|exact H2]. cbn [run_strict]. rewrite Ha. exact H1.
Qed.

(* ---- coincidence with Spec.spec_apply on an alive element node ---- *)

Lemma spec_apply_lift root f n a :
  alive f root n = true -> is_elem f n = true ->
  spec_apply root f (lift n a) =
  option_map (set_attrs_f f n) (strict_attr_apply (lattrs (labof f n)) a).
Proof.
  intros Ha He. destruct a as [k v|k v|k|k k']; cbn [lift spec_apply strict_attr_apply];
    rewrite ?Ha, ?He; cbn [andb].
  - destruct (ahas (lattrs (labof f n)) k); reflexivity.
  - destruct (negb (ahas (lattrs (labof f n)) k)); reflexivity.
  - destruct (ahas (lattrs (labof f n)) k); reflexivity.
  - destruct (aget (lattrs (labof f n)) k) as [v|]; [|reflexivity].
    rewrite ?Ha, ?He. cbn [andb].
    destruct (negb (ahas (lattrs (labof f n)) k')); reflexivity.
Qed.

(* the forest after the differ's own mutation for one emitted action *)
Definition apply_w (n : id) (w : forest) (a : attr_act) : forest :=
  set_attrs_f w n (raw_attr_apply (lattrs (labof w n)) a).

Lemma subtree_set_lab fuel f n lb m : subtree fuel (set_lab f n lb) m = subtree fuel f m.
Proof.
  revert m. induction fuel as [|fu IH]; intros m; [reflexivity|].
  cbn [subtree]. f_equal. unfold kidsof. cbn [set_lab fkids].
  apply flat_map_ext. intros c. apply IH.
Qed.

Lemma alive_set_attrs_f f root n a m : alive (set_attrs_f f n a) root m = alive f root m.
Proof.
  unfold alive, doc_nodes, set_attrs_f. cbn [set_lab fnext]. rewrite subtree_set_lab. reflexivity.
Qed.

Lemma labof_set_attrs_f_same f n a :
  labof (set_attrs_f f n a) n = Lab (ltag (labof f n)) a (ltext (labof f n)) (ltail (labof f n)).
Proof. unfold set_attrs_f, labof, set_lab, upd. cbn [flab]. rewrite Nat.eqb_refl. reflexivity. Qed.

Lemma labof_set_attrs_f_other f n a m : m <> n -> labof (set_attrs_f f n a) m = labof f m.
Proof.
  intros H. unfold set_attrs_f, labof, set_lab, upd. cbn [flab].
  destruct (Nat.eqb_spec m n); [contradiction|reflexivity].
Qed.

Lemma is_elem_set_attrs_f f n a : is_elem (set_attrs_f f n a) n = is_elem f n.
Proof. unfold is_elem. rewrite labof_set_attrs_f_same. reflexivity. Qed.

(* frame of the attribute mutations *)
Definition attr_frame (n : id) (w w' : forest) : Prop :=
  fkids w' = fkids w /\ fnext w' = fnext w /\
  (forall m, m <> n -> labof w' m = labof w m) /\
  ltag (labof w' n) = ltag (labof w n) /\
  ltext (labof w' n) = ltext (labof w n) /\
  ltail (labof w' n) = ltail (labof w n).

Lemma attr_frame_refl n w : attr_frame n w w.
Proof. repeat split; reflexivity. Qed.

Lemma attr_frame_set n w a : attr_frame n w (set_attrs_f w n a).
Proof.
  unfold attr_frame. split; [reflexivity|]. split; [reflexivity|].
  split; [intros m Hm; apply labof_set_attrs_f_other, Hm|].
  rewrite labof_set_attrs_f_same. repeat split; reflexivity.
Qed.

Lemma attr_frame_trans n w1 w2 w3 : attr_frame n w1 w2 -> attr_frame n w2 w3 -> attr_frame n w1 w3.
Proof.
  intros (A1 & A2 & A3 & A4 & A5 & A6) (B1 & B2 & B3 & B4 & B5 & B6).
  unfold attr_frame. rewrite B1, B2, B4, B5, B6.
  split; [exact A1|]. split; [exact A2|]. split; [|auto].
  intros m Hm. rewrite B3 by exact Hm. apply A3, Hm.
Qed.

Lemma apply_w_fold_frame n acts w : attr_frame n w (fold_left (apply_w n) acts w).
Proof.
  revert w. induction acts as [|a r IH]; intros w; cbn [fold_left]; [apply attr_frame_refl|].
  eapply attr_frame_trans; [|apply IH]. apply attr_frame_set.
Qed.

Lemma apply_w_fold_attrs n acts : forall w,
  lattrs (labof (fold_left (apply_w n) acts w) n) = fold_left raw_attr_apply acts (lattrs (labof w n)).
Proof.
  induction acts as [|a r IH]; intros w; cbn [fold_left]; [reflexivity|].
  rewrite IH. unfold apply_w. rewrite labof_set_attrs_f_same. reflexivity.
Qed.

Lemma run_strict_raw l acts l' : run_strict l acts = Some l' -> l' = fold_left raw_attr_apply acts l.
Proof.
  revert l. induction acts as [|a r IH]; intros l H; cbn [run_strict fold_left] in *.
  - congruence.
  - destruct (strict_attr_apply l a) as [m|] eqn:E; [|discriminate].
    apply strict_raw in E. subst m. apply IH, H.
Qed.

(* a strictly applicable attribute script IS applicable in the sense of Spec, and
   Spec's result is (Leibniz-)equal to the forest the differ's mutations produce *)
Lemma run_spec_lift root n acts : forall f final,
  alive f root n = true -> is_elem f n = true ->
  run_strict (lattrs (labof f n)) acts = Some final ->
  run_spec root f (map (lift n) acts) = Some (fold_left (apply_w n) acts f).
Proof.
  induction acts as [|a r IH]; intros f final Ha He H; cbn [map run_spec fold_left]; [reflexivity|].
  cbn [run_strict] in H.
  destruct (strict_attr_apply (lattrs (labof f n)) a) as [m|] eqn:E; [|discriminate].
  rewrite spec_apply_lift, E by assumption. cbn [option_map].
  pose proof (strict_raw _ _ _ E) as Em.
  change (apply_w n f a) with (set_attrs_f f n (raw_attr_apply (lattrs (labof f n)) a)).
  rewrite <- Em.
  apply IH with (final := final).
  - rewrite alive_set_attrs_f. exact Ha.
  - rewrite is_elem_set_attrs_f. exact He.
  - rewrite labof_set_attrs_f_same. cbn [lattrs]. exact H.
Qed.

(* ====================================================================== *)
(** * 4. The pure attribute-level function mirroring Differ.upd_attr       *)
(* ====================================================================== *)

(* emitted actions so far, current left attributes, failure flag *)
Record pst := P { pacts : list attr_act; pcur : list (str * str); perr : bool }.

Definition upd_step (ra : list (str * str)) (p : pst) (k : str) : pst :=
  match aget (pcur p) k, aget ra k with
  | Some a, Some b => if str_eqb a b then p
                      else P (pacts p ++ [AUpd k b]) (aput (pcur p) k b) (perr p)
  | _, _ => P (pacts p) (pcur p) true
  end.

Definition ren_step (x : pst * list str * list (str * str)) (lk_ : str)
  : pst * list str * list (str * str) :=
  let '(p, newk, nmap) := x in
  match aget (pcur p) lk_ with
  | None => (P (pacts p) (pcur p) true, newk, nmap)
  | Some v =>
      match aget nmap v with
      | None => (p, newk, nmap)
      | Some rk_ => (P (pacts p ++ [ARen lk_ rk_]) (adel (aput (pcur p) rk_ v) lk_) (perr p),
                     filter (fun k => negb (str_eqb k rk_)) newk, adel nmap v)
      end
  end.

Definition ins_step (ra : list (str * str)) (p : pst) (k : str) : pst :=
  match aget ra k with
  | Some b => P (pacts p ++ [AIns k b]) (aput (pcur p) k b) (perr p)
  | None => P (pacts p) (pcur p) true
  end.

Definition del_step (p : pst) (k : str) : pst :=
  if ahas (pcur p) k then P (pacts p ++ [ADel k]) (adel (pcur p) k) (perr p) else p.

(* the three key sets of update_node_attr, as lists *)
Definition left_keys (ign : list str) (la : list (str * str)) : list str :=
  map fst (node_attribs_d ign la).
Definition new_keys (ign : list str) (la ra : list (str * str)) : list str :=
  filter (fun k => negb (smem k (left_keys ign la))) (left_keys ign ra).
Definition removed_keys (ign : list str) (la ra : list (str * str)) : list str :=
  filter (fun k => negb (smem k (left_keys ign ra))) (left_keys ign la).
Definition common_keys (ign : list str) (la ra : list (str * str)) : list str :=
  filter (fun k => smem k (left_keys ign ra)) (left_keys ign la).

Definition attr_run (ign : list str) (la ra : list (str * str)) : pst :=
  let newk := new_keys ign la ra in
  let remk := removed_keys ign la ra in
  let comk := common_keys ign la ra in
  let p1 := fold_left (upd_step ra) (sort_strs comk) (P [] la false) in
  let '(p2, newk2, _) := fold_left ren_step (sort_strs remk) (p1, newk, newattrmap ra newk) in
  let p3 := fold_left (ins_step ra) (sort_strs newk2) p2 in
  fold_left del_step (sort_strs remk) p3.

(* THE pure function: the emitted attribute actions and the final attributes *)
Definition attr_script (ign : list str) (la ra : list (str * str))
  : list attr_act * list (str * str) :=
  let p := attr_run ign la ra in (pacts p, pcur p).

Lemma attr_run_nil ign : attr_run ign [] [] = P [] [] false.
Proof. reflexivity. Qed.

(* ---- upd_attr is attr_run lifted to the differ state ---- *)

Definition lifted (ln : id) (s0 s : st) (p : pst) : Prop :=
  out s = out s0 ++ map (lift ln) (pacts p) /\
  W s = fold_left (apply_w ln) (pacts p) (W s0) /\
  cur_attrs s ln = pcur p /\
  serr s = serr s0 || perr p /\
  l2r s = l2r s0 /\ r2l s = r2l s0 /\ inoL s = inoL s0 /\ inoR s = inoR s0.

Lemma fold_left_rel {A B K} (Rel : A -> B -> Prop) (f : A -> K -> A) (g : B -> K -> B) :
  (forall a b k, Rel a b -> Rel (f a k) (g b k)) ->
  forall ks a b, Rel a b -> Rel (fold_left f ks a) (fold_left g ks b).
Proof.
  intros Hstep ks. induction ks as [|k ks IH]; intros a b H; cbn [fold_left]; [exact H|].
  apply IH, Hstep, H.
Qed.

Lemma lifted_fail ln s0 s p :
  lifted ln s0 s p -> lifted ln s0 (fail s) (P (pacts p) (pcur p) true).
Proof.
  intros (H1 & H2 & H3 & H4 & H5 & H6 & H7 & H8).
  unfold lifted, fail, cur_attrs. cbn [out W serr l2r r2l inoL inoR pacts pcur perr].
  split; [exact H1|]. split; [exact H2|]. split; [exact H3|].
  split; [rewrite orb_true_r; reflexivity|]. auto.
Qed.

(* one emitting step: the differ's set_attrs (emit s act) ln new, where new is
   the raw effect of the action on the current attributes *)
Lemma lifted_emit ln s0 s p a :
  lifted ln s0 s p ->
  lifted ln s0 (set_attrs (emit s (lift ln a)) ln (raw_attr_apply (pcur p) a))
         (P (pacts p ++ [a]) (raw_attr_apply (pcur p) a) (perr p)).
Proof.
  intros (H1 & H2 & H3 & H4 & H5 & H6 & H7 & H8).
  unfold lifted, set_attrs, emit, withW, cur_attrs in *.
  cbn [out W serr l2r r2l inoL inoR pacts pcur perr].
  split; [rewrite H1, map_app, app_assoc; reflexivity|].
  split.
  { rewrite fold_left_app. cbn [fold_left]. rewrite <- H2.
    unfold apply_w, set_attrs_f. rewrite H3. reflexivity. }
  split.
  { unfold labof, set_lab, upd. cbn [flab]. rewrite Nat.eqb_refl. reflexivity. }
  auto.
Qed.

Lemma upd_attr_lift ign R s ln rn :
  lifted ln s (upd_attr ign R s ln rn)
         (attr_run ign (cur_attrs s ln) (lattrs (labof R rn))).
Proof.
  unfold upd_attr, attr_run. cbv zeta.
  set (ra := lattrs (labof R rn)). set (la := cur_attrs s ln).
  fold (left_keys ign la). fold (left_keys ign ra).
  fold (new_keys ign la ra). fold (removed_keys ign la ra). fold (common_keys ign la ra).
  (* phase 1 *)
  match goal with |- context [fold_left ?f (sort_strs (common_keys ign la ra)) s] =>
    set (f1 := f) end.
  assert (L1 : lifted ln s (fold_left f1 (sort_strs (common_keys ign la ra)) s)
                 (fold_left (upd_step ra) (sort_strs (common_keys ign la ra)) (P [] la false))).
  { apply (fold_left_rel (lifted ln s)).
    - intros a b k Hab. unfold f1, upd_step.
      pose proof Hab as (_ & _ & Hc & _). rewrite Hc.
      destruct (aget (pcur b) k) as [x|] eqn:E1; [|apply lifted_fail, Hab].
      destruct (aget ra k) as [y|] eqn:E2; [|apply lifted_fail, Hab].
      destruct (str_eqb x y) eqn:E3; [exact Hab|].
      apply (lifted_emit ln s a b (AUpd k y)), Hab.
    - unfold lifted. cbn [pacts pcur perr map fold_left].
      rewrite app_nil_r, orb_false_r. repeat split; reflexivity. }
  set (s1 := fold_left f1 _ s) in *.
  set (p1 := fold_left (upd_step ra) _ _) in *.
  (* phase 2 *)
  match goal with |- context [fold_left ?f (sort_strs (removed_keys ign la ra)) (s1, ?nk, ?nm)] =>
    set (f2 := f) end.
  pose (Rel2 := fun (x : st * list str * list (str * str)) (y : pst * list str * list (str * str)) =>
                  lifted ln s (fst (fst x)) (fst (fst y)) /\ snd (fst x) = snd (fst y) /\ snd x = snd y).
  assert (L2 : Rel2 (fold_left f2 (sort_strs (removed_keys ign la ra))
                               (s1, new_keys ign la ra, newattrmap ra (new_keys ign la ra)))
                    (fold_left ren_step (sort_strs (removed_keys ign la ra))
                               (p1, new_keys ign la ra, newattrmap ra (new_keys ign la ra)))).
  { apply (fold_left_rel Rel2).
    - intros [[a nk] nm] [[b nk'] nm'] k (Hab & E1 & E2). cbn [fst snd] in *. subst nk' nm'.
      unfold f2, ren_step, Rel2.
      pose proof Hab as (_ & _ & Hc & _). rewrite Hc.
      destruct (aget (pcur b) k) as [v|] eqn:E1.
      + destruct (aget nm v) as [rk_|] eqn:E2; cbn [fst snd].
        * split; [|split; reflexivity].
          pose proof (lifted_emit ln s a b (ARen k rk_) Hab) as HL.
          cbn [raw_attr_apply lift] in HL. rewrite E1 in HL. exact HL.
        * split; [exact Hab|split; reflexivity].
      + cbn [fst snd]. split; [apply lifted_fail, Hab|split; reflexivity].
    - unfold Rel2. cbn [fst snd]. split; [exact L1|split; reflexivity]. }
  destruct (fold_left f2 _ _) as [[s2 nk2] nm2].
  destruct (fold_left ren_step _ _) as [[p2 nk2'] nm2'].
  destruct L2 as (L2 & E1 & E2). cbn [fst snd] in L2, E1, E2. subst nk2' nm2'.
  (* phase 3 *)
  match goal with |- context [fold_left ?f (sort_strs nk2) s2] => set (f3 := f) end.
  assert (L3 : lifted ln s (fold_left f3 (sort_strs nk2) s2) (fold_left (ins_step ra) (sort_strs nk2) p2)).
  { apply (fold_left_rel (lifted ln s)); [|exact L2].
    intros a b k Hab. unfold f3, ins_step.
    destruct (aget ra k) as [y|] eqn:E2; [|apply lifted_fail, Hab].
    pose proof Hab as (_ & _ & Hc & _). rewrite Hc.
    apply (lifted_emit ln s a b (AIns k y)), Hab. }
  (* phase 4 *)
  apply (fold_left_rel (lifted ln s)); [|exact L3].
  intros a b k Hab. unfold del_step.
  pose proof Hab as (_ & _ & Hc & _). rewrite Hc.
  destruct (ahas (pcur b) k) eqn:E; [|exact Hab].
  apply (lifted_emit ln s a b (ADel k)), Hab.
Qed.

(* ====================================================================== *)
(** * 5. Phase-by-phase analysis of attr_run                               *)
(* ====================================================================== *)

(* p' extends p by the actions acts: no new failure, acts appended, and acts is a
   strictly applicable, effective run from p's attributes to p''s *)
Definition ext_by (acts : list attr_act) (p p' : pst) : Prop :=
  perr p' = perr p /\ pacts p' = pacts p ++ acts /\ eff_run (pcur p) acts (pcur p').

Lemma ext_by_nil p : ext_by [] p p.
Proof. unfold ext_by. rewrite app_nil_r. repeat split. constructor. Qed.

Lemma ext_by_trans a1 a2 p1 p2 p3 :
  ext_by a1 p1 p2 -> ext_by a2 p2 p3 -> ext_by (a1 ++ a2) p1 p3.
Proof.
  intros (A1 & A2 & A3) (B1 & B2 & B3). unfold ext_by.
  split; [congruence|]. split; [rewrite B2, A2, app_assoc; reflexivity|].
  eapply eff_run_app; eassumption.
Qed.

Lemma ext_by_one p a l' :
  strict_attr_apply (pcur p) a = Some l' -> changes (pcur p) l' ->
  ext_by [a] p (P (pacts p ++ [a]) l' (perr p)).
Proof.
  intros H1 H2. unfold ext_by. cbn [perr pacts pcur]. repeat split.
  apply eff_run_one; assumption.
Qed.

(* ---- phase 1: UpdateAttrib over sorted(common_keys) ---- *)
Lemma upd_fold_spec ra ks : forall p,
  (forall k, In k ks -> aget (pcur p) k <> None /\ aget ra k <> None) ->
  exists acts, ext_by acts p (fold_left (upd_step ra) ks p) /\
    length acts <= length ks /\
    (forall a, In a acts -> forall k, In k (act_keys a) -> In k ks) /\
    (forall k, In k ks -> aget (pcur (fold_left (upd_step ra) ks p)) k = aget ra k) /\
    (forall k, ~ In k ks -> aget (pcur (fold_left (upd_step ra) ks p)) k = aget (pcur p) k).
Proof.
  induction ks as [|k r IH]; intros p H.
  - exists []. cbn [fold_left]. split; [apply ext_by_nil|]. split; [cbn; lia|].
    split; [intros a []|]. split; [intros k []|]. reflexivity.
  - cbn [fold_left].
    destruct (H k (or_introl eq_refl)) as [Hl Hr].
    destruct (aget (pcur p) k) as [a|] eqn:E1; [clear Hl|congruence].
    destruct (aget ra k) as [b|] eqn:E2; [clear Hr|congruence].
    assert (Hstep : upd_step ra p k =
                    if str_eqb a b then p else P (pacts p ++ [AUpd k b]) (aput (pcur p) k b) (perr p)).
    { unfold upd_step. rewrite E1, E2. reflexivity. }
    rewrite Hstep. clear Hstep.
    destruct (str_eqb_spec a b) as [Eab|Nab].
    + subst b.
      destruct (IH p) as (acts & X1 & X2 & X3 & X4 & X5).
      { intros k0 Hk0. apply H. right. exact Hk0. }
      exists acts. split; [exact X1|]. split; [cbn [length]; lia|].
      split; [intros a0 Ha0 k0 Hk0; right; eapply X3; eassumption|].
      split.
      * intros k0 [<-|Hk0]; [|apply X4, Hk0].
        destruct (in_dec str_dec k r) as [Hin|Hnin]; [apply X4, Hin|].
        rewrite X5 by exact Hnin. congruence.
      * intros k0 Hk0. apply X5. intros Hin. apply Hk0. right. exact Hin.
    + set (p1 := P (pacts p ++ [AUpd k b]) (aput (pcur p) k b) (perr p)).
      assert (S1 : ext_by [AUpd k b] p p1).
      { apply ext_by_one.
        - cbn [strict_attr_apply]. unfold ahas. rewrite E1. reflexivity.
        - exists k. rewrite aget_aput, str_eqb_refl, E1. congruence. }
      destruct (IH p1) as (acts & X1 & X2 & X3 & X4 & X5).
      { intros k0 Hk0. split; [|apply H; right; exact Hk0].
        unfold p1. cbn [pcur]. rewrite aget_aput.
        destruct (str_eqb k k0); [discriminate|]. apply H. right. exact Hk0. }
      exists ([AUpd k b] ++ acts). split; [eapply ext_by_trans; eassumption|].
      split; [cbn [app length]; lia|].
      split.
      { intros a0 [<-|Ha0] k0 Hk0.
        - cbn [act_keys] in Hk0. destruct Hk0 as [<-|[]]. left. reflexivity.
        - right. eapply X3; eassumption. }
      split.
      * intros k0 [<-|Hk0]; [|apply X4, Hk0].
        destruct (in_dec str_dec k r) as [Hin|Hnin]; [apply X4, Hin|].
        rewrite X5 by exact Hnin. unfold p1. cbn [pcur].
        rewrite aget_aput, str_eqb_refl. congruence.
      * intros k0 Hk0. rewrite X5 by (intros Hin; apply Hk0; right; exact Hin).
        unfold p1. cbn [pcur]. rewrite aget_aput.
        destruct (str_eqb_spec k k0) as [->|_]; [|reflexivity].
        exfalso. apply Hk0. left. reflexivity.
Qed.

(* ---- newattrmap: every entry value -> key comes from a new right attribute ---- *)
Lemma newattrmap_sound ra newk v k :
  NoDup (map fst ra) ->
  aget (newattrmap ra newk) v = Some k -> In k newk /\ aget ra k = Some v.
Proof.
  intros ND H.
  assert (G : forall l m,
             incl l ra ->
             (forall v k, aget m v = Some k -> In k newk /\ In (k, v) ra) ->
             forall v k,
               aget (fold_left (fun m kv => if smem (fst kv) newk then aput m (snd kv) (fst kv) else m) l m) v
               = Some k -> In k newk /\ In (k, v) ra).
  { induction l as [|[k0 v0] l IH]; intros m Hl Hm v1 k1 H1; cbn [fold_left] in H1.
    - apply Hm, H1.
    - eapply IH; [| |exact H1].
      + intros x Hx. apply Hl. right. exact Hx.
      + intros v2 k2. cbn [fst snd]. destruct (smem_spec k0 newk) as [Hin|Hnin]; [|apply Hm].
        rewrite aget_aput. destruct (str_eqb_spec v0 v2) as [->|_]; [|apply Hm].
        intros E. injection E as <-. split; [exact Hin|]. apply Hl. left. reflexivity. }
  destruct (G ra [] (incl_refl _) (fun v k (E : aget [] v = Some k) => ltac:(discriminate)) v k H)
    as [G1 G2].
  split; [exact G1|]. apply In_aget; assumption.
Qed.

(* ---- phase 2: RenameAttrib over sorted(removed_keys) ---- *)
Lemma ren_fold_spec ra ks : forall p newk nmap,
  NoDup ks ->
  (forall k, In k ks -> aget (pcur p) k <> None) ->
  (forall k, In k ks -> ~ In k newk) ->
  (forall k, In k newk -> aget (pcur p) k = None) ->
  (forall v k, aget nmap v = Some k -> In k newk /\ aget ra k = Some v) ->
  match fold_left ren_step ks (p, newk, nmap) with
  | (p', newk', nmap') =>
      exists acts, ext_by acts p p' /\
        length acts + length newk' <= length newk /\
        (forall a, In a acts -> forall k, In k (act_keys a) -> In k ks \/ In k newk) /\
        (forall k, In k newk' -> In k newk /\ aget (pcur p') k = None) /\
        (forall k, In k newk -> ~ In k newk' -> aget (pcur p') k = aget ra k) /\
        (forall k, ~ In k ks -> ~ In k newk -> aget (pcur p') k = aget (pcur p) k) /\
        (NoDup newk -> NoDup newk')
  end.
Proof.
  induction ks as [|lk r IH]; intros p newk nmap ND Hpres Hdisj Habs Hmap.
  - cbn [fold_left]. exists []. split; [apply ext_by_nil|]. split; [cbn; lia|].
    split; [intros a []|]. split; [intros k Hk; split; [exact Hk|apply Habs, Hk]|].
    split; [intros k H1 H2; contradiction|]. split; [reflexivity|auto].
  - inversion ND as [|? ? Hlk NDr]; subst. cbn [fold_left].
    destruct (aget (pcur p) lk) as [v|] eqn:E1;
      [|exfalso; apply (Hpres lk (or_introl eq_refl)), E1].
    destruct (aget nmap v) as [rk_|] eqn:E2.
    + (* a rename lk -> rk_ *)
      assert (Hstep : ren_step (p, newk, nmap) lk =
                (P (pacts p ++ [ARen lk rk_]) (adel (aput (pcur p) rk_ v) lk) (perr p),
                 filter (fun k => negb (str_eqb k rk_)) newk, adel nmap v)).
      { unfold ren_step. rewrite E1, E2. reflexivity. }
      rewrite Hstep. clear Hstep.
      set (cur1 := adel (aput (pcur p) rk_ v) lk).
      set (p1 := P (pacts p ++ [ARen lk rk_]) cur1 (perr p)).
      set (newk1 := filter (fun k => negb (str_eqb k rk_)) newk).
      destruct (Hmap v rk_ E2) as [Hrk_new Hrk_ra].
      assert (Hrk_abs : aget (pcur p) rk_ = None) by (apply Habs, Hrk_new).
      assert (Hne : lk <> rk_) by (intros ->; congruence).
      assert (Hcur1 : forall k, aget cur1 k =
                if str_eqb lk k then None else if str_eqb rk_ k then Some v else aget (pcur p) k).
      { intros k. unfold cur1. rewrite aget_adel, aget_aput. reflexivity. }
      assert (Hnewk1 : forall k, In k newk1 <-> In k newk /\ k <> rk_).
      { intros k. unfold newk1. rewrite filter_In, negb_true_iff, str_eqb_neq. reflexivity. }
      assert (S1 : ext_by [ARen lk rk_] p p1).
      { apply ext_by_one.
        - cbn [strict_attr_apply]. rewrite E1.
          assert (Hh : ahas (pcur p) rk_ = false) by (apply ahas_false, Hrk_abs).
          rewrite Hh. reflexivity.
        - exists rk_. fold cur1. rewrite Hcur1, Hrk_abs, str_eqb_refl.
          destruct (str_eqb_spec lk rk_); [contradiction|discriminate]. }
      specialize (IH p1 newk1 (adel nmap v) NDr).
      destruct (fold_left ren_step r (p1, newk1, adel nmap v)) as [[p' newk'] nmap'].
      destruct IH as (acts & X1 & X2 & X3 & X4 & X5 & X6 & X7).
      { intros k Hk. unfold p1. cbn [pcur]. rewrite Hcur1.
        destruct (str_eqb_spec lk k) as [->|_]; [contradiction|].
        destruct (str_eqb rk_ k); [discriminate|]. apply Hpres. right. exact Hk. }
      { intros k Hk Hin. apply Hnewk1 in Hin. apply (Hdisj k); [right; exact Hk|tauto]. }
      { intros k Hk. apply Hnewk1 in Hk. destruct Hk as [Hk Hk']. unfold p1. cbn [pcur].
        rewrite Hcur1. destruct (str_eqb lk k); [reflexivity|].
        destruct (str_eqb_spec rk_ k); [congruence|]. apply Habs, Hk. }
      { intros v' k. rewrite aget_adel. destruct (str_eqb_spec v v') as [->|Hv]; [discriminate|].
        intros E. destruct (Hmap v' k E) as [M1 M2]. split; [|exact M2].
        apply Hnewk1. split; [exact M1|]. intros ->. congruence. }
      exists ([ARen lk rk_] ++ acts).
      split; [eapply ext_by_trans; eassumption|].
      split.
      { cbn [app length].
        assert (S (length newk1) <= length newk).
        { unfold newk1. apply (filter_length_lt _ newk rk_ Hrk_new).
          rewrite str_eqb_refl. reflexivity. }
        lia. }
      split.
      { intros a [<-|Ha] k Hk.
        - cbn [act_keys] in Hk. destruct Hk as [<-|[<-|[]]]; [left; left; reflexivity|right; exact Hrk_new].
        - destruct (X3 a Ha k Hk) as [Hk'|Hk']; [left; right; exact Hk'|].
          right. apply Hnewk1 in Hk'. tauto. }
      split.
      { intros k Hk. destruct (X4 k Hk) as [Y1 Y2]. apply Hnewk1 in Y1. tauto. }
      split.
      { intros k Hk Hnk. destruct (str_dec k rk_) as [->|Hk'].
        - rewrite X6.
          + unfold p1. cbn [pcur]. rewrite Hcur1, str_eqb_refl.
            destruct (str_eqb_spec lk rk_); [contradiction|congruence].
          + intros Hin. apply (Hdisj rk_); [right; exact Hin|exact Hrk_new].
          + intros Hin. apply Hnewk1 in Hin. tauto.
        - destruct (in_dec str_dec k newk') as [Hin|Hnin]; [contradiction|].
          apply X5; [|exact Hnin]. apply Hnewk1. tauto. }
      split.
      { intros k Hk Hnk. rewrite X6.
        - unfold p1. cbn [pcur]. rewrite Hcur1.
          destruct (str_eqb_spec lk k) as [->|_]; [exfalso; apply Hk; left; reflexivity|].
          destruct (str_eqb_spec rk_ k) as [->|_]; [contradiction|reflexivity].
        - intros Hin. apply Hk. right. exact Hin.
        - intros Hin. apply Hnewk1 in Hin. tauto. }
      intros NDn. apply X7. unfold newk1. apply NoDup_filter', NDn.
    + (* no rename for lk *)
      assert (Hstep : ren_step (p, newk, nmap) lk = (p, newk, nmap)).
      { unfold ren_step. rewrite E1, E2. reflexivity. }
      rewrite Hstep. clear Hstep.
      specialize (IH p newk nmap NDr).
      destruct (fold_left ren_step r (p, newk, nmap)) as [[p' newk'] nmap'].
      destruct IH as (acts & X1 & X2 & X3 & X4 & X5 & X6 & X7).
      { intros k Hk. apply Hpres. right. exact Hk. }
      { intros k Hk. apply Hdisj. right. exact Hk. }
      { exact Habs. }
      { exact Hmap. }
      exists acts. split; [exact X1|]. split; [exact X2|].
      split.
      { intros a Ha k Hk. destruct (X3 a Ha k Hk) as [Hk'|Hk']; [left; right; exact Hk'|right; exact Hk']. }
      split; [exact X4|]. split; [exact X5|]. split; [|exact X7].
      intros k Hk Hnk. apply X6; [|exact Hnk]. intros Hin. apply Hk. right. exact Hin.
Qed.

(* ---- phase 3: InsertAttrib over sorted(new_keys) ---- *)
Lemma ins_fold_spec ra ks : forall p,
  NoDup ks ->
  (forall k, In k ks -> aget (pcur p) k = None /\ aget ra k <> None) ->
  exists acts, ext_by acts p (fold_left (ins_step ra) ks p) /\
    length acts = length ks /\
    (forall a, In a acts -> forall k, In k (act_keys a) -> In k ks) /\
    (forall k, In k ks -> aget (pcur (fold_left (ins_step ra) ks p)) k = aget ra k) /\
    (forall k, ~ In k ks -> aget (pcur (fold_left (ins_step ra) ks p)) k = aget (pcur p) k).
Proof.
  induction ks as [|k r IH]; intros p ND H.
  - exists []. cbn [fold_left]. split; [apply ext_by_nil|]. split; [reflexivity|].
    split; [intros a []|]. split; [intros k []|]. reflexivity.
  - inversion ND as [|? ? Hk NDr]; subst. cbn [fold_left].
    destruct (H k (or_introl eq_refl)) as [Hl Hr].
    destruct (aget ra k) as [b|] eqn:E2; [clear Hr|congruence].
    assert (Hstep : ins_step ra p k = P (pacts p ++ [AIns k b]) (aput (pcur p) k b) (perr p)).
    { unfold ins_step. rewrite E2. reflexivity. }
    rewrite Hstep. clear Hstep.
    set (p1 := P (pacts p ++ [AIns k b]) (aput (pcur p) k b) (perr p)).
    assert (S1 : ext_by [AIns k b] p p1).
    { apply ext_by_one.
      - cbn [strict_attr_apply]. unfold ahas. rewrite Hl. reflexivity.
      - exists k. rewrite aget_aput, str_eqb_refl, Hl. discriminate. }
    destruct (IH p1 NDr) as (acts & X1 & X2 & X3 & X4 & X5).
    { intros k0 Hk0. split; [|apply H; right; exact Hk0].
      unfold p1. cbn [pcur]. rewrite aget_aput.
      destruct (str_eqb_spec k k0) as [->|_]; [contradiction|]. apply H. right. exact Hk0. }
    exists ([AIns k b] ++ acts). split; [eapply ext_by_trans; eassumption|].
    split; [cbn [app length]; lia|].
    split.
    { intros a0 [<-|Ha0] k0 Hk0.
      - cbn [act_keys] in Hk0. destruct Hk0 as [<-|[]]. left. reflexivity.
      - right. eapply X3; eassumption. }
    split.
    + intros k0 [<-|Hk0]; [|apply X4, Hk0].
      rewrite X5 by exact Hk. unfold p1. cbn [pcur].
      rewrite aget_aput, str_eqb_refl. congruence.
    + intros k0 Hk0. rewrite X5 by (intros Hin; apply Hk0; right; exact Hin).
      unfold p1. cbn [pcur]. rewrite aget_aput.
      destruct (str_eqb_spec k k0) as [->|_]; [|reflexivity].
      exfalso. apply Hk0. left. reflexivity.
Qed.

(* ---- phase 4: DeleteAttrib over sorted(removed_keys) ---- *)
Lemma del_fold_spec ks : forall p,
  exists acts, ext_by acts p (fold_left del_step ks p) /\
    length acts <= length ks /\
    (forall a, In a acts -> forall k, In k (act_keys a) -> In k ks) /\
    (forall k, In k ks -> aget (pcur (fold_left del_step ks p)) k = None) /\
    (forall k, ~ In k ks -> aget (pcur (fold_left del_step ks p)) k = aget (pcur p) k).
Proof.
  induction ks as [|k r IH]; intros p.
  - exists []. cbn [fold_left]. split; [apply ext_by_nil|]. split; [cbn; lia|].
    split; [intros a []|]. split; [intros k []|]. reflexivity.
  - cbn [fold_left].
    assert (Hstep : del_step p k =
              if ahas (pcur p) k then P (pacts p ++ [ADel k]) (adel (pcur p) k) (perr p) else p)
      by reflexivity.
    rewrite Hstep. clear Hstep. destruct (ahas (pcur p) k) eqn:E.
    + set (p1 := P (pacts p ++ [ADel k]) (adel (pcur p) k) (perr p)).
      assert (S1 : ext_by [ADel k] p p1).
      { apply ext_by_one.
        - cbn [strict_attr_apply]. rewrite E. reflexivity.
        - exists k. rewrite aget_adel, str_eqb_refl. apply ahas_true, E. }
      destruct (IH p1) as (acts & X1 & X2 & X3 & X4 & X5).
      exists ([ADel k] ++ acts). split; [eapply ext_by_trans; eassumption|].
      split; [cbn [app length]; lia|].
      split.
      { intros a0 [<-|Ha0] k0 Hk0.
        - cbn [act_keys] in Hk0. destruct Hk0 as [<-|[]]. left. reflexivity.
        - right. eapply X3; eassumption. }
      split.
      * intros k0 [<-|Hk0]; [|apply X4, Hk0].
        destruct (in_dec str_dec k r) as [Hin|Hnin]; [apply X4, Hin|].
        rewrite X5 by exact Hnin. unfold p1. cbn [pcur].
        rewrite aget_adel, str_eqb_refl. reflexivity.
      * intros k0 Hk0. rewrite X5 by (intros Hin; apply Hk0; right; exact Hin).
        unfold p1. cbn [pcur]. rewrite aget_adel.
        destruct (str_eqb_spec k k0) as [->|_]; [|reflexivity].
        exfalso. apply Hk0. left. reflexivity.
    + destruct (IH p) as (acts & X1 & X2 & X3 & X4 & X5).
      exists acts. split; [exact X1|]. split; [cbn [length]; lia|].
      split; [intros a0 Ha0 k0 Hk0; right; eapply X3; eassumption|].
      split.
      * intros k0 [<-|Hk0]; [|apply X4, Hk0].
        destruct (in_dec str_dec k r) as [Hin|Hnin]; [apply X4, Hin|].
        rewrite X5 by exact Hnin. apply ahas_false, E.
      * intros k0 Hk0. apply X5. intros Hin. apply Hk0. right. exact Hin.
Qed.

(* ====================================================================== *)
(** * 6. Soundness of the attribute script                                 *)
(* ====================================================================== *)

Lemma left_keys_In ign l k : In k (left_keys ign l) <-> In k (map fst l) /\ ~ In k ign.
Proof. apply node_attribs_In. Qed.

Lemma left_keys_NoDup ign l : NoDup (map fst l) -> NoDup (left_keys ign l).
Proof. apply node_attribs_NoDup. Qed.

Lemma left_keys_length ign l : length (left_keys ign l) <= length l.
Proof. unfold left_keys, node_attribs_d. rewrite map_length. apply filter_length_le. Qed.

Lemma new_keys_In ign la ra k :
  In k (new_keys ign la ra) <-> In k (left_keys ign ra) /\ ~ In k (left_keys ign la).
Proof. unfold new_keys. rewrite filter_In, negb_true_iff, smem_false. reflexivity. Qed.

Lemma removed_keys_In ign la ra k :
  In k (removed_keys ign la ra) <-> In k (left_keys ign la) /\ ~ In k (left_keys ign ra).
Proof. unfold removed_keys. rewrite filter_In, negb_true_iff, smem_false. reflexivity. Qed.

Lemma common_keys_In ign la ra k :
  In k (common_keys ign la ra) <-> In k (left_keys ign la) /\ In k (left_keys ign ra).
Proof. unfold common_keys. rewrite filter_In, smem_In. reflexivity. Qed.

Lemma common_removed_length ign la ra :
  length (common_keys ign la ra) + length (removed_keys ign la ra) = length (left_keys ign la).
Proof. unfold common_keys, removed_keys. apply filter_length_partition. Qed.

Section Sound.
Variables (ign : list str) (la ra : list (str * str)).
Hypothesis NDl : NoDup (map fst la).
Hypothesis NDr : NoDup (map fst ra).

Theorem attr_run_sound :
  let p := attr_run ign la ra in
  perr p = false /\
  eff_run la (pacts p) (pcur p) /\
  (forall k, ~ In k ign -> aget (pcur p) k = aget ra k) /\
  (forall k, In k ign -> aget (pcur p) k = aget la k) /\
  (forall a, In a (pacts p) -> forall k, In k (act_keys a) ->
     ~ In k ign /\ (In k (map fst la) \/ In k (map fst ra))) /\
  length (pacts p) <= length (left_keys ign la) + length (new_keys ign la ra).
Proof.
  unfold attr_run. cbv zeta.
  set (lk := left_keys ign la). set (rk := left_keys ign ra).
  set (newk := new_keys ign la ra). set (remk := removed_keys ign la ra).
  set (comk := common_keys ign la ra).
  assert (Klk : forall k, In k lk <-> In k (map fst la) /\ ~ In k ign) by (intros; apply left_keys_In).
  assert (Krk : forall k, In k rk <-> In k (map fst ra) /\ ~ In k ign) by (intros; apply left_keys_In).
  assert (Knew : forall k, In k newk <-> In k rk /\ ~ In k lk) by (intros; apply new_keys_In).
  assert (Krem : forall k, In k remk <-> In k lk /\ ~ In k rk) by (intros; apply removed_keys_In).
  assert (Kcom : forall k, In k comk <-> In k lk /\ In k rk) by (intros; apply common_keys_In).
  assert (NDnew : NoDup newk) by (apply NoDup_filter', left_keys_NoDup, NDr).
  assert (NDrem : NoDup remk) by (apply NoDup_filter', left_keys_NoDup, NDl).
  set (p0 := P [] la false).
  (* phase 1 *)
  destruct (upd_fold_spec ra (sort_strs comk) p0) as (acts1 & A1 & A2 & A3 & A4 & A5).
  { intros k Hk. rewrite sort_strs_In, Kcom in Hk. destruct Hk as [H1 H2].
    apply Klk in H1. apply Krk in H2. cbn [p0 pcur].
    split; intros E; apply aget_None in E; tauto. }
  set (p1 := fold_left (upd_step ra) (sort_strs comk) p0) in *.
  rewrite sort_strs_length in A2.
  assert (A4' : forall k, In k comk -> aget (pcur p1) k = aget ra k)
    by (intros k Hk; apply A4, sort_strs_In, Hk).
  assert (A5' : forall k, ~ In k comk -> aget (pcur p1) k = aget la k)
    by (intros k Hk; apply A5; rewrite sort_strs_In; exact Hk).
  assert (A3' : forall a, In a acts1 -> forall k, In k (act_keys a) -> In k comk)
    by (intros a Ha k Hk; eapply sort_strs_In, A3; eassumption).
  clear A3 A4 A5.
  (* phase 2 *)
  pose proof (ren_fold_spec ra (sort_strs remk) p1 newk (newattrmap ra newk)) as B.
  destruct (fold_left ren_step (sort_strs remk) (p1, newk, newattrmap ra newk)) as [[p2 nk2] nm2].
  destruct B as (acts2 & B1 & B2 & B3 & B4 & B5 & B6 & B7).
  { apply sort_strs_NoDup, NDrem. }
  { intros k Hk. rewrite sort_strs_In in Hk. apply Krem in Hk. destruct Hk as [H1 H2].
    rewrite A5' by (rewrite Kcom; tauto). apply Klk in H1. intros E. apply aget_None in E. tauto. }
  { intros k Hk. rewrite sort_strs_In in Hk. apply Krem in Hk. rewrite Knew. tauto. }
  { intros k Hk. apply Knew in Hk. destruct Hk as [H1 H2].
    rewrite A5' by (rewrite Kcom; tauto). apply aget_None. apply Krk in H1.
    intros Hin. apply H2, Klk. tauto. }
  { intros v k. apply newattrmap_sound, NDr. }
  assert (B3' : forall a, In a acts2 -> forall k, In k (act_keys a) -> In k remk \/ In k newk).
  { intros a Ha k Hk. destruct (B3 a Ha k Hk) as [H|H]; [left; apply sort_strs_In, H|right; exact H]. }
  assert (B6' : forall k, ~ In k remk -> ~ In k newk -> aget (pcur p2) k = aget (pcur p1) k)
    by (intros k H1 H2; apply B6; [rewrite sort_strs_In; exact H1|exact H2]).
  clear B3 B6. specialize (B7 NDnew).
  (* phase 3 *)
  destruct (ins_fold_spec ra (sort_strs nk2) p2) as (acts3 & C1 & C2 & C3 & C4 & C5).
  { apply sort_strs_NoDup, B7. }
  { intros k Hk. rewrite sort_strs_In in Hk. destruct (B4 k Hk) as [H1 H2]. split; [exact H2|].
    apply Knew in H1. destruct H1 as [H1 _]. apply Krk in H1.
    intros E. apply aget_None in E. tauto. }
  set (p3 := fold_left (ins_step ra) (sort_strs nk2) p2) in *.
  rewrite sort_strs_length in C2.
  assert (C3' : forall a, In a acts3 -> forall k, In k (act_keys a) -> In k newk).
  { intros a Ha k Hk. apply (B4 k). eapply sort_strs_In, C3; eassumption. }
  assert (C4' : forall k, In k nk2 -> aget (pcur p3) k = aget ra k)
    by (intros k Hk; apply C4, sort_strs_In, Hk).
  assert (C5' : forall k, ~ In k nk2 -> aget (pcur p3) k = aget (pcur p2) k)
    by (intros k Hk; apply C5; rewrite sort_strs_In; exact Hk).
  clear C3 C4 C5.
  (* phase 4 *)
  destruct (del_fold_spec (sort_strs remk) p3) as (acts4 & D1 & D2 & D3 & D4 & D5).
  set (p4 := fold_left del_step (sort_strs remk) p3) in *.
  rewrite sort_strs_length in D2.
  assert (D3' : forall a, In a acts4 -> forall k, In k (act_keys a) -> In k remk)
    by (intros a Ha k Hk; eapply sort_strs_In, D3; eassumption).
  assert (D4' : forall k, In k remk -> aget (pcur p4) k = None)
    by (intros k Hk; apply D4, sort_strs_In, Hk).
  assert (D5' : forall k, ~ In k remk -> aget (pcur p4) k = aget (pcur p3) k)
    by (intros k Hk; apply D5; rewrite sort_strs_In; exact Hk).
  clear D3 D4 D5.
  (* assembling *)
  pose proof (ext_by_trans _ _ _ _ _ (ext_by_trans _ _ _ _ _ (ext_by_trans _ _ _ _ _ A1 B1) C1) D1)
    as (E1 & E2 & E3).
  cbn [p0 pacts pcur perr app] in E1, E2, E3.
  assert (Hnk2 : forall k, In k nk2 -> In k newk) by (intros k Hk; apply (B4 k Hk)).
  (* the value of every key at the end *)
  assert (Fin : forall k,
            aget (pcur p4) k =
            if in_dec str_dec k remk then None
            else if in_dec str_dec k newk then aget ra k
            else if in_dec str_dec k comk then aget ra k else aget la k).
  { intros k. destruct (in_dec str_dec k remk) as [Hr|Hr]; [apply D4', Hr|].
    rewrite D5' by exact Hr.
    destruct (in_dec str_dec k newk) as [Hn|Hn].
    - destruct (in_dec str_dec k nk2) as [Hn2|Hn2]; [apply C4', Hn2|].
      rewrite C5' by exact Hn2. apply B5; assumption.
    - rewrite C5' by (intros H; apply Hn, Hnk2, H). rewrite B6' by assumption.
      destruct (in_dec str_dec k comk) as [Hc|Hc]; [apply A4', Hc|apply A5', Hc]. }
  split; [exact E1|]. split; [rewrite E2; exact E3|].
  split.
  { intros k Hk. rewrite Fin.
    destruct (in_dec str_dec k remk) as [Hr|Hr].
    - apply Krem in Hr. destruct Hr as [_ Hr]. symmetry. apply aget_None.
      intros Hin. apply Hr, Krk. tauto.
    - destruct (in_dec str_dec k newk) as [Hn|Hn]; [reflexivity|].
      destruct (in_dec str_dec k comk) as [Hc|Hc]; [reflexivity|].
      (* k is in none of the three sets: absent on both sides *)
      destruct (in_dec str_dec k (map fst la)) as [Hl|Hl].
      + exfalso. assert (Hlk : In k lk) by (apply Klk; tauto).
        destruct (in_dec str_dec k rk) as [Hrk|Hrk]; [apply Hc, Kcom|apply Hr, Krem]; tauto.
      + destruct (in_dec str_dec k (map fst ra)) as [Hra|Hra].
        * exfalso. apply Hn, Knew. rewrite Krk, Klk. tauto.
        * apply aget_None in Hl, Hra. congruence. }
  split.
  { intros k Hk. rewrite Fin.
    destruct (in_dec str_dec k remk) as [Hr|Hr]; [apply Krem in Hr; rewrite Klk in Hr; tauto|].
    destruct (in_dec str_dec k newk) as [Hn|Hn]; [apply Knew in Hn; rewrite Krk in Hn; tauto|].
    destruct (in_dec str_dec k comk) as [Hc|Hc]; [apply Kcom in Hc; rewrite Klk in Hc; tauto|].
    reflexivity. }
  split.
  { intros a Ha k Hk. rewrite E2 in Ha.
    assert (Hset : In k comk \/ In k remk \/ In k newk).
    { rewrite !in_app_iff in Ha. destruct Ha as [[[Ha|Ha]|Ha]|Ha].
      - left. eapply A3'; eassumption.
      - right. eapply B3'; eassumption.
      - right. right. eapply C3'; eassumption.
      - right. left. eapply D3'; eassumption. }
    rewrite Kcom, Krem, Knew, Klk, Krk in Hset. tauto. }
  rewrite E2, !app_length.
  pose proof (common_removed_length ign la ra) as HL. fold comk remk lk in HL. fold lk newk. lia.
Qed.

(* the main theorem, in the shape requested *)
Theorem attr_script_sound :
  let '(acts, final) := attr_script ign la ra in
  run_strict la acts = Some final                              (* C05 *)
  /\ NoDup (map fst final)
  /\ (forall k, ~ In k ign -> aget final k = aget ra k)        (* C01 *)
  /\ (forall k, In k ign -> aget final k = aget la k)          (* C13 *)
  /\ Forall (fun a => forall k, In k (act_keys a) -> ~ In k ign) acts   (* C13 *)
  /\ eff_run la acts final                                     (* C05 + C17 *)
  /\ (forall pre a post, acts = pre ++ a :: post ->            (* C17, explicit *)
        exists m m', run_strict la pre = Some m /\ strict_attr_apply m a = Some m' /\
                     changes m m' /\ m <> m' /\ run_strict m' post = Some final)
  /\ length acts <= length la + length ra.                     (* C17 *)
Proof.
  unfold attr_script. destruct attr_run_sound as (S1 & S2 & S3 & S4 & S5 & S6).
  split; [apply eff_run_strict, S2|].
  split; [eapply run_strict_NoDup; [exact NDl|apply eff_run_strict, S2]|].
  split; [exact S3|]. split; [exact S4|].
  split; [apply Forall_forall; intros a Ha k Hk; apply (S5 a Ha k Hk)|].
  split; [exact S2|]. split; [apply eff_run_each, S2|].
  pose proof (left_keys_length ign la). 
  assert (length (new_keys ign la ra) <= length ra).
  { unfold new_keys. etransitivity; [apply filter_length_le|apply left_keys_length]. }
  lia.
Qed.

Theorem attr_run_no_failure : perr (attr_run ign la ra) = false.
Proof. apply attr_run_sound. Qed.

End Sound.

(* ====================================================================== *)
(** * 7. Consequences for Differ.upd_attr and for Spec.run_spec            *)
(* ====================================================================== *)

Lemma attr_eqb_true (a b : str * str) : attr_eqb a b = true -> a = b.
Proof.
  destruct a as [k v], b as [k' v']. unfold attr_eqb. cbn [fst snd]. intros H.
  apply andb_true_iff in H as [H1 H2]. apply str_eqb_true in H1, H2. congruence.
Qed.

Lemma attr_eqb_refl (a : str * str) : attr_eqb a a = true.
Proof. unfold attr_eqb. rewrite !str_eqb_refl. reflexivity. Qed.

Lemma lst_eqb_attr_true (l l' : list (str * str)) : lst_eqb attr_eqb l l' = true -> l = l'.
Proof.
  revert l'. induction l as [|x l IH]; intros [|y l'] H; cbn [lst_eqb] in H;
    try reflexivity; try discriminate.
  apply andb_true_iff in H as [H1 H2]. apply attr_eqb_true in H1. apply IH in H2. congruence.
Qed.

Lemma lst_eqb_attr_refl (l : list (str * str)) : lst_eqb attr_eqb l l = true.
Proof. induction l as [|x l IH]; [reflexivity|]. cbn [lst_eqb]. rewrite attr_eqb_refl, IH. reflexivity. Qed.

Lemma forallb_false_In {A} (f : A -> bool) (l : list A) (x : A) :
  In x l -> f x = false -> forallb f l = false.
Proof.
  intros HI Hf. destruct (forallb f l) eqn:E; [|reflexivity].
  rewrite forallb_forall in E. rewrite (E x HI) in Hf. discriminate.
Qed.

(* a strictly applicable AND effective attribute script passes Spec.run_checked:
   every action is applicable as documented and changes the document *)
Lemma run_checked_lift root n acts : forall f final,
  alive f root n = true -> is_elem f n = true ->
  eff_run (lattrs (labof f n)) acts final ->
  run_checked root f (map (lift n) acts) = Some (fold_left (apply_w n) acts f).
Proof.
  induction acts as [|a r IH]; intros f final Ha He H; cbn [map run_checked fold_left]; [reflexivity|].
  inversion H as [|? ? m ? ? E Hc Hr]; subst.
  rewrite spec_apply_lift, E by assumption. cbn [option_map].
  pose proof (strict_raw _ _ _ E) as Em.
  change (apply_w n f a) with (set_attrs_f f n (raw_attr_apply (lattrs (labof f n)) a)).
  rewrite <- Em.
  assert (Hdiff : same_doc root f (set_attrs_f f n m) = false).
  { unfold same_doc. apply andb_false_iff. right.
    apply forallb_false_In with (x := n).
    - unfold alive, mem in Ha. apply existsb_exists in Ha. destruct Ha as [y [Hy Ey]].
      apply Nat.eqb_eq in Ey. subst y. exact Hy.
    - apply andb_false_iff. right. unfold label_eqb. rewrite labof_set_attrs_f_same. cbn [lattrs].
      destruct (lst_eqb attr_eqb (lattrs (labof f n)) m) eqn:El.
      + apply lst_eqb_attr_true in El. exfalso. apply (changes_neq _ _ Hc). exact El.
      + rewrite andb_false_r. reflexivity. }
  rewrite Hdiff, orb_true_r. cbn [negb].
  destruct a; cbn [lift is_ns_action orb];
    (apply IH with (final := final);
     [rewrite alive_set_attrs_f; exact Ha
     |rewrite is_elem_set_attrs_f; exact He
     |rewrite labof_set_attrs_f_same; cbn [lattrs]; exact Hr]).
Qed.

Section UpdAttr.
Variables (ign : list str) (R : forest) (s : st) (ln rn : id).
Let la := cur_attrs s ln.
Let ra := lattrs (labof R rn).
Let s' := upd_attr ign R s ln rn.
Hypothesis NDl : NoDup (map fst la).
Hypothesis NDr : NoDup (map fst ra).

(* upd_attr is exactly attr_script lifted to the state; it never fails *)
Theorem upd_attr_correct :
  let '(acts, final) := attr_script ign la ra in
  out s' = out s ++ map (lift ln) acts /\
  cur_attrs s' ln = final /\
  serr s' = serr s /\
  W s' = fold_left (apply_w ln) acts (W s) /\
  attr_frame ln (W s) (W s') /\
  l2r s' = l2r s /\ r2l s' = r2l s /\ inoL s' = inoL s /\ inoR s' = inoR s.
Proof.
  unfold attr_script.
  destruct (upd_attr_lift ign R s ln rn) as (H1 & H2 & H3 & H4 & H5 & H6 & H7 & H8).
  fold la ra s' in H1, H2, H3, H4, H5, H6, H7, H8.
  split; [exact H1|]. split; [exact H3|].
  split; [rewrite H4, (attr_run_no_failure ign la ra NDl NDr), orb_false_r; reflexivity|].
  split; [exact H2|]. split; [rewrite H2; apply apply_w_fold_frame|]. auto.
Qed.

(* the emitted attribute actions, replayed by the documented (strict) meaning
   of the actions, lead exactly to the differ's working forest *)
Theorem upd_attr_run_spec root :
  alive (W s) root ln = true -> is_elem (W s) ln = true ->
  let acts := fst (attr_script ign la ra) in
  out s' = out s ++ map (lift ln) acts /\
  serr s' = serr s /\
  run_spec root (W s) (map (lift ln) acts) = Some (W s') /\
  run_checked root (W s) (map (lift ln) acts) = Some (W s').
Proof.
  intros Ha He. pose proof upd_attr_correct as H. unfold attr_script in *. cbn [fst].
  destruct H as (H1 & H2 & H3 & H4 & _).
  destruct (attr_run_sound ign la ra NDl NDr) as (_ & S2 & _).
  split; [exact H1|]. split; [exact H3|]. rewrite H4. split.
  - eapply run_spec_lift; [exact Ha|exact He|]. apply eff_run_strict. exact S2.
  - eapply run_checked_lift; [exact Ha|exact He|]. exact S2.
Qed.

Theorem upd_attr_final :
  NoDup (map fst (cur_attrs s' ln)) /\
  (forall k, ~ In k ign -> aget (cur_attrs s' ln) k = aget ra k) /\
  (forall k, In k ign -> aget (cur_attrs s' ln) k = aget la k) /\
  aeq (node_attribs_d ign (cur_attrs s' ln)) (node_attribs_d ign ra).
Proof.
  pose proof upd_attr_correct as H. pose proof (attr_script_sound ign la ra NDl NDr) as S.
  unfold attr_script in *. destruct H as (_ & H2 & _). rewrite H2.
  destruct S as (_ & S2 & S3 & S4 & _).
  split; [exact S2|]. split; [exact S3|]. split; [exact S4|].
  intros k. rewrite !aget_node_attribs. destruct (smem_spec k ign) as [Hi|Hi]; [reflexivity|].
  apply S3, Hi.
Qed.

End UpdAttr.

(* ---- sorted attribute lists (the form used by Forest.label_equivb) ---- *)

Lemma map_fst_insert_attr x l : map fst (insert_attr x l) = insert_str (fst x) (map fst l).
Proof.
  induction l as [|y r IH]; [reflexivity|]. cbn [insert_attr map insert_str].
  destruct (str_leb (fst x) (fst y)); [reflexivity|]. cbn [map]. rewrite IH. reflexivity.
Qed.

Lemma map_fst_sort_attrs l : map fst (sort_attrs l) = sort_strs (map fst l).
Proof.
  unfold sort_attrs, sort_strs. induction l as [|x l IH]; [reflexivity|].
  cbn [fold_right map]. rewrite map_fst_insert_attr, IH. reflexivity.
Qed.

Lemma insert_attr_perm x l : Permutation (x :: l) (insert_attr x l).
Proof.
  induction l as [|y r IH]; cbn [insert_attr]; [reflexivity|].
  destruct (str_leb (fst x) (fst y)); [reflexivity|].
  rewrite perm_swap. apply perm_skip. exact IH.
Qed.

Lemma sort_attrs_perm l : Permutation l (sort_attrs l).
Proof.
  unfold sort_attrs. induction l as [|x l IH]; cbn [fold_right]; [reflexivity|].
  rewrite <- insert_attr_perm. apply perm_skip. exact IH.
Qed.

Lemma keys_aeq_eq (l l' : list (str * str)) :
  map fst l = map fst l' -> NoDup (map fst l) -> aeq l l' -> l = l'.
Proof.
  revert l'. induction l as [|[k v] l IH]; intros [|[k' v'] l'] HK ND HE; cbn [map fst] in *;
    try reflexivity; try discriminate.
  injection HK as <- HK. inversion ND as [|? ? Hk ND']; subst.
  pose proof (HE k) as Ek. rewrite !aget_cons, str_eqb_refl in Ek. injection Ek as <-.
  f_equal. apply IH; [exact HK|exact ND'|].
  intros k0. destruct (str_dec k0 k) as [E|E].
  - subst k0. pose proof Hk as Hk'. rewrite HK in Hk'. apply aget_None in Hk, Hk'. congruence.
  - pose proof (HE k0) as E0. rewrite !aget_cons in E0.
    apply str_eqb_neq in E. rewrite E in E0. exact E0.
Qed.

(* two duplicate-free attribute lists denoting the same map sort to the same list *)
Lemma sort_attrs_aeq (a b : list (str * str)) :
  NoDup (map fst a) -> NoDup (map fst b) -> aeq a b -> sort_attrs a = sort_attrs b.
Proof.
  intros NDa NDb H. apply keys_aeq_eq.
  - rewrite !map_fst_sort_attrs. apply sort_strs_set_eq; try assumption.
    intros k. apply aeq_keys, H.
  - rewrite map_fst_sort_attrs. apply sort_strs_NoDup, NDa.
  - eapply aeq_trans; [apply aeq_sym, aget_perm; [exact NDa|apply sort_attrs_perm]|].
    eapply aeq_trans; [exact H|]. apply aget_perm; [exact NDb|apply sort_attrs_perm].
Qed.

Theorem upd_attr_final_sorted ign R s ln rn :
  NoDup (map fst (cur_attrs s ln)) -> NoDup (map fst (lattrs (labof R rn))) ->
  sort_attrs (node_attribs_d ign (cur_attrs (upd_attr ign R s ln rn) ln))
  = sort_attrs (node_attribs_d ign (lattrs (labof R rn))).
Proof.
  intros NDl NDr. destruct (upd_attr_final ign R s ln rn NDl NDr) as (F1 & _ & _ & F4).
  apply sort_attrs_aeq; [apply node_attribs_NoDup, F1|apply node_attribs_NoDup, NDr|exact F4].
Qed.

(* ====================================================================== *)
(** * 8. Independence of iteration order (C06)                             *)
(* ====================================================================== *)

(* same emitted actions, same failure flag, same final attributes as a finite map *)
Definition peq (p p' : pst) : Prop :=
  pacts p = pacts p' /\ aeq (pcur p) (pcur p') /\ perr p = perr p'.

Lemma peq_refl p : peq p p.
Proof. repeat split. Qed.

Lemma upd_step_peq ra ra' p p' k :
  aeq ra ra' -> peq p p' -> peq (upd_step ra p k) (upd_step ra' p' k).
Proof.
  intros Hra (H1 & H2 & H3). unfold upd_step. rewrite (H2 k), (Hra k).
  destruct (aget (pcur p') k) as [a|]; [|unfold peq; cbn [pacts pcur perr]; auto].
  destruct (aget ra' k) as [b|]; [|unfold peq; cbn [pacts pcur perr]; auto].
  destruct (str_eqb a b); [unfold peq; auto|].
  unfold peq. cbn [pacts pcur perr]. rewrite H1. split; [reflexivity|].
  split; [apply aput_aeq, H2|exact H3].
Qed.

Lemma Permutation_filter' {A} (f : A -> bool) (l l' : list A) :
  Permutation l l' -> Permutation (filter f l) (filter f l').
Proof.
  intros H. induction H as [|x l l' H IH|x y l|l l' l'' H1 IH1 H2 IH2]; cbn [filter].
  - constructor.
  - destruct (f x); [apply perm_skip|]; exact IH.
  - destruct (f x), (f y); try reflexivity. apply perm_swap.
  - etransitivity; eassumption.
Qed.

Definition req (x y : pst * list str * list (str * str)) : Prop :=
  peq (fst (fst x)) (fst (fst y)) /\ Permutation (snd (fst x)) (snd (fst y)) /\ aeq (snd x) (snd y).

Lemma ren_step_req x y k : req x y -> req (ren_step x k) (ren_step y k).
Proof.
  destruct x as [[p nk] nm], y as [[p' nk'] nm']. intros ((H1 & H2 & H3) & HP & HM).
  cbn [fst snd] in *. unfold ren_step. rewrite (H2 k).
  destruct (aget (pcur p') k) as [v|].
  - rewrite (HM v). destruct (aget nm' v) as [rk_|].
    + unfold req, peq. cbn [fst snd pacts pcur perr]. rewrite H1.
      split; [split; [reflexivity|split; [apply adel_aeq, aput_aeq, H2|exact H3]]|].
      split; [apply Permutation_filter', HP|apply adel_aeq, HM].
    + unfold req, peq. cbn [fst snd]. auto.
  - unfold req, peq. cbn [fst snd pacts pcur perr]. auto.
Qed.

Lemma ins_step_peq ra ra' p p' k :
  aeq ra ra' -> peq p p' -> peq (ins_step ra p k) (ins_step ra' p' k).
Proof.
  intros Hra (H1 & H2 & H3). unfold ins_step. rewrite (Hra k).
  destruct (aget ra' k) as [b|]; unfold peq; cbn [pacts pcur perr]; [|auto].
  rewrite H1. split; [reflexivity|]. split; [apply aput_aeq, H2|exact H3].
Qed.

Lemma del_step_peq p p' k : peq p p' -> peq (del_step p k) (del_step p' k).
Proof.
  intros (H1 & H2 & H3). unfold del_step. rewrite (ahas_aeq _ _ k H2).
  destruct (ahas (pcur p') k); unfold peq; cbn [pacts pcur perr]; [|auto].
  rewrite H1. split; [reflexivity|]. split; [apply adel_aeq, H2|exact H3].
Qed.

Lemma left_keys_perm ign l l' :
  NoDup (map fst l) -> NoDup (map fst l') -> aeq l l' ->
  Permutation (left_keys ign l) (left_keys ign l').
Proof.
  intros ND ND' H. apply NoDup_Permutation; try (apply left_keys_NoDup; assumption).
  intros k. rewrite !left_keys_In, (aeq_keys l l' k H). reflexivity.
Qed.

(* the general congruence: attr_run depends on the two attribute lists only
   through the finite maps they denote and through the value->key map
   newattrmap (the only place where the right node's document order matters) *)
Theorem attr_run_congr ign la la' ra ra' :
  NoDup (map fst la) -> NoDup (map fst la') -> NoDup (map fst ra) -> NoDup (map fst ra') ->
  aeq la la' -> aeq ra ra' ->
  aeq (newattrmap ra (new_keys ign la ra)) (newattrmap ra' (new_keys ign la' ra')) ->
  peq (attr_run ign la ra) (attr_run ign la' ra').
Proof.
  intros NDl NDl' NDr NDr' Hl Hr Hmap. unfold attr_run. cbv zeta.
  pose proof (left_keys_perm ign la la' NDl NDl' Hl) as Plk.
  pose proof (left_keys_perm ign ra ra' NDr NDr' Hr) as Prk.
  assert (In_lk : forall k, In k (left_keys ign la) <-> In k (left_keys ign la'))
    by (intros k; split; apply Permutation_in; [|symmetry]; exact Plk).
  assert (In_rk : forall k, In k (left_keys ign ra) <-> In k (left_keys ign ra'))
    by (intros k; split; apply Permutation_in; [|symmetry]; exact Prk).
  assert (Pcom : Permutation (common_keys ign la ra) (common_keys ign la' ra')).
  { apply NoDup_Permutation; try (apply NoDup_filter', left_keys_NoDup; assumption).
    intros k. rewrite !common_keys_In, In_lk, In_rk. reflexivity. }
  assert (Prem : Permutation (removed_keys ign la ra) (removed_keys ign la' ra')).
  { apply NoDup_Permutation; try (apply NoDup_filter', left_keys_NoDup; assumption).
    intros k. rewrite !removed_keys_In, In_lk, In_rk. reflexivity. }
  assert (Pnew : Permutation (new_keys ign la ra) (new_keys ign la' ra')).
  { apply NoDup_Permutation; try (apply NoDup_filter', left_keys_NoDup; assumption).
    intros k. rewrite !new_keys_In, In_lk, In_rk. reflexivity. }
  rewrite <- (sort_strs_perm_eq _ _ Pcom), <- (sort_strs_perm_eq _ _ Prem).
  (* phase 1 *)
  assert (L1 : peq (fold_left (upd_step ra) (sort_strs (common_keys ign la ra)) (P [] la false))
                   (fold_left (upd_step ra') (sort_strs (common_keys ign la ra)) (P [] la' false))).
  { apply (fold_left_rel peq).
    - intros a b k Hab. apply upd_step_peq; assumption.
    - unfold peq. cbn [pacts pcur perr]. auto. }
  (* phase 2 *)
  assert (L2 : req (fold_left ren_step (sort_strs (removed_keys ign la ra))
                      (fold_left (upd_step ra) (sort_strs (common_keys ign la ra)) (P [] la false),
                       new_keys ign la ra, newattrmap ra (new_keys ign la ra)))
                   (fold_left ren_step (sort_strs (removed_keys ign la ra))
                      (fold_left (upd_step ra') (sort_strs (common_keys ign la ra)) (P [] la' false),
                       new_keys ign la' ra', newattrmap ra' (new_keys ign la' ra')))).
  { apply (fold_left_rel req).
    - intros a b k Hab. apply ren_step_req, Hab.
    - unfold req. cbn [fst snd]. auto. }
  destruct (fold_left ren_step _ _) as [[p2 nk2] nm2].
  destruct (fold_left ren_step _ _) as [[p2' nk2'] nm2'].
  destruct L2 as (L2 & Pnk2 & _). cbn [fst snd] in L2, Pnk2.
  rewrite <- (sort_strs_perm_eq _ _ Pnk2).
  (* phases 3 and 4 *)
  apply (fold_left_rel peq); [intros a b k Hab; apply del_step_peq, Hab|].
  apply (fold_left_rel peq); [intros a b k Hab; apply ins_step_peq; assumption|exact L2].
Qed.

(* C06, left side: the document order of the LEFT node's attributes influences
   neither the emitted actions nor the final attribute map *)
Theorem attr_order_independent ign la la' ra :
  NoDup (map fst la) -> NoDup (map fst ra) -> Permutation la la' ->
  fst (attr_script ign la ra) = fst (attr_script ign la' ra) /\
  aeq (snd (attr_script ign la ra)) (snd (attr_script ign la' ra)) /\
  Permutation (snd (attr_script ign la ra)) (snd (attr_script ign la' ra)).
Proof.
  intros NDl NDr HP.
  assert (NDl' : NoDup (map fst la')).
  { eapply Permutation_NoDup; [apply Permutation_map; exact HP|exact NDl]. }
  pose proof (aget_perm la la' NDl HP) as Hl.
  assert (Enew : new_keys ign la ra = new_keys ign la' ra).
  { unfold new_keys. apply filter_ext. intros k. f_equal. apply smem_ext.
    rewrite !left_keys_In, (aeq_keys la la' k Hl). reflexivity. }
  destruct (attr_run_congr ign la la' ra ra NDl NDl' NDr NDr Hl (aeq_refl ra)) as (H1 & H2 & H3).
  { rewrite Enew. apply aeq_refl. }
  unfold attr_script. cbn [fst snd]. split; [exact H1|]. split; [exact H2|].
  apply aeq_perm; [| |exact H2].
  - destruct (attr_script_sound ign la ra NDl NDr) as (_ & S & _). exact S.
  - destruct (attr_script_sound ign la' ra NDl' NDr) as (_ & S & _). exact S.
Qed.

(* ---- right side ---- *)

(* the final attribute MAP does not depend on the order of the right node's
   attributes either (a consequence of soundness) ... *)
Theorem attr_order_right_final ign la ra ra' :
  NoDup (map fst la) -> NoDup (map fst ra) -> Permutation ra ra' ->
  aeq (snd (attr_script ign la ra)) (snd (attr_script ign la ra')).
Proof.
  intros NDl NDr HP.
  assert (NDr' : NoDup (map fst ra')).
  { eapply Permutation_NoDup; [apply Permutation_map; exact HP|exact NDr]. }
  pose proof (aget_perm ra ra' NDr HP) as Hr.
  pose proof (attr_script_sound ign la ra NDl NDr) as S.
  pose proof (attr_script_sound ign la ra' NDl NDr') as S'.
  unfold attr_script in *. cbn [snd].
  destruct S as (_ & _ & S3 & S4 & _). destruct S' as (_ & _ & S3' & S4' & _).
  intros k. destruct (in_dec str_dec k ign) as [Hi|Hi].
  - rewrite S4, S4' by exact Hi. reflexivity.
  - rewrite S3, S3' by exact Hi. apply Hr.
Qed.

(* ... but the emitted ACTIONS may: when two new right attributes carry the value
   of a removed left attribute, the LATER one (document order of the right node,
   which is deterministic) becomes the rename target. *)
Example attr_order_right_counterexample :
  let a := [97%N] in let b := [98%N] in let c := [99%N] in let one := [49%N] in
  fst (attr_script [] [(a, one)] [(b, one); (c, one)]) = [ARen a c; AIns b one] /\
  fst (attr_script [] [(a, one)] [(c, one); (b, one)]) = [ARen a b; AIns c one].
Proof. vm_compute. split; reflexivity. Qed.

(* the right node's order matters ONLY through newattrmap *)
Theorem attr_order_right_acts ign la ra ra' :
  NoDup (map fst la) -> NoDup (map fst ra) -> Permutation ra ra' ->
  aeq (newattrmap ra (new_keys ign la ra)) (newattrmap ra' (new_keys ign la ra')) ->
  fst (attr_script ign la ra) = fst (attr_script ign la ra').
Proof.
  intros NDl NDr HP Hmap.
  assert (NDr' : NoDup (map fst ra')).
  { eapply Permutation_NoDup; [apply Permutation_map; exact HP|exact NDr]. }
  destruct (attr_run_congr ign la la ra ra' NDl NDl NDr NDr' (aeq_refl la)
              (aget_perm ra ra' NDr HP) Hmap) as (H1 & _).
  exact H1.
Qed.

(* sufficient condition: the new right attributes have pairwise distinct values *)
Definition new_attrs (ign : list str) (la ra : list (str * str)) : list (str * str) :=
  filter (fun kv => smem (fst kv) (new_keys ign la ra)) ra.

Lemma newattrmap_complete ra newk k v :
  In (k, v) ra -> In k newk -> exists k', aget (newattrmap ra newk) v = Some k'.
Proof.
  intros HI Hk. unfold newattrmap.
  assert (G : forall l m, In (k, v) l \/ (exists k', aget m v = Some k') ->
     exists k', aget (fold_left (fun m kv => if smem (fst kv) newk then aput m (snd kv) (fst kv) else m) l m) v
                = Some k').
  { induction l as [|[k0 v0] l IH]; intros m H; cbn [fold_left].
    - destruct H as [[]|H]; exact H.
    - apply IH. cbn [fst snd]. destruct H as [[E|H]|[k' H]].
      + injection E as -> ->. right. apply smem_In in Hk. rewrite Hk.
        exists k. rewrite aget_aput, str_eqb_refl. reflexivity.
      + left. exact H.
      + right. destruct (smem k0 newk); [|eauto]. rewrite aget_aput.
        destruct (str_eqb v0 v); eauto. }
  apply G. left. exact HI.
Qed.

Lemma NoDup_snd_inj (l : list (str * str)) k k' v :
  NoDup (map snd l) -> In (k, v) l -> In (k', v) l -> k = k'.
Proof.
  induction l as [|[k0 v0] l IH]; intros ND H1 H2; [contradiction|].
  cbn [map snd] in ND. inversion ND as [|? ? Hv ND']; subst.
  assert (Hin : forall x, In (x, v0) l -> False).
  { intros x Hx. apply Hv. apply in_map_iff. exists (x, v0). split; [reflexivity|exact Hx]. }
  destruct H1 as [E1|H1], H2 as [E2|H2].
  - congruence.
  - injection E1 as -> ->. exfalso. eapply Hin, H2.
  - injection E2 as -> ->. exfalso. eapply Hin, H1.
  - apply IH; assumption.
Qed.

Lemma newattrmap_char ra newk v k :
  NoDup (map fst ra) ->
  NoDup (map snd (filter (fun kv => smem (fst kv) newk) ra)) ->
  (aget (newattrmap ra newk) v = Some k <-> In (k, v) ra /\ In k newk).
Proof.
  intros ND NDv. split.
  - intros H. destruct (newattrmap_sound ra newk v k ND H) as [H1 H2].
    split; [apply aget_Some_In, H2|exact H1].
  - intros [H1 H2]. destruct (newattrmap_complete ra newk k v H1 H2) as [k' Hk'].
    destruct (newattrmap_sound ra newk v k' ND Hk') as [H3 H4]. apply aget_Some_In in H4.
    rewrite Hk'. f_equal. eapply NoDup_snd_inj; [exact NDv| |].
    + apply filter_In. cbn [fst]. split; [exact H4|apply smem_In, H3].
    + apply filter_In. cbn [fst]. split; [exact H1|apply smem_In, H2].
Qed.

Theorem attr_order_right_distinct ign la ra ra' :
  NoDup (map fst la) -> NoDup (map fst ra) -> Permutation ra ra' ->
  NoDup (map snd (new_attrs ign la ra)) ->
  fst (attr_script ign la ra) = fst (attr_script ign la ra').
Proof.
  intros NDl NDr HP NDv. apply attr_order_right_acts; try assumption.
  assert (NDr' : NoDup (map fst ra')).
  { eapply Permutation_NoDup; [apply Permutation_map; exact HP|exact NDr]. }
  pose proof (aget_perm ra ra' NDr HP) as Hr.
  assert (Inew : forall k, In k (new_keys ign la ra) <-> In k (new_keys ign la ra')).
  { intros k. rewrite !new_keys_In, !left_keys_In, (aeq_keys ra ra' k Hr). reflexivity. }
  assert (NDv' : NoDup (map snd (filter (fun kv => smem (fst kv) (new_keys ign la ra')) ra'))).
  { eapply Permutation_NoDup; [|exact NDv]. apply Permutation_map. unfold new_attrs.
    rewrite (filter_ext (fun kv => smem (fst kv) (new_keys ign la ra))
                        (fun kv => smem (fst kv) (new_keys ign la ra'))).
    - apply Permutation_filter', HP.
    - intros kv. apply smem_ext, Inew. }
  assert (Hin : forall k v, In (k, v) ra <-> In (k, v) ra').
  { intros k v. split; apply Permutation_in; [|symmetry]; exact HP. }
  intros v.
  destruct (aget (newattrmap ra (new_keys ign la ra)) v) as [k|] eqn:E1.
  - apply (newattrmap_char _ _ _ _ NDr NDv) in E1. symmetry.
    apply (newattrmap_char _ _ _ _ NDr' NDv'). rewrite <- Hin, <- Inew. exact E1.
  - destruct (aget (newattrmap ra' (new_keys ign la ra')) v) as [k|] eqn:E2; [|reflexivity].
    apply (newattrmap_char _ _ _ _ NDr' NDv') in E2. rewrite <- Hin, <- Inew in E2.
    apply (newattrmap_char _ _ _ _ NDr NDv) in E2. congruence.
Qed.

(* ---- Python set iteration order ---- *)

(* attr_run with the three key sets enumerated in ARBITRARY orders (Python's
   set objects common_keys / removed_keys / new_keys have no specified order) *)
Definition attr_run_on (comk remk newk : list str) (la ra : list (str * str)) : pst :=
  let p1 := fold_left (upd_step ra) (sort_strs comk) (P [] la false) in
  let '(p2, newk2, _) := fold_left ren_step (sort_strs remk) (p1, newk, newattrmap ra newk) in
  let p3 := fold_left (ins_step ra) (sort_strs newk2) p2 in
  fold_left del_step (sort_strs remk) p3.

Lemma attr_run_on_eq ign la ra :
  attr_run ign la ra =
  attr_run_on (common_keys ign la ra) (removed_keys ign la ra) (new_keys ign la ra) la ra.
Proof. reflexivity. Qed.

Lemma fold_left_ext_fn {A B} (f g : A -> B -> A) :
  (forall a b, f a b = g a b) -> forall l a, fold_left f l a = fold_left g l a.
Proof.
  intros H l. induction l as [|b l IH]; intros a; cbn [fold_left]; [reflexivity|].
  rewrite H. apply IH.
Qed.

Lemma newattrmap_perm ra newk newk' :
  Permutation newk newk' -> newattrmap ra newk = newattrmap ra newk'.
Proof.
  intros HP. unfold newattrmap. apply fold_left_ext_fn. intros m kv.
  rewrite (smem_ext (fst kv) newk newk'); [reflexivity|].
  split; apply Permutation_in; [|symmetry]; exact HP.
Qed.

Definition req_strict (x y : pst * list str * list (str * str)) : Prop :=
  fst (fst x) = fst (fst y) /\ Permutation (snd (fst x)) (snd (fst y)) /\ snd x = snd y.

Lemma ren_step_req_strict x y k : req_strict x y -> req_strict (ren_step x k) (ren_step y k).
Proof.
  destruct x as [[p nk] nm], y as [[p' nk'] nm']. intros (H1 & HP & HM).
  cbn [fst snd] in *. subst p' nm'. unfold ren_step.
  destruct (aget (pcur p) k) as [v|]; [|unfold req_strict; cbn [fst snd]; auto].
  destruct (aget nm v) as [rk_|]; unfold req_strict; cbn [fst snd]; [|auto].
  split; [reflexivity|]. split; [apply Permutation_filter', HP|reflexivity].
Qed.

(* C06: whatever order the Python sets are iterated in, every loop runs over
   sorted(...), so the result is literally the same *)
Theorem attr_set_order_independent comk comk' remk remk' newk newk' la ra :
  Permutation comk comk' -> Permutation remk remk' -> Permutation newk newk' ->
  attr_run_on comk remk newk la ra = attr_run_on comk' remk' newk' la ra.
Proof.
  intros Pc Pr Pn. unfold attr_run_on. cbv zeta.
  rewrite <- (sort_strs_perm_eq _ _ Pc), <- (sort_strs_perm_eq _ _ Pr),
          <- (newattrmap_perm ra _ _ Pn).
  set (p1 := fold_left (upd_step ra) (sort_strs comk) (P [] la false)).
  assert (L2 : req_strict (fold_left ren_step (sort_strs remk) (p1, newk, newattrmap ra newk))
                          (fold_left ren_step (sort_strs remk) (p1, newk', newattrmap ra newk))).
  { apply (fold_left_rel req_strict).
    - intros a b k Hab. apply ren_step_req_strict, Hab.
    - unfold req_strict. cbn [fst snd]. auto. }
  destruct (fold_left ren_step _ _) as [[p2 nk2] nm2].
  destruct (fold_left ren_step _ _) as [[p2' nk2'] nm2'].
  destruct L2 as (E & Pnk2 & _). cbn [fst snd] in E, Pnk2. subst p2'.
  rewrite <- (sort_strs_perm_eq _ _ Pnk2). reflexivity.
Qed.


(* ====================================================================== *)
(** * 9. The subtle cases, computed (each was replayed on the Python
       implementation with main.diff_trees and gives the same script)     *)
(* ====================================================================== *)

Section Examples.
Let a := [97%N]. Let b := [98%N]. Let c := [99%N]. Let d := [100%N].
Let i := [105%N]. Let j := [106%N]. Let n := [110%N]. Let x := [120%N].
Let one := [49%N]. Let two := [50%N]. Let nine := [57%N].

(* two removed left attributes with the same value, two new right attributes with
   that value: ONE rename (to the later new key), one insert, one delete *)
Example ex_same_values :
  attr_script [] [(a, one); (b, one)] [(c, one); (d, one)]
  = ([ARen a d; AIns c one; ADel b], [(d, one); (c, one)]).
Proof. vm_compute. reflexivity. Qed.

(* a value shared between a common key (after its update) and a removed key:
   newattrmap only contains NEW keys, so no rename happens *)
Example ex_common_value :
  attr_script [] [(a, one); (x, two)] [(x, one); (n, two)]
  = ([AUpd x one; AIns n two; ADel a], [(x, one); (n, two)]).
Proof. vm_compute. reflexivity. Qed.

(* ignored attributes present on one side only are neither deleted nor inserted *)
Example ex_ignored :
  attr_script [i; j] [(a, one); (i, nine)] [(b, one); (j, nine)]
  = ([ARen a b], [(i, nine); (b, one)]).
Proof. vm_compute. reflexivity. Qed.
End Examples.
