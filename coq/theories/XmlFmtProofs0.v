(* XmlFmtProofs0 -- whitespace normalisation (utils.cleanup_whitespace(..).strip(), as
   XMLFormatter._make_diff_tags applies it when normalize & WS_TEXT) is idempotent.
   No axioms. *)
From Coq Require Import List NArith Bool Arith Lia.
Import ListNotations.
Require Import XV.Str XV.StrProofs.
Local Open Scope N_scope.

Definition norm_ws (x : str) : str := Str.strip (cleanup_whitespace x).

Lemma lstrip_split v : exists sp, v = sp ++ lstrip v /\ Forall (fun c => is_space c = true) sp.
Proof.
  induction v as [|c r (sp & E & F)]; [exists []; split; [reflexivity|constructor]|].
  cbn [lstrip]. destruct (is_space c) eqn:Ec.
  - exists (c :: sp). split; [cbn; f_equal; exact E|constructor; assumption].
  - exists []. split; [reflexivity|constructor].
Qed.

Lemma lstrip_head v : match lstrip v with [] => True | c :: _ => is_space c = false end.
Proof.
  induction v as [|c r IH]; [exact I|]. cbn [lstrip]. destruct (is_space c) eqn:Ec; [exact IH|exact Ec].
Qed.

Lemma lstrip_fix v : match v with [] => True | c :: _ => is_space c = false end -> lstrip v = v.
Proof. destruct v as [|c r]; [reflexivity|]. cbn [lstrip]. intros ->. reflexivity. Qed.

Lemma lstrip_idem v : lstrip (lstrip v) = lstrip v.
Proof. apply lstrip_fix, lstrip_head. Qed.

Lemma rstrip_split u : exists sp, u = rstrip u ++ sp /\ Forall (fun c => is_space c = true) sp.
Proof.
  unfold rstrip. destruct (lstrip_split (rev u)) as (sp & E & F).
  exists (rev sp). split.
  - rewrite <- rev_app_distr, <- E, rev_involutive. reflexivity.
  - apply Forall_rev. exact F.
Qed.

(* every whitespace character is a single space, never two in a row *)
Fixpoint wn (prev_sp : bool) (s : str) : Prop :=
  match s with
  | [] => True
  | c :: r => if is_space c then c = 32 /\ prev_sp = false /\ wn true r else wn false r
  end.

Lemma wn_weaken s : wn true s -> wn false s.
Proof. destruct s as [|c r]; [auto|]. cbn. destruct (is_space c); [intros (_ & H & _); discriminate|auto]. Qed.

Lemma cleanup_wn x : forall b, wn b (cleanup_ws_aux b x).
Proof.
  induction x as [|c r IH]; intros b; cbn [cleanup_ws_aux]; [exact I|].
  destruct (is_space c) eqn:Ec.
  - destruct b; [apply IH|]. cbn [wn]. change (is_space 32) with true. cbv iota. auto.
  - cbn [wn]. rewrite Ec. apply IH.
Qed.

Lemma cleanup_fix s : forall b, wn b s -> cleanup_ws_aux b s = s.
Proof.
  induction s as [|c r IH]; intros b H; cbn [cleanup_ws_aux wn] in *; [reflexivity|].
  destruct (is_space c).
  - destruct H as (-> & -> & H). f_equal. apply IH, H.
  - f_equal. apply IH, H.
Qed.

Lemma wn_prefix p q : forall b, wn b (p ++ q) -> wn b p.
Proof.
  induction p as [|c r IH]; intros b H; cbn [app wn] in *; [exact I|].
  destruct (is_space c); [destruct H as (H1 & H2 & H3); eauto|eauto].
Qed.

Lemma wn_lstrip s : wn false s -> wn false (lstrip s).
Proof.
  induction s as [|c r IH]; intros H; cbn [lstrip]; [exact I|].
  destruct (is_space c) eqn:Ec; [|exact H].
  cbn [wn] in H. rewrite Ec in H. destruct H as (_ & _ & H). apply IH, wn_weaken, H.
Qed.

Lemma rstrip_head u : lstrip u = u -> lstrip (rstrip u) = rstrip u.
Proof.
  intros H. destruct (rstrip_split u) as (sp & E & _).
  apply lstrip_fix. destruct (rstrip u) as [|c r] eqn:Er; [exact I|].
  rewrite E in H. cbn [app] in H. pose proof (lstrip_head (c :: r ++ sp)) as Hh. rewrite H in Hh. exact Hh.
Qed.

Theorem norm_ws_idem x : norm_ws (norm_ws x) = norm_ws x.
Proof.
  unfold norm_ws at 1. set (z := norm_ws x).
  assert (Hz : z = rstrip (lstrip (cleanup_whitespace x))) by reflexivity.
  assert (W : wn false z).
  { rewrite Hz. destruct (rstrip_split (lstrip (cleanup_whitespace x))) as (sp & E & _).
    apply (wn_prefix _ sp). rewrite <- E. apply wn_lstrip. apply cleanup_wn. }
  unfold cleanup_whitespace at 1. rewrite (cleanup_fix z false W).
  apply strip_fix.
  - rewrite Hz. apply rstrip_head, lstrip_idem.
  - rewrite Hz. unfold rstrip. rewrite rev_involutive. apply lstrip_idem.
Qed.
