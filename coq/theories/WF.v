(* WF.v -- hypotheses and conclusions of the differ theorems (definitions, their
   boolean versions and the reflection lemmas; no big proofs).

   Exported, in plain words:
   - [desc f a n]       : n is a descendant-or-self of a in the forest f;
   - [wf_forest f root] : the part of f below root is a finite tree and the
                          forest is tidy: all ids in use are < fnext, child lists
                          have no duplicates, a node has at most one parent, the
                          root has none, is an element and has no tail (the tail
                          of the root lies outside the document; the documented
                          UpdateTextAfter is not applicable to the root), comments
                          have neither children nor attributes, attribute keys
                          are distinct.
                          (Everything is stated for ids < fnext: the total maps
                          of a forest are unconstrained above fnext, and [alloc]
                          resets the slot it takes.)
   - [valid_matching L R rootL rootR m] : what the matcher theorem (C07) delivers;
   - [forest_ext_eq], [doc_tree], [doc_equiv];
   - [wf_forestb], [valid_matchingb] with
       wf_forestb_sound      : wf_forestb f root = true -> wf_forest f root
       valid_matchingb_sound : valid_matchingb .. = true -> valid_matching ..
   - Example [ex_forest_wf] on a concrete 5-node forest built with mk_forest. *)
From Coq Require Import List NArith Arith Bool Lia.
Import ListNotations.
Require Import XV.Str XV.Forest XV.Matcher XV.Differ XV.Spec.

(* ---------- reachability ---------- *)
Inductive desc (f : forest) (a : id) : id -> Prop :=
| desc_refl : desc f a a
| desc_step b c : desc f a b -> In c (fkids f b) -> desc f a c.

(* ---------- well-formed forests ---------- *)
Record wf_forest (f : forest) (root : id) : Prop := {
  wf_root_lt : root < fnext f;
  wf_kids_lt : forall p c, p < fnext f -> In c (fkids f p) -> c < fnext f;
  wf_kids_nodup : forall p, p < fnext f -> NoDup (fkids f p);
  wf_uparent : forall p q c, p < fnext f -> q < fnext f ->
               In c (fkids f p) -> In c (fkids f q) -> p = q;
  wf_root_top : forall p, p < fnext f -> ~ In root (fkids f p);
  wf_root_elem : is_comment (ltag (flab f root)) = false;
  wf_root_tail : ltail (flab f root) = None;
  wf_comment : forall n, n < fnext f -> is_comment (ltag (flab f n)) = true ->
               fkids f n = [] /\ lattrs (flab f n) = [];
  wf_attrs : forall n, n < fnext f -> NoDup (map fst (lattrs (flab f n)))
}.

(* ---------- valid matchings ---------- *)
Definition valid_matching (L R : forest) (rootL rootR : id) (m : list (id * id)) : Prop :=
  NoDup (map fst m) /\ NoDup (map snd m) /\ In (rootL, rootR) m /\
  (forall l r, In (l, r) m -> desc L rootL l /\ desc R rootR r) /\
  (forall l r, In (l, r) m -> (l, r) <> (rootL, rootR) ->
               is_comment (ltag (flab L l)) = is_comment (ltag (flab R r))).

(* ---------- conclusions ---------- *)
Definition forest_ext_eq (T W : forest) : Prop :=
  fnext T = fnext W /\ (forall n, fkids T n = fkids W n) /\ (forall n, flab T n = flab W n).

Definition doc_tree (f : forest) (root : id) : tree := to_tree (S (fnext f)) f root.

(* the document below rootL in W IS the document below rootR in R, up to ignored
   attributes, attribute order, None/"" texts and the tail of the root *)
Definition doc_equiv (ignored : list str) (W : forest) (rootL : id) (R : forest) (rootR : id) : Prop :=
  tree_equivb (tree_map_attrs (node_attribs_d ignored) (doc_tree W rootL))
              (tree_map_attrs (node_attribs_d ignored) (doc_tree R rootR)) = true.

(* ---------- boolean versions ---------- *)
Fixpoint nodupb {A} (eqb : A -> A -> bool) (l : list A) : bool :=
  match l with
  | [] => true
  | x :: r => negb (existsb (eqb x) r) && nodupb eqb r
  end.

Definition all_kids (f : forest) : list id := flat_map (fkids f) (seq 0 (fnext f)).

Definition is_nil {A} (l : list A) : bool := match l with [] => true | _ => false end.

Definition label_okb (f : forest) (n : id) : bool :=
  (negb (is_comment (ltag (flab f n))) || (is_nil (fkids f n) && is_nil (lattrs (flab f n))))
  && nodupb str_eqb (map fst (lattrs (flab f n))).

Definition wf_forestb (f : forest) (root : id) : bool :=
  Nat.ltb root (fnext f)
  && forallb (fun c => Nat.ltb c (fnext f)) (all_kids f)
  && nodupb Nat.eqb (all_kids f)
  && negb (mem root (all_kids f))
  && negb (is_comment (ltag (flab f root)))
  && match ltail (flab f root) with None => true | Some _ => false end
  && forallb (label_okb f) (seq 0 (fnext f)).

Definition valid_matchingb (L R : forest) (rootL rootR : id) (m : list (id * id)) : bool :=
  nodupb Nat.eqb (map fst m) && nodupb Nat.eqb (map snd m)
  && existsb (fun p => Nat.eqb (fst p) rootL && Nat.eqb (snd p) rootR) m
  && forallb (fun p => alive L rootL (fst p) && alive R rootR (snd p)
                       && ((Nat.eqb (fst p) rootL && Nat.eqb (snd p) rootR)
                           || Bool.eqb (is_comment (ltag (flab L (fst p))))
                                       (is_comment (ltag (flab R (snd p)))))) m.

(* ---------- reflection ---------- *)
Lemma streqb_true (a b : str) : str_eqb a b = true -> a = b.
Proof.
  revert b; induction a as [|x a IH]; intros [|y b] H; cbn [str_eqb] in H;
    try reflexivity; try discriminate.
  apply andb_true_iff in H as [H1 H2].
  apply N.eqb_eq in H1. apply IH in H2. subst. reflexivity.
Qed.

Lemma streqb_refl (a : str) : str_eqb a a = true.
Proof.
  induction a as [|x a IH]; [reflexivity|].
  cbn [str_eqb]. rewrite N.eqb_refl, IH. reflexivity.
Qed.

Lemma streqb_eq (a b : str) : str_eqb a b = true <-> a = b.
Proof. split; [apply streqb_true|]. intros ->. apply streqb_refl. Qed.

Lemma nodupb_sound {A} (eqb : A -> A -> bool) :
  (forall a b, a = b -> eqb a b = true) ->
  forall l, nodupb eqb l = true -> NoDup l.
Proof.
  intros Heq l; induction l as [|x r IH]; intros H; [constructor|].
  cbn [nodupb] in H. apply andb_true_iff in H as [H1 H2].
  constructor; [|apply IH; exact H2].
  intros Hin. apply negb_true_iff in H1.
  assert (Hex : existsb (eqb x) r = true).
  { apply existsb_exists. exists x. split; [exact Hin|apply Heq; reflexivity]. }
  rewrite Hex in H1. discriminate.
Qed.

Lemma mem_In x l : mem x l = true <-> In x l.
Proof.
  unfold mem. rewrite existsb_exists. split.
  - intros (y & Hy & E). apply Nat.eqb_eq in E. subst. exact Hy.
  - intros H. exists x. split; [exact H|apply Nat.eqb_refl].
Qed.

Lemma mem_false x l : mem x l = false <-> ~ In x l.
Proof.
  rewrite <- mem_In. destruct (mem x l); split; intros H; try reflexivity; try discriminate.
  exfalso; apply H; reflexivity.
Qed.

Lemma NoDup_app_iff {A} (a b : list A) :
  NoDup (a ++ b) <-> NoDup a /\ NoDup b /\ (forall x, In x a -> In x b -> False).
Proof.
  induction a as [|x a IH]; cbn.
  - split; [intros H; split; [constructor|split; [exact H|intros ? []]]|intros (_ & H & _); exact H].
  - split.
    + intros H. inversion H as [|? ? Hn Hnd]; subst. apply IH in Hnd as (Ha & Hb & Hd).
      split; [constructor; [intros Hin; apply Hn; apply in_or_app; left; exact Hin|exact Ha]|].
      split; [exact Hb|]. intros y [<-|Hy] Hyb.
      * apply Hn. apply in_or_app. right; exact Hyb.
      * eapply Hd; eauto.
    + intros (Ha & Hb & Hd). inversion Ha as [|? ? Hn Hnd]; subst. constructor.
      * intros Hin. apply in_app_or in Hin as [Hin|Hin]; [apply Hn; exact Hin|].
        eapply Hd; [left; reflexivity|exact Hin].
      * apply IH. split; [exact Hnd|]. split; [exact Hb|]. intros y Hy. apply Hd. right; exact Hy.
Qed.

Lemma NoDup_flat_map_inv {A B} (g : A -> list B) (l : list A) :
  NoDup (flat_map g l) ->
  (forall x, In x l -> NoDup (g x)) /\
  (forall x y b, In x l -> In y l -> In b (g x) -> In b (g y) -> NoDup l -> x = y).
Proof.
  induction l as [|a l IH]; cbn [flat_map]; intros H.
  - split; intros; contradiction.
  - apply NoDup_app_iff in H as (Ha & Hl & Hdisj).
    destruct (IH Hl) as [IH1 IH2].
    split.
    + intros x [->|Hx]; [exact Ha|apply IH1; exact Hx].
    + intros x y b [->|Hx] [->|Hy] Hbx Hby Hnd; try reflexivity.
      * exfalso. eapply Hdisj; [exact Hbx|]. apply in_flat_map. exists y; split; assumption.
      * exfalso. eapply Hdisj; [exact Hby|]. apply in_flat_map. exists x; split; assumption.
      * inversion Hnd; subst. eapply IH2; eauto.
Qed.

Lemma subtree_desc k : forall f a n, In n (subtree k f a) -> desc f a n.
Proof.
  induction k as [|k IH]; intros f a n H; cbn [subtree] in H; [contradiction|].
  destruct H as [<-|H]; [constructor|].
  apply in_flat_map in H as (c & Hc & Hn).
  apply IH in Hn. clear - Hc Hn.
  induction Hn as [|b c' Hd IHd Hin].
  - eapply desc_step; [constructor|exact Hc].
  - eapply desc_step; [exact IHd|exact Hin].
Qed.

Lemma alive_desc f root n : alive f root n = true -> desc f root n.
Proof. unfold alive, doc_nodes. rewrite mem_In. apply subtree_desc. Qed.

Lemma wf_forestb_sound f root : wf_forestb f root = true -> wf_forest f root.
Proof.
  unfold wf_forestb. intros H.
  repeat (apply andb_true_iff in H as [H ?]).
  rename H into Hroot, H5 into Hlt, H4 into Hnd, H3 into Htop, H2 into Helem, H1 into Htail, H0 into Hlab.
  apply Nat.ltb_lt in Hroot.
  rewrite forallb_forall in Hlt.
  apply (nodupb_sound Nat.eqb) in Hnd; [|intros a b ->; apply Nat.eqb_refl].
  apply negb_true_iff, mem_false in Htop.
  apply negb_true_iff in Helem.
  rewrite forallb_forall in Hlab.
  destruct (NoDup_flat_map_inv _ _ Hnd) as [Hnd1 Hnd2].
  assert (Hseq : forall p, p < fnext f -> In p (seq 0 (fnext f))) by (intros p Hp; apply in_seq; lia).
  assert (Hall : forall p c, p < fnext f -> In c (fkids f p) -> In c (all_kids f)).
  { intros p c Hp Hc. apply in_flat_map. exists p. split; [apply Hseq; exact Hp|exact Hc]. }
  constructor.
  - exact Hroot.
  - intros p c Hp Hc. apply Nat.ltb_lt. apply Hlt. eapply Hall; eauto.
  - intros p Hp. apply Hnd1, Hseq, Hp.
  - intros p q c Hp Hq Hcp Hcq. eapply Hnd2; eauto. apply seq_NoDup.
  - intros p Hp Hin. apply Htop. eapply Hall; eauto.
  - exact Helem.
  - destruct (ltail (flab f root)); [discriminate|reflexivity].
  - intros n Hn Hc. specialize (Hlab n (Hseq n Hn)). unfold label_okb in Hlab.
    apply andb_true_iff in Hlab as [Hl _]. rewrite Hc in Hl. cbn in Hl.
    apply andb_true_iff in Hl as [H1 H2].
    split; [destruct (fkids f n)|destruct (lattrs (flab f n))]; try reflexivity; discriminate.
  - intros n Hn. specialize (Hlab n (Hseq n Hn)). unfold label_okb in Hlab.
    apply andb_true_iff in Hlab as [_ Hl].
    apply (nodupb_sound str_eqb); [|exact Hl]. intros a b ->. apply streqb_refl.
Qed.

Lemma valid_matchingb_sound L R rootL rootR m :
  valid_matchingb L R rootL rootR m = true -> valid_matching L R rootL rootR m.
Proof.
  unfold valid_matchingb. intros H.
  repeat (apply andb_true_iff in H as [H ?]).
  rename H0 into H4, H1 into H3. rename H into H1.
  unfold valid_matching.
  split; [apply (nodupb_sound Nat.eqb); [intros a b ->; apply Nat.eqb_refl|exact H1]|].
  split; [apply (nodupb_sound Nat.eqb); [intros a b ->; apply Nat.eqb_refl|exact H2]|].
  split.
  { apply existsb_exists in H3 as ([l r] & Hin & E). cbn in E.
    apply andb_true_iff in E as [E1 E2]. apply Nat.eqb_eq in E1, E2. subst. exact Hin. }
  rewrite forallb_forall in H4.
  split.
  - intros l r Hin. specialize (H4 _ Hin). cbn in H4.
    apply andb_true_iff in H4 as [H4 _]. apply andb_true_iff in H4 as [Ha Hb].
    split; apply alive_desc; assumption.
  - intros l r Hin Hne. specialize (H4 _ Hin). cbn in H4.
    apply andb_true_iff in H4 as [_ H4]. apply orb_true_iff in H4 as [H4|H4].
    + apply andb_true_iff in H4 as [E1 E2]. apply Nat.eqb_eq in E1, E2. subst. congruence.
    + apply eqb_prop in H4. exact H4.
Qed.

(* ---------- a concrete example ----------
   <a x="1">t<b/><!--c-->u<d><e/></d></a>   ids in document order *)
Definition ex_forest : forest :=
  mk_forest [(0, [1; 2; 3]); (3, [4])]
            [(0, Lab (TElem [97%N]) [([120%N], [49%N])] (Some [116%N]) None);
             (1, Lab (TElem [98%N]) [] None None);
             (2, Lab TComment [] (Some [99%N]) (Some [117%N]));
             (3, Lab (TElem [100%N]) [] None None);
             (4, Lab (TElem [101%N]) [] None None)] 5.

Example ex_forest_wf : wf_forest ex_forest 0.
Proof. apply wf_forestb_sound. vm_compute. reflexivity. Qed.

Example ex_matching_valid : valid_matching ex_forest ex_forest 0 0 [(1, 1); (2, 2); (4, 4); (0, 0)].
Proof. apply valid_matchingb_sound. vm_compute. reflexivity. Qed.
