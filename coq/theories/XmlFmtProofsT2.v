(* XmlFmtProofsT2 -- the premises of XmlFmtProofsT1.text_update_flat as booleans (sound), the table invariants of the
   maker prepare() returns (from the PlaceholderMaker proofs), and a run-level evaluation used by
   harness/xmlfmt_corr.py: at every text update of a run of the model, the premises and both flattened readings.
   No axioms. *)
From Coq Require Import List NArith ZArith Bool Arith Lia.
Import ListNotations.
Require Import XV.Str XV.Json XV.TextFormat XV.Forest XV.Matcher XV.Differ XV.Path XV.WF XV.AttrProofs XV.XmlFmt XV.Projections
               XV.XmlFmtProofs1 XV.XmlFmtProofs2 XV.XmlFmtProofsR2 XV.XmlFmtProofs3 XV.XmlFmtProofs4 XV.XmlFmtProofsT1.
Require XV.Placeholder XV.PlaceholderProofs XV.PlaceholderRound XV.PlaceholderUndo XV.PlaceholderFinal.
Require XV.DMP.
Local Open Scope N_scope.

Lemma p2t_get_In l c e : p2t_get l c = Some e -> In (c, e) l.
Proof.
  induction l as [|[c' e'] l IH]; cbn [Placeholder.p2t_get]; [discriminate|].
  destruct (N.eqb_spec c c'); [intros H; inversion H; subst; now left|intros H; right; auto].
Qed.
Lemma t2p_get_In l k c : t2p_get l k = Some c -> In (k, c) l.
Proof.
  induction l as [|[k' c'] l IH]; cbn [Placeholder.t2p_get]; [discriminate|].
  destruct (Placeholder.key_eqb k k') eqn:E; [apply PlaceholderProofs.key_eqb_eq in E; intros H; inversion H; subst; now left|intros H; right; auto].
Qed.

Definition in_base (c : N) : bool := existsb (N.eqb c) base4.
Lemma in_base_false c : in_base c = false -> ~ In c base4.
Proof.
  unfold in_base. intros H Hin. assert (existsb (N.eqb c) base4 = true); [|congruence].
  apply existsb_exists. exists c. split; [exact Hin|apply N.eqb_refl].
Qed.
Lemma in_base_true c : in_base c = true -> In c base4.
Proof. unfold in_base. intros H. apply existsb_exists in H as (x & Hx & E). apply N.eqb_eq in E. now subst. Qed.

Definition txt_okb (s : pstate) (c : N) : bool :=
  negb (in_base c) &&
  match p2t_get (p2t s) c with
  | Some (el, Placeholder.TSingle, _) => negb (marked true (xattrs el)) && negb (marked false (xattrs el))
  | Some _ => true
  | None => okc c
  end.
Lemma txt_okb_sound s c : txt_okb s c = true -> txt_ok s c.
Proof.
  unfold txt_okb, txt_ok. intros H. apply andb_true_iff in H as [H1 H2]. apply negb_true_iff in H1.
  split; [apply in_base_false, H1|]. destruct (p2t_get (p2t s) c) as [[[el ty] cl]|]; [|exact H2].
  destruct ty; try exact I. apply andb_true_iff in H2 as [A B]. apply negb_true_iff in A, B. auto.
Qed.

Definition capartb (s : pstate) : bool :=
  forallb (fun ce : N * Placeholder.entry =>
             match ce with
             | (c0, (_, Placeholder.TOpen, Some cl)) => in_base c0 || negb (in_base cl)
             | _ => true
             end) (p2t s).
Lemma capartb_sound s : capartb s = true -> capart s.
Proof.
  unfold capartb, capart. rewrite forallb_forall. intros H c0 el cl Hp Hb.
  specialize (H _ (p2t_get_In _ _ _ Hp)). cbn in H. apply orb_true_iff in H as [H|H].
  - exfalso. apply Hb, in_base_true, H.
  - apply negb_true_iff in H. apply in_base_false, H.
Qed.

Definition wf_clsb (s : pstate) : bool :=
  forallb (fun ce : N * Placeholder.entry =>
             match ce with
             | (_, (_, Placeholder.TOpen, Some cl)) =>
                 match p2t_get (p2t s) cl with Some (_, Placeholder.TClose, _) => true | _ => false end
             | _ => true
             end) (p2t s).
Lemma wf_clsb_sound s : wf_clsb s = true -> DMP.wf_cls (cls_of s).
Proof.
  unfold wf_clsb, DMP.wf_cls. rewrite forallb_forall. intros H c cl Hc. unfold cls_of in Hc.
  destruct (p2t_get (p2t s) c) as [[[el ty] cl0]|] eqn:Ep; [|discriminate].
  destruct ty; inversion Hc; subst cl0. specialize (H _ (p2t_get_In _ _ _ Ep)). cbn in H.
  unfold DMP.is_close, cls_of. destruct (p2t_get (p2t s) cl) as [[[e2 t2] c2]|]; [|discriminate]. destruct t2; try discriminate. reflexivity.
Qed.

Definition binvb (s : pstate) : bool :=
  forallb (fun kc : Placeholder.key * N =>
             let '((k, _, _), c) := kc in negb (in_base c) || match xattrs k with [] => true | _ => false end) (t2p s)
  && N.leb 57348 (ctr s).
Lemma binvb_sound s : binvb s = true -> binv s.
Proof.
  unfold binvb, binv. intros H. apply andb_true_iff in H as [H1 H2]. split; [|apply N.leb_le, H2].
  rewrite forallb_forall in H1. intros k ty cl c Ht Hin. specialize (H1 _ (t2p_get_In _ _ _ Ht)). cbn in H1.
  apply orb_true_iff in H1 as [H1|H1].
  - apply negb_true_iff in H1. exfalso. apply (in_base_false _ H1), Hin.
  - destruct (xattrs k); [reflexivity|discriminate].
Qed.

Definition minvb (s : pstate) : bool :=
  forallb (fun kc : Placeholder.key * N =>
             let '((k, ty, _), c) := kc in
             match ty with
             | Placeholder.TSingle =>
                 negb (has_mark (xattrs k)) ||
                 match p2t_get (p2t s) c with
                 | Some (e, _, _) => Placeholder.xtree_eqb (Placeholder.knorm e) k
                 | None => true
                 end
             | _ => true
             end) (t2p s).
Lemma minvb_sound s : minvb s = true -> minv s.
Proof.
  unfold minvb, minv. rewrite forallb_forall. intros H c e cl k Hp Ht Hm.
  specialize (H _ (t2p_get_In _ _ _ Ht)). cbn in H. rewrite Hm, Hp in H. cbn in H.
  apply PlaceholderProofs.xtree_eqb_eq, H.
Qed.

Definition flat_prem_okb (s : pstate) (left right : str) : bool :=
  minvb s && binvb s && capartb s && wf_clsb s && forallb (txt_okb s) left && forallb (txt_okb s) right.

Theorem flat_prem_sound s l r : flat_prem_okb s l r = true -> PlaceholderProofs.ph_inv s ->
  pinv s /\ capart s /\ DMP.wf_cls (cls_of s) /\ Forall (txt_ok s) l /\ Forall (txt_ok s) r.
Proof.
  unfold flat_prem_okb. intros H I.
  apply andb_true_iff in H as [H H6]. apply andb_true_iff in H as [H H5]. apply andb_true_iff in H as [H H4].
  apply andb_true_iff in H as [H H3]. apply andb_true_iff in H as [H1 H2].
  split; [split; [exact I|split; [apply minvb_sound, H1|apply binvb_sound, H2]]|].
  split; [apply capartb_sound, H3|]. split; [apply wf_clsb_sound, H4|].
  rewrite forallb_forall in H5, H6.
  split; apply Forall_forall; intros ch Hc; apply txt_okb_sound; auto.
Qed.

(* the table invariants of the maker prepare() returns: PlaceholderFinal.do_tree_wf from ph_wf_init *)
Theorem prepare_ph_inv c L R : PlaceholderProofs.ph_inv (fst (fst (prepare c L R))).
Proof.
  unfold prepare.
  pose proof (PlaceholderFinal.do_tree_wf (c_tt c) (c_fmt c) ph_init (remove_comments L) (PlaceholderFinal.ph_wf_init _ _)) as W1.
  destruct (Placeholder.do_tree (c_tt c) (c_fmt c) ph_init (remove_comments L)) as [s1 L'] eqn:E1. cbn [fst] in W1.
  pose proof (PlaceholderFinal.do_tree_wf (c_tt c) (c_fmt c) s1 (remove_comments R) W1) as W2.
  destruct (Placeholder.do_tree (c_tt c) (c_fmt c) s1 (remove_comments R)) as [s2 R'] eqn:E2. cbn [fst] in *.
  exact (proj1 W2).
Qed.

(* ------------------------------------------------------------------ *)
(** * Along a run of the model (evaluated by the harness) *)

Definition atom_eqb (a b : atom) : bool :=
  match a, b with
  | AC x, AC y => N.eqb x y
  | AE x, AE y => Placeholder.xtree_eqb x y
  | _, _ => false
  end.
Fixpoint atoms_eqb (a b : list atom) : bool :=
  match a, b with
  | [], [] => true
  | x :: a', y :: b' => atom_eqb x y && atoms_eqb a' b'
  | _, _ => false
  end.
Lemma atoms_eqb_eq a : forall b, atoms_eqb a b = true -> a = b.
Proof.
  induction a as [|x a IH]; intros [|y b] H; cbn in H; try discriminate; [reflexivity|].
  apply andb_true_iff in H as [H1 H2]. rewrite (IH b H2). f_equal.
  destruct x, y; cbn in H1; try discriminate; [apply N.eqb_eq in H1|apply PlaceholderProofs.xtree_eqb_eq in H1]; now subst.
Qed.

(* one text update of a text (not a tail): premises of text_update_flat, room, and the two readings *)
Definition flat_step_okb (c : cfg) (o : oracle) (s : pstate) (left right : str) : bool :=
  match make_diff_tags c o s left right false with
  | FOk (s', x, _) =>
      flat_prem_okb s left right && N.leb (ctr s') PUA_END &&
      atoms_eqb (fl true s' false x) (flat0 s (norm_if c right)) &&
      atoms_eqb (fl false s' false x) (flat0 s (norm_if c left))
  | FErr _ => true
  end.

Section Run.
Variable c : cfg.
Variable o : oracle.
Variable rootns : list (option str * str).

Fixpoint flat_runb (st : fstate) (script : list gaction) : bool :=
  match script with
  | [] => true
  | a :: r =>
      match decode a with
      | FOk d =>
          (match d with
           | DTextIn nd t =>
               match resolve rootns st nd with
               | FOk p => match get_at (fs_tree st) p with
                          | Some n => is_inserted n || flat_step_okb c o (fs_ph st) (otxt (xtext n)) (otxt t)
                          | None => true
                          end
               | FErr _ => true
               end
           | _ => true
           end) &&
          match handle_d c o rootns st d with FOk st' => flat_runb st' r | FErr _ => true end
      | FErr _ => true
      end
  end.
End Run.
