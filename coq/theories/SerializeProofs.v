(* lxml's serialisation, as modelled in XV.Serialize, is injective on the
   fragment [key_ok] up to exactly the normalisation [knorm] the maker model
   uses for its keys: the parser reads back [knorm t] from [serialize t]. *)
From Coq Require Import List NArith Bool Lia Arith.
Import ListNotations.
Require Import XV.Placeholder XV.PlaceholderProofs XV.Serialize.
Local Open Scope N_scope.

(* ----------------------------------------------------------------- strings *)
Lemma strip_prefix_app : forall p r, strip_prefix p (p ++ r) = Some r.
Proof. induction p as [|a p IH]; intro r; cbn; [reflexivity | rewrite N.eqb_refl; apply IH]. Qed.
Lemma strip_prefix_some : forall p s l, strip_prefix p s = Some l -> s = p ++ l.
Proof.
  induction p as [|a p IH]; intros s l H; cbn in *; [congruence|].
  destruct s as [|b s]; [discriminate|]. destruct (N.eqb a b) eqn:E; [|discriminate].
  apply N.eqb_eq in E. subst b. rewrite (IH _ _ H). reflexivity.
Qed.
Lemma strip_prefix_head_neq : forall a p b s, a <> b -> strip_prefix (a :: p) (b :: s) = None.
Proof. intros a p b s H. cbn. destruct (N.eqb a b) eqn:E; [apply N.eqb_eq in E; congruence | reflexivity]. Qed.

Lemma span_app : forall (p : N -> bool) a rest,
  forallb p a = true -> match rest with [] => True | c :: _ => p c = false end ->
  span p (a ++ rest) = (a, rest).
Proof.
  intros p a rest. induction a as [|c a IH]; cbn [app forallb]; intros H R.
  - destruct rest as [|c r]; cbn; [reflexivity | rewrite R; reflexivity].
  - apply andb_true_iff in H. destruct H as [H1 H2]. cbn [span]. rewrite H1, (IH H2 R). reflexivity.
Qed.

(* --------------------------------------------------------------- escaping *)
Lemma punesc_esc_text : forall t rest, ptext (esc_text t ++ 60 :: rest) = Some (t, 60 :: rest).
Proof.
  unfold ptext. induction t as [|c t IH]; intro rest.
  - reflexivity.
  - cbn [esc_text flat_map]. fold (esc_text t). rewrite <- app_assoc. unfold esc_text_c.
    destruct (N.eqb c 38) eqn:E1; [apply N.eqb_eq in E1; subst c; cbn; rewrite IH; reflexivity|].
    destruct (N.eqb c 60) eqn:E2; [apply N.eqb_eq in E2; subst c; cbn; rewrite IH; reflexivity|].
    destruct (N.eqb c 62) eqn:E3; [apply N.eqb_eq in E3; subst c; cbn; rewrite IH; reflexivity|].
    destruct (N.eqb c 13) eqn:E4; [apply N.eqb_eq in E4; subst c; cbn; rewrite IH; reflexivity|].
    cbn [app punesc]. rewrite E2, E1, IH. reflexivity.
Qed.
Lemma punesc_esc_attr : forall t rest, pattrval (esc_attr t ++ 34 :: rest) = Some (t, rest).
Proof.
  unfold pattrval. induction t as [|c t IH]; intro rest.
  - reflexivity.
  - cbn [esc_attr flat_map]. fold (esc_attr t). rewrite <- app_assoc. unfold esc_attr_c.
    destruct (N.eqb c 38) eqn:E1; [apply N.eqb_eq in E1; subst c; cbn; rewrite IH; reflexivity|].
    destruct (N.eqb c 60) eqn:E2; [apply N.eqb_eq in E2; subst c; cbn; rewrite IH; reflexivity|].
    destruct (N.eqb c 62) eqn:E3; [apply N.eqb_eq in E3; subst c; cbn; rewrite IH; reflexivity|].
    destruct (N.eqb c 34) eqn:E4; [apply N.eqb_eq in E4; subst c; cbn; rewrite IH; reflexivity|].
    destruct (N.eqb c 9) eqn:E5; [apply N.eqb_eq in E5; subst c; cbn; rewrite IH; reflexivity|].
    destruct (N.eqb c 10) eqn:E6; [apply N.eqb_eq in E6; subst c; cbn; rewrite IH; reflexivity|].
    destruct (N.eqb c 13) eqn:E7; [apply N.eqb_eq in E7; subst c; cbn; rewrite IH; reflexivity|].
    cbn [app punesc]. rewrite E4, E1, IH. reflexivity.
Qed.
Lemma esc_text_inj : forall a b, esc_text a = esc_text b -> a = b.
Proof.
  intros a b H. pose proof (punesc_esc_text a []) as Ha. pose proof (punesc_esc_text b []) as Hb.
  rewrite H in Ha. congruence.
Qed.

(* ------------------------------------------------------------------ until2 *)
Lemma until2_cons : forall a b x y r, N.eqb x a && N.eqb y b = false ->
  until2 a b (x :: y :: r) = match until2 a b (y :: r) with Some (u, v) => Some (x :: u, v) | None => None end.
Proof. intros a b x y r H. cbn [until2]. rewrite H. reflexivity. Qed.

Lemma no_adj_cons : forall a b x y r,
  no_adj a b (x :: y :: r) = negb (N.eqb x a && N.eqb y b) && no_adj a b (y :: r).
Proof. reflexivity. Qed.

Lemma until2_app : forall a b t rest, no_adj a b (t ++ [a]) = true ->
  until2 a b (t ++ a :: b :: rest) = Some (t, rest).
Proof.
  intros a b. induction t as [|x t IH]; intros rest H.
  - cbn. rewrite !N.eqb_refl. reflexivity.
  - assert (exists y r, t ++ [a] = y :: r) as (y & r & E) by (destruct t; cbn; eauto).
    assert (exists r', t ++ a :: b :: rest = y :: r') as (r' & E') by (destruct t; cbn in *; inversion E; eauto).
    cbn [app] in *. rewrite E in H. rewrite no_adj_cons in H. apply andb_true_iff in H. destruct H as [H H2].
    apply negb_true_iff in H. rewrite <- E in H2. specialize (IH rest H2).
    rewrite E'. rewrite (until2_cons _ _ _ _ _ H). rewrite <- E'. rewrite IH. reflexivity.
Qed.

Ltac norm_app := repeat (progress (cbn [app]; rewrite <- ?app_assoc)).

(* ------------------------------------------------------------------- names *)
Lemma namechar_not : forall c d, namechar c = true ->
  In d [32;9;10;13;47;62;60;61;34;39;63;33;38;35;123;125] -> c <> d.
Proof.
  intros c d H I E. subst d. unfold namechar in H. apply negb_true_iff in H.
  apply not_true_iff_false in H. apply H. apply existsb_exists. exists c. split; [exact I | apply N.eqb_refl].
Qed.
Ltac not_name_char H := eapply (namechar_not _ _ H); cbn; tauto.

Lemma pchar_namechar : forall c, pchar c = true -> namechar c = true.
Proof. intros c H. unfold pchar in H. apply andb_true_iff in H. tauto. Qed.
Lemma pchar_not58 : forall c, pchar c = true -> c <> 58.
Proof.
  intros c H E. subst c. discriminate.
Qed.
Lemma plain_namechars : forall n, plain_name n = true -> forallb namechar n = true.
Proof.
  intros n H. destruct n as [|c n]; [discriminate|]. unfold plain_name in H. rewrite forallb_forall in *.
  intros x Hx. apply pchar_namechar. auto.
Qed.
Lemma plain_no58 : forall n, plain_name n = true -> ~ In 58 n.
Proof.
  intros n H I. destruct n as [|c n]; [discriminate|]. unfold plain_name in H. rewrite forallb_forall in H.
  exact (pchar_not58 _ (H _ I) eq_refl).
Qed.
Lemma plain_head : forall n, plain_name n = true -> exists c r, n = c :: r /\ namechar c = true.
Proof.
  intros [|c r] H; [discriminate|]. exists c, r. split; [reflexivity|].
  cbn in H. apply andb_true_iff in H. apply pchar_namechar. tauto.
Qed.
Lemma plain_not_ns : forall n, plain_name n = true -> strip_prefix DIFF_NS_BRACED n = None.
Proof.
  intros n H. destruct (plain_head n H) as (c & r & -> & NC). unfold DIFF_NS_BRACED.
  apply strip_prefix_head_neq. intro E. symmetry in E. revert E. not_name_char NC.
Qed.
Lemma plain_any : forall n, plain_name n = true -> any_name n = true.
Proof. intros n H. unfold any_name. rewrite (plain_not_ns n H). exact H. Qed.

Lemma any_name_cases : forall n, any_name n = true ->
  (plain_name n = true /\ strip_prefix DIFF_NS_BRACED n = None) \/
  (exists l, n = DIFF_NS_BRACED ++ l /\ plain_name l = true /\ strip_prefix DIFF_NS_BRACED n = Some l).
Proof.
  intros n H. unfold any_name in H. destruct (strip_prefix DIFF_NS_BRACED n) as [l|] eqn:E.
  - right. exists l. split; [apply strip_prefix_some; exact E | auto].
  - left. auto.
Qed.

Definition P_ok (P : str) : Prop := prefix_ok P = true.

Lemma prefix_plain : forall P, P_ok P -> plain_name P = true.
Proof. intros P H. unfold P_ok, prefix_ok in H. apply andb_true_iff in H. tauto. Qed.
Lemma prefix_not_xmlns : forall P, P_ok P -> P <> [120;109;108;110;115].
Proof.
  intros P H E. unfold P_ok, prefix_ok in H. apply andb_true_iff in H. destruct H as [_ H].
  apply negb_true_iff in H. rewrite E in H. discriminate.
Qed.

Lemma rn_plain : forall P n, plain_name n = true -> rn P n = n.
Proof. intros P n H. unfold rn. rewrite (plain_not_ns n H). reflexivity. Qed.

Lemma forallb_app_true : forall (A : Type) (f : A -> bool) a b,
  forallb f a = true -> forallb f b = true -> forallb f (a ++ b) = true.
Proof. intros. rewrite forallb_app. rewrite H, H0. reflexivity. Qed.

Lemma rn_namechars : forall P n, P_ok P -> any_name n = true ->
  forallb namechar (rn P n) = true /\ exists c r, rn P n = c :: r /\ namechar c = true.
Proof.
  intros P n HP H. destruct (any_name_cases n H) as [[PL NS]|(l & -> & PL & NS)].
  - rewrite (rn_plain P n PL). split; [apply plain_namechars; exact PL | apply plain_head; exact PL].
  - unfold rn. rewrite NS. split.
    + apply forallb_app_true; [apply plain_namechars; apply prefix_plain; exact HP|].
      cbn [forallb]. rewrite (plain_namechars l PL). reflexivity.
    + destruct (plain_head P (prefix_plain P HP)) as (c & r & -> & NC). exists c, (r ++ 58 :: l). auto.
Qed.

Lemma unrn_rn : forall P n, P_ok P -> any_name n = true -> unrn P (rn P n) = n.
Proof.
  intros P n HP H. destruct (any_name_cases n H) as [[PL NS]|(l & -> & PL & NS)].
  - rewrite (rn_plain P n PL). unfold unrn. destruct (strip_prefix (P ++ [58]) n) as [l|] eqn:E; [|reflexivity].
    apply strip_prefix_some in E. exfalso. apply (plain_no58 n PL). rewrite E. rewrite !in_app_iff. cbn. tauto.
  - unfold rn. rewrite NS. unfold unrn.
    replace (P ++ 58 :: l) with ((P ++ [58]) ++ l) by (rewrite <- app_assoc; reflexivity).
    rewrite strip_prefix_app. reflexivity.
Qed.

Lemma split58 : forall a b c d, a ++ 58 :: b = c ++ 58 :: d -> ~ In 58 a -> ~ In 58 c -> a = c.
Proof.
  induction a as [|x a IH]; intros b c d E Na Nc; destruct c as [|y c]; cbn in *.
  - reflexivity.
  - inversion E; subst. tauto.
  - inversion E; subst. tauto.
  - inversion E; subst. f_equal. eapply IH; eauto.
Qed.

Lemma rn_not_decl : forall P n, P_ok P -> any_name n = true -> str_eqb (rn P n) (S_XMLNS ++ P) = false.
Proof.
  intros P n HP H. destruct (str_eqb (rn P n) (S_XMLNS ++ P)) eqn:E; [|reflexivity]. exfalso.
  apply str_eqb_eq in E. destruct (any_name_cases n H) as [[PL NS]|(l & -> & PL & NS)].
  - rewrite (rn_plain P n PL) in E. apply (plain_no58 n PL). rewrite E. unfold S_XMLNS. cbn. tauto.
  - unfold rn in E. rewrite NS in E.
    change (S_XMLNS ++ P) with ([120;109;108;110;115] ++ 58 :: P) in E.
    apply split58 in E.
    + exact (prefix_not_xmlns P HP E).
    + apply plain_no58. apply prefix_plain. exact HP.
    + cbn. intuition discriminate.
Qed.

(* -------------------------------------------------------------- attributes *)
Lemma esc_attr_diff_ns : esc_attr DIFF_NS = DIFF_NS.
Proof. reflexivity. Qed.

Lemma pattrs_ser : forall P attrs rest n, P_ok P ->
  forallb (fun kv => any_name (fst kv)) attrs = true ->
  (length attrs < n)%nat ->
  match rest with [] => True | c :: _ => c <> 32 end ->
  pattrs P n (ser_attrs P attrs ++ rest) = Some (attrs, rest).
Proof.
  intros P attrs rest n HP. revert n. induction attrs as [|[k v] attrs IH]; intros n OK LN R.
  - destruct n as [|n]; [cbn in LN; lia|]. cbn [ser_attrs flat_map app pattrs].
    destruct rest as [|c r]; [reflexivity|]. rewrite strip_prefix_head_neq by congruence. reflexivity.
  - destruct n as [|n]; [cbn in LN; lia|]. cbn [forallb fst] in OK. apply andb_true_iff in OK. destruct OK as [OK1 OK2].
    cbn [ser_attrs flat_map]. fold (ser_attrs P attrs). unfold ser_attr. cbn [fst snd]. rewrite <- app_assoc.
    destruct (rn_namechars P k HP OK1) as [NC _].
    replace ((32 :: rn P k ++ [61; 34] ++ esc_attr v ++ [34]) ++ ser_attrs P attrs ++ rest)
      with (32 :: rn P k ++ (61 :: 34 :: esc_attr v ++ 34 :: (ser_attrs P attrs ++ rest))).
    2:{ norm_app. reflexivity. }
    cbn [pattrs strip_prefix]. rewrite N.eqb_refl.
    rewrite (span_app namechar (rn P k) (61 :: _) NC eq_refl).
    cbn [strip_prefix]. rewrite !N.eqb_refl. rewrite punesc_esc_attr.
    rewrite IH; [|exact OK2 | cbn [length] in LN; lia | exact R].
    rewrite (rn_not_decl P k HP OK1). rewrite (unrn_rn P k HP OK1). reflexivity.
Qed.

Lemma pattrs_decl : forall P attrs rest n, P_ok P ->
  forallb (fun kv => any_name (fst kv)) attrs = true ->
  (length attrs < n)%nat ->
  match rest with [] => True | c :: _ => c <> 32 end ->
  pattrs P (S n) (decl P ++ ser_attrs P attrs ++ rest) = Some (attrs, rest).
Proof.
  intros P attrs rest n HP OK LN R. unfold decl.
  replace ((32 :: S_XMLNS ++ P ++ [61; 34] ++ DIFF_NS ++ [34]) ++ ser_attrs P attrs ++ rest)
    with (32 :: (S_XMLNS ++ P) ++ (61 :: 34 :: esc_attr DIFF_NS ++ 34 :: (ser_attrs P attrs ++ rest))).
  2:{ rewrite esc_attr_diff_ns. cbn [app]. rewrite <- !app_assoc. cbn [app]. rewrite <- !app_assoc. reflexivity. }
  cbn [pattrs strip_prefix]. rewrite N.eqb_refl.
  assert (NC : forallb namechar (S_XMLNS ++ P) = true).
  { apply forallb_app_true; [reflexivity | apply plain_namechars; apply prefix_plain; exact HP]. }
  rewrite (span_app namechar (S_XMLNS ++ P) (61 :: _) NC eq_refl).
  cbn [strip_prefix]. rewrite !N.eqb_refl. rewrite punesc_esc_attr.
  rewrite (pattrs_ser P attrs rest n HP OK LN R). rewrite str_eqb_refl. reflexivity.
Qed.

(* ------------------------------------------------------------------- nodes *)
Definition nk (t : xtree) : xtree := set_tail (knorm t) [].
Definition ser_kids (P : str) (ks : list xtree) : str :=
  concat (map (fun k => ser_node P false k ++ esc_text (xtail k)) ks).
Fixpoint pneeds (ks : list xtree) : nat :=
  match ks with [] => 1%nat | k :: r => S (Nat.max (pneed k) (pneeds r)) end.
Lemma pneed_unfold : forall tag attrs text tail kids,
  pneed (XNode tag attrs text tail kids) = (3 + length attrs + pneeds kids)%nat.
Proof. reflexivity. Qed.

Lemma no_adj_snoc : forall a b x, a <> b -> no_adj a b x = true -> no_adj a b (x ++ [a]) = true.
Proof.
  intros a b x NE. induction x as [|y x IH]; intro H; [reflexivity|].
  destruct x as [|z r].
  - cbn. destruct (N.eqb a b) eqn:E; [apply N.eqb_eq in E; congruence|]. rewrite andb_false_r. reflexivity.
  - cbn [app] in *. rewrite no_adj_cons in *. apply andb_true_iff in H. destruct H as [H1 H2].
    rewrite H1. cbn [andb]. apply IH. exact H2.
Qed.

Section Nodes.
Variable P : str.
Hypothesis HP : P_ok P.

Lemma ser_node_head : forall root top t, node_ok root t = true ->
  exists c r, ser_node P top t = 60 :: c :: r /\ c <> 47.
Proof.
  intros root top [tag attrs text tail kids] OK. cbn [node_ok ser_node] in *.
  destruct (str_eqb tag S_COMMENT).
  - exists 33. eexists. split; [reflexivity | discriminate].
  - destruct (strip_prefix S_PI tag) as [tg|].
    + exists 63. eexists. split; [reflexivity | discriminate].
    + apply andb_true_iff in OK. destruct OK as [OK _]. apply andb_true_iff in OK. destruct OK as [OK _].
      assert (AN : any_name tag = true) by (destruct root; [exact OK | apply plain_any; exact OK]).
      destruct (rn_namechars P tag HP AN) as [_ (c & r & E & NC)]. cbv zeta. rewrite E.
      exists c. eexists. split; [reflexivity|]. not_name_char NC.
Qed.

Lemma ser_kids_head : forall ks W, forallb (node_ok false) ks = true ->
  exists Z, ser_kids P ks ++ 60 :: 47 :: W = 60 :: Z.
Proof.
  intros [|k ks] W OK; [eexists; reflexivity|]. cbn [forallb] in OK. apply andb_true_iff in OK. destruct OK as [OK _].
  destruct (ser_node_head false false k OK) as (c & r & E & _). unfold ser_kids. cbn [map concat]. rewrite E.
  eexists. reflexivity.
Qed.

Definition pnodeP (t : xtree) : Prop :=
  forall root top fuel rest, node_ok root t = true -> (pneed t <= fuel)%nat ->
    pnode P fuel (ser_node P top t ++ rest) = Some (nk t, rest).

Lemma set_tail_nk : forall k, set_tail (nk k) (xtail k) = knorm k.
Proof. intros [tag attrs text tail kids]. reflexivity. Qed.

Lemma pkids_ser : forall ks, Forall pnodeP ks -> forallb (node_ok false) ks = true ->
  forall fuel W, (pneeds ks <= fuel)%nat ->
    pkids P fuel (ser_kids P ks ++ 60 :: 47 :: W) = Some (map knorm ks, W).
Proof.
  intros ks F. induction F as [|k ks Hk _ IH]; intros OK fuel W LF.
  - destruct fuel as [|f]; [cbn in LF; lia|]. reflexivity.
  - cbn [forallb] in OK. apply andb_true_iff in OK. destruct OK as [OK1 OK2].
    cbn [pneeds] in LF. destruct fuel as [|f]; [lia|].
    unfold ser_kids. cbn [map concat]. fold (ser_kids P ks). rewrite <- !app_assoc.
    destruct (ser_node_head false false k OK1) as (c & r & E & NE).
    assert (SN : forall X, strip_prefix [60; 47] (ser_node P false k ++ X) = None).
    { intro X. rewrite E. cbn [app strip_prefix]. rewrite N.eqb_refl.
      destruct (N.eqb 47 c) eqn:E47; [apply N.eqb_eq in E47; congruence | reflexivity]. }
    cbn [pkids]. rewrite SN. rewrite (Hk false false f _ OK1 ltac:(lia)).
    destruct (ser_kids_head ks W OK2) as [Z EZ]. rewrite EZ. rewrite punesc_esc_text. rewrite <- EZ.
    rewrite (IH OK2 f W ltac:(lia)). rewrite set_tail_nk. reflexivity.
Qed.

Lemma pnode_ser : forall t, pnodeP t.
Proof.
  induction t as [tag attrs text tail kids IH] using xtree_ind2.
  intros root top fuel rest OK LF. rewrite pneed_unfold in LF. destruct fuel as [|f]; [lia|].
  cbn [node_ok] in OK. cbn [ser_node]. unfold nk. cbn [knorm set_tail xtag xattrs xtext xkids].
  destruct (str_eqb tag S_COMMENT) eqn:EC.
  - (* comment *)
    apply str_eqb_eq in EC. subst tag.
    destruct attrs as [|? ?]; [|discriminate]. destruct kids as [|? ?]; [|discriminate].
    destruct text as [x|]; [|discriminate]. cbn [otxt map].
    replace (([60; 33; 45; 45] ++ x ++ [45; 45; 62]) ++ rest) with ([60; 33; 45; 45] ++ (x ++ 45 :: 45 :: 62 :: rest))
      by (rewrite <- !app_assoc; reflexivity).
    cbn [pnode]. rewrite strip_prefix_app. rewrite (until2_app 45 45 x _ OK). cbn [strip_prefix N.eqb Pos.eqb].
    destruct x; reflexivity.
  - destruct (strip_prefix S_PI tag) as [tg|] eqn:EP.
    + (* processing instruction *)
      apply strip_prefix_some in EP. subst tag. apply andb_true_iff in OK. destruct OK as [PN OK].
      destruct attrs as [|? ?]; [|discriminate]. destruct kids as [|? ?]; [|discriminate]. cbn [map].
      pose proof (plain_namechars tg PN) as NC.
      destruct text as [x|].
      * replace (([60; 63] ++ tg ++ (32 :: x) ++ [63; 62]) ++ rest) with (60 :: 63 :: tg ++ (32 :: x ++ 63 :: 62 :: rest))
          by (cbn [app]; rewrite <- !app_assoc; cbn [app]; rewrite <- !app_assoc; reflexivity).
        cbn [pnode strip_prefix N.eqb Pos.eqb].
        rewrite (span_app namechar tg (32 :: _) NC eq_refl). cbn [strip_prefix N.eqb Pos.eqb].
        rewrite (until2_app 63 62 x rest (no_adj_snoc 63 62 x ltac:(discriminate) OK)).
        destruct x; reflexivity.
      * replace (([60; 63] ++ tg ++ [] ++ [63; 62]) ++ rest) with (60 :: 63 :: tg ++ (63 :: 62 :: rest))
          by (cbn [app]; rewrite <- !app_assoc; reflexivity).
        cbn [pnode strip_prefix N.eqb Pos.eqb].
        rewrite (span_app namechar tg (63 :: _) NC eq_refl). cbn [strip_prefix N.eqb Pos.eqb]. reflexivity.
    + (* element *)
      apply andb_true_iff in OK. destruct OK as [OK OKK]. apply andb_true_iff in OK. destruct OK as [OKT OKA].
      assert (AN : any_name tag = true) by (destruct root; [exact OKT | apply plain_any; exact OKT]).
      assert (AA : forallb (fun kv => any_name (fst kv)) attrs = true).
      { rewrite forallb_forall in *. intros kv Hkv. specialize (OKA kv Hkv). destruct root; [exact OKA | apply plain_any; exact OKA]. }
      destruct (rn_namechars P tag HP AN) as [NC (c & r & ENM & NCc)]. cbv zeta.
      set (nm := rn P tag) in *.
      set (D := if top && uses_ns tag attrs then decl P else []).
      assert (KN : (1 <= pneeds kids)%nat) by (destruct kids; cbn; lia).
      (* the attributes, whatever follows (a '/' or a '>') *)
      assert (PA : forall body, match body with [] => False | b :: _ => b = 47 \/ b = 62 end ->
                    pattrs P f (D ++ ser_attrs P attrs ++ body) = Some (attrs, body)).
      { intros body HB. assert (R : match body with [] => True | b :: _ => b <> 32 end).
        { destruct body as [|b ?]; [exact Logic.I|]. destruct HB; subst; discriminate. }
        unfold D. destruct (top && uses_ns tag attrs).
        - destruct f as [|f']; [lia|]. apply pattrs_decl; auto. lia.
        - apply pattrs_ser; auto. lia. }
      assert (SP : forall body, match body with [] => False | b :: _ => b = 47 \/ b = 62 end ->
                    span namechar (nm ++ D ++ ser_attrs P attrs ++ body) = (nm, D ++ ser_attrs P attrs ++ body)).
      { intros body HB. apply span_app; [exact NC|]. unfold D. destruct (top && uses_ns tag attrs); [reflexivity|].
        destruct attrs as [|[k v] ?]; [|reflexivity]. cbn [ser_attrs flat_map app].
        destruct body as [|b ?]; [exact Logic.I|]. destruct HB; subst; reflexivity. }
      (* dispatch on the first character of the name *)
      assert (DISP : forall X, pnode P (S f) (60 :: nm ++ X) =
                match strip_prefix [60] (60 :: nm ++ X) with
                | Some r0 =>
                  let '(nm1, r1) := span namechar r0 in
                  match pattrs P f r1 with
                  | Some (attrs1, r2) =>
                    match strip_prefix [47;62] r2 with
                    | Some r3 => Some (XNode (unrn P nm1) attrs1 None [] [], r3)
                    | None =>
                      match strip_prefix [62] r2 with
                      | Some r3 =>
                        match ptext r3 with
                        | Some (txt, r4) =>
                          match pkids P f r4 with
                          | Some (kids1, r5) =>
                            let '(nm2, r6) := span namechar r5 in
                            match strip_prefix [62] r6 with
                            | Some r7 =>
                              if str_eqb nm1 nm2 then
                                Some (XNode (unrn P nm1) attrs1
                                            (match txt, kids1 with [], [] => Some [] | [], _ :: _ => None | _ :: _, _ => Some txt end)
                                            [] kids1, r7)
                              else None
                            | None => None
                            end
                          | None => None
                          end
                        | None => None
                        end
                      | None => None
                      end
                    end
                  | None => None
                  end
                | None => None
                end).
      { intro X. rewrite ENM. cbn [pnode app strip_prefix]. rewrite N.eqb_refl.
        assert (N33 : N.eqb 33 c = false) by (apply N.eqb_neq; intro E; symmetry in E; revert E; not_name_char NCc).
        assert (N63 : N.eqb 63 c = false) by (apply N.eqb_neq; intro E; symmetry in E; revert E; not_name_char NCc).
        rewrite N33, N63. reflexivity. }
      assert (UN : unrn P nm = tag) by (apply unrn_rn; assumption).
      assert (F1 : forall W, ptext (esc_text (otxt text) ++ ser_kids P kids ++ 60 :: 47 :: W)
                             = Some (otxt text, ser_kids P kids ++ 60 :: 47 :: W)).
      { intro W. destruct (ser_kids_head kids W OKK) as [Z EZ]. rewrite EZ. apply punesc_esc_text. }
      assert (F2 : forall W, pkids P f (ser_kids P kids ++ 60 :: 47 :: W) = Some (map knorm kids, W)).
      { intro W. apply pkids_ser; [exact IH | exact OKK | lia]. }
      assert (F3 : forall W, span namechar (nm ++ 62 :: W) = (nm, 62 :: W)).
      { intro W. apply span_app; [exact NC | reflexivity]. }
      assert (BODY :
                 pnode P (S f) ((60 :: nm ++ D ++ ser_attrs P attrs ++
                    62 :: esc_text (otxt text) ++ ser_kids P kids ++ [60; 47] ++ nm ++ [62]) ++ rest)
                 = Some (XNode tag attrs
                           (match otxt text, map knorm kids with [], [] => Some [] | [], _ :: _ => None | _ :: _, _ => Some (otxt text) end)
                           [] (map knorm kids), rest)).
      { replace ((60 :: nm ++ D ++ ser_attrs P attrs ++ 62 :: esc_text (otxt text) ++ ser_kids P kids ++ [60; 47] ++ nm ++ [62]) ++ rest)
          with (60 :: nm ++ (D ++ ser_attrs P attrs ++ (62 :: esc_text (otxt text) ++ ser_kids P kids ++ 60 :: 47 :: nm ++ 62 :: rest))).
        2:{ norm_app. reflexivity. }
        rewrite DISP. cbn [strip_prefix N.eqb Pos.eqb].
        rewrite SP by (right; reflexivity). rewrite PA by (right; reflexivity).
        cbn [strip_prefix N.eqb Pos.eqb].
        rewrite F1, F2, F3. cbn [strip_prefix N.eqb Pos.eqb]. rewrite str_eqb_refl. rewrite UN. reflexivity. }
      assert (EMPTY : pnode P (S f) ((60 :: nm ++ D ++ ser_attrs P attrs ++ [47; 62]) ++ rest)
                      = Some (XNode tag attrs None [] [], rest)).
      { replace ((60 :: nm ++ D ++ ser_attrs P attrs ++ [47; 62]) ++ rest)
          with (60 :: nm ++ (D ++ ser_attrs P attrs ++ (47 :: 62 :: rest))).
        2:{ norm_app. reflexivity. }
        rewrite DISP. cbn [strip_prefix N.eqb Pos.eqb].
        rewrite SP by (left; reflexivity). rewrite PA by (left; reflexivity).
        cbn [strip_prefix N.eqb Pos.eqb]. rewrite UN. reflexivity. }
      unfold ser_kids in BODY.
      destruct text as [x|]; destruct kids as [|k0 ks0].
      * lazymatch type of BODY with _ = ?R => transitivity R; [exact BODY|] end. cbn [otxt map]. destruct x; reflexivity.
      * lazymatch type of BODY with _ = ?R => transitivity R; [exact BODY|] end. cbn [otxt map]. destruct x; reflexivity.
      * lazymatch type of EMPTY with _ = ?R => transitivity R; [exact EMPTY|] end. reflexivity.
      * lazymatch type of BODY with _ = ?R => transitivity R; [exact BODY|] end. reflexivity.
Qed.

End Nodes.

(* ------------------------------------------------------------ the theorems *)
Lemma knorm_as_nk : forall t, knorm t = set_tail (nk t) (xtail t).
Proof. intros [tag attrs text tail kids]. reflexivity. Qed.

Theorem serialize_parse : forall P t fuel, P_ok P -> key_ok t = true -> (pneed t <= fuel)%nat ->
  parse P fuel (serialize P t) = Some (knorm t).
Proof.
  intros P t fuel HP OK LF. unfold parse, serialize.
  rewrite (pnode_ser P HP t true true fuel _ OK LF). rewrite punesc_esc_text. rewrite knorm_as_nk. reflexivity.
Qed.

(* lxml's serialisation is injective on the fragment, up to exactly the
   normalisation the maker model applies to its keys *)
Theorem serialize_injective : forall P t u, P_ok P -> key_ok t = true -> key_ok u = true ->
  serialize P t = serialize P u -> knorm t = knorm u.
Proof.
  intros P t u HP Ot Ou E.
  pose proof (serialize_parse P t (Nat.max (pneed t) (pneed u)) HP Ot (Nat.le_max_l _ _)) as Ht.
  pose proof (serialize_parse P u (Nat.max (pneed t) (pneed u)) HP Ou (Nat.le_max_r _ _)) as Hu.
  rewrite E in Ht. congruence.
Qed.

(* ... and the normalisation is invisible in the serialisation *)
Lemma ser_node_knorm : forall P t top root, node_ok root t = true -> ser_node P top (knorm t) = ser_node P top t.
Proof.
  intros P t. induction t as [tag attrs text tail kids IH] using xtree_ind2. intros top root OK.
  cbn [knorm node_ok ser_node] in *. destruct (str_eqb tag S_COMMENT).
  - destruct attrs; [|discriminate]. destruct kids; [|discriminate]. destruct text as [[|? ?]|]; reflexivity.
  - destruct (strip_prefix S_PI tag).
    + apply andb_true_iff in OK. destruct OK as [_ OK]. destruct attrs; [|discriminate]. destruct kids; [|discriminate].
      destruct text as [[|? ?]|]; reflexivity.
    + apply andb_true_iff in OK. destruct OK as [_ OKK]. cbv zeta.
      assert (EK : concat (map (fun k => ser_node P false k ++ esc_text (xtail k)) (map knorm kids))
                   = concat (map (fun k => ser_node P false k ++ esc_text (xtail k)) kids)).
      { rewrite map_map. f_equal. apply map_ext_in. intros k Hk. rewrite Forall_forall in IH.
        rewrite forallb_forall in OKK. rewrite (IH k Hk false false (OKK k Hk)). destruct k; reflexivity. }
      destruct text as [[|c x]|]; destruct kids as [|k0 ks0]; try reflexivity;
        cbn [map] in EK |- *; cbn [otxt]; rewrite EK; reflexivity.
Qed.
Theorem serialize_knorm : forall P t, key_ok t = true -> serialize P (knorm t) = serialize P t.
Proof.
  intros P t OK. unfold serialize. rewrite (ser_node_knorm P t true true OK). destruct t; reflexivity.
Qed.

Theorem serialize_eq_iff : forall P t u, P_ok P -> key_ok t = true -> key_ok u = true ->
  (serialize P t = serialize P u <-> knorm t = knorm u).
Proof.
  intros P t u HP Ot Ou. split; [apply serialize_injective; assumption|].
  intro E. rewrite <- (serialize_knorm P t Ot), <- (serialize_knorm P u Ou), E. reflexivity.
Qed.

(* ------------------------------------- the maker's keys, taken as strings *)
(* the key of tag2placeholder as the code has it *)
Definition skey (P : str) (k : key) : str * ttype * option N :=
  (serialize P (fst (fst k)), snd (fst k), snd k).
Definition kel_ok (k : key) : Prop := key_ok (fst (fst k)) = true.

Lemma skey_eq_iff : forall P k1 k2, P_ok P -> kel_ok k1 -> kel_ok k2 ->
  (skey P k1 = skey P k2 <-> key_norm k1 = key_norm k2).
Proof.
  intros P [[e1 t1] c1] [[e2 t2] c2] HP O1 O2. unfold skey, kel_ok in *. cbn [fst snd key_norm] in *.
  destruct (serialize_eq_iff P e1 e2 HP O1 O2) as [A B]. split; intro H; inversion H; subst; f_equal; f_equal; auto.
Qed.

Lemma placeholder_of_norm : forall s k1 k2, key_norm k1 = key_norm k2 -> placeholder_of s k1 = placeholder_of s k2.
Proof. intros s [[e1 t1] c1] [[e2 t2] c2] H. cbn [key_norm placeholder_of] in *. inversion H; subst. rewrite H1. reflexivity. Qed.

Theorem serial_same_string_same_ph : forall P s k1 k2, P_ok P -> kel_ok k1 -> kel_ok k2 ->
  skey P k1 = skey P k2 -> placeholder_of s k1 = placeholder_of s k2.
Proof. intros P s k1 k2 HP O1 O2 E. apply placeholder_of_norm. apply (skey_eq_iff P k1 k2 HP O1 O2). exact E. Qed.

Theorem serial_distinct : forall P s k1 k2 c1 c2, P_ok P -> kel_ok k1 -> kel_ok k2 ->
  ph_inv s -> skey P k1 <> skey P k2 ->
  placeholder_of s k1 = Some c1 -> placeholder_of s k2 = Some c2 -> c1 <> c2.
Proof.
  intros P s k1 k2 c1 c2 HP O1 O2 I NE H1 H2. apply (distinct_thm s k1 k2 c1 c2 I); auto.
  intro E. apply NE. apply (skey_eq_iff P k1 k2 HP O1 O2). exact E.
Qed.

Theorem serial_tables : forall P tt fmt ops k1 k2, P_ok P -> kel_ok k1 -> kel_ok k2 ->
  let s := fold_left (ph_step tt fmt) ops ph_init in
  (skey P k1 = skey P k2 -> placeholder_of s k1 = placeholder_of s k2) /\
  (forall c, placeholder_of s k1 = Some c -> placeholder_of s k2 = Some c -> skey P k1 = skey P k2).
Proof.
  intros P tt fmt ops k1 k2 HP O1 O2 s. split.
  - apply serial_same_string_same_ph; assumption.
  - intros c H1 H2. apply (skey_eq_iff P k1 k2 HP O1 O2).
    destruct (tables_thm tt fmt ops) as (_ & J & _). fold s in J.
    destruct k1 as [[e1 t1] c1]. destruct k2 as [[e2 t2] c2]. cbn [placeholder_of key_norm] in *. eapply J; eauto.
Qed.

Lemma get_placeholder_norm_hit : forall s k c, placeholder_of s k = Some c -> get_placeholder s k = (s, c).
Proof.
  intros s [[el ty] cl] c H. cbn [placeholder_of] in H. unfold get_placeholder. rewrite (gp_hit _ _ _ _ _ _ H). reflexivity.
Qed.

(* an element with the same serialisation (same role, same close placeholder)
   as one that got placeholder [c] gets [c], after any further history *)
Theorem serial_same_in_two_docs : forall P tt fmt s k s1 c ops k',
  P_ok P -> kel_ok k -> kel_ok k' -> ph_inv s -> get_placeholder s k = (s1, c) -> skey P k' = skey P k ->
  let s2 := fold_left (ph_step tt fmt) ops s1 in get_placeholder s2 k' = (s2, c).
Proof.
  intros P tt fmt s k s1 c ops k' HP O O' I G E s2.
  pose proof (same_in_two_docs_key tt fmt s k s1 c ops I G) as H. fold s2 in H.
  apply get_placeholder_norm_hit.
  rewrite (serial_same_string_same_ph P s2 k' k HP O' O E).
  destruct k as [[el ty] cl]. unfold get_placeholder in H. cbn [placeholder_of].
  destruct (t2p_get (t2p s2) (knorm el, ty, cl)) as [c0|] eqn:L.
  - rewrite (gp_hit _ _ _ _ _ _ L) in H. congruence.
  - rewrite (gp_miss _ _ _ _ _ L) in H. exfalso. inversion H as [[H1 H2]].
    assert (ctr s2 = ctr s2 + 1) by (rewrite <- H1 at 1; reflexivity). lia.
Qed.
